"""C15 helpers: programs as independent, packable items; the five program families (a)-(e); shape classes for
violation keys; structural reductions used to minimise a crashing item.

An *item* is the unit of judgement: zero or more fresh type declarations plus at most one focus method.  Items never
refer to each other, so any subset of a batch is again a valid bridge module (needed for bisection).  Fresh types are
written as gram terms ("ffi", "Name<'a>", "fresh:<kind>") so that gram.render / gram.has_lt / gram.subterms keep working.
"""
import copy
import re

from vlib import gram as G

P, N = G.P, G.N

# the prelude of gram.py, split per declaration (needed to prune a witness); asserted equal to G.PRELUDE below
PRELUDE_DECLS = [
    ("Op", "#[diplomat::opaque]\n    pub struct Op(u8);"),
    ("OpL", "#[diplomat::opaque]\n    pub struct OpL<'a>(&'a u8);"),
    ("En", "pub enum En { A, B, C }"),
    ("St", "pub struct St { pub a: u8, pub b: u32 }"),
    ("Nest", "pub struct Nest { pub s: St, pub e: En, pub f: f64 }"),
    ("SB", "pub struct SB<'a> { pub r: &'a Op }"),
    ("SB2", "pub struct SB2<'a, 'b> { pub x: SB<'a>, pub y: SB<'b> }"),
    ("OutSt", "#[diplomat::out]\n    pub struct OutSt { pub b: Box<Op>, pub n: i32 }"),
    ("Zst", "pub struct Zst {}"),
]
PRELUDE_DEPS = {"Nest": ["St", "En"], "SB": ["Op"], "SB2": ["SB"], "OutSt": ["Op"]}
PRELUDE_KIND = {"Op": "opaque", "OpL": "opaque", "En": "enum", "St": "struct", "Nest": "struct", "SB": "struct", "SB2": "struct",
                "OutSt": "outstruct", "Zst": "struct"}
PRELUDE_LT = {"OpL", "SB", "SB2"}


def _ws(s):
    return re.sub(r"\s+", " ", s).strip()


assert _ws(" ".join(d for _, d in PRELUDE_DECLS)) == _ws(G.PRELUDE), "c15util prelude table out of sync with gram.PRELUDE"


def fresh(name, kind, lt=False):
    return ("ffi", name + ("<'a>" if lt else ""), "fresh:" + kind)


def is128(t):
    return any(s[0] == "prim" and s[1] in G.PRIMS128 for s, _ in G.subterms(t)) or (t[0] == "ffi" and re.search(r"\b[iu]128\b", t[1]))


# ---------------------------------------------------------------------------------------------
# items


class Item(object):
    __slots__ = ("iid", "fam", "types", "m", "pos")

    def __init__(self, iid, fam, types=None, m=None, pos=None):
        self.iid = iid
        self.fam = fam
        self.types = types or []   # [{"name","kind","lt","fields":[(n, term)],"attrs":[str],"methods":[str],"variants":str}]
        self.m = m                 # {"owner","okind","olt","name","selff","params":[(n,term)],"ret":term|None,"attr":None|(gate,text,tag)}
        self.pos = pos             # family-specific label (position / sub-family), only for statistics

    def clone(self):
        return copy.deepcopy(self)


def tdecl(name, kind, lt=False, fields=(), attrs=(), methods=(), variants="A, B"):
    return {"name": name, "kind": kind, "lt": lt, "fields": list(fields), "attrs": list(attrs), "methods": list(methods),
            "variants": variants}


def method(name, owner="Op", okind="opaque", olt=False, selff=None, params=(), ret=None, attr=None):
    return {"owner": owner, "okind": okind, "olt": olt, "name": name, "selff": selff, "params": list(params), "ret": ret, "attr": attr}


def render_type_decl(td):
    out = []
    for a in td["attrs"]:
        out.append(a)
    lt = "<'a>" if td["lt"] else ""
    if td["kind"] == "opaque":
        out.append("#[diplomat::opaque]")
        out.append("pub struct %s%s(%s);" % (td["name"], lt, "&'a u8" if td["lt"] else "u8"))
    elif td["kind"] == "enum":
        out.append("pub enum %s { %s }" % (td["name"], td["variants"]))
    else:
        if td["kind"] == "outstruct":
            out.append("#[diplomat::out]")
        out.append("pub struct %s%s { %s }" % (td["name"], lt, ", ".join("pub %s: %s" % (n, G.render(t)) for n, t in td["fields"])))
    return "\n    ".join(out)


def method_has_lt(m):
    return any(G.has_lt(t) for _, t in m["params"]) or (m["ret"] is not None and G.has_lt(m["ret"])) or (m["selff"] or "").find("'a") >= 0


def render_method(m):
    lines = []
    if m["attr"]:
        gate, text, _tag = m["attr"]
        lines.append("#[diplomat::attr(%s, %s)]" % (gate, text))
    lts = "<'a>" if (method_has_lt(m) and not m["olt"]) else ""
    args = []
    if m["selff"]:
        args.append(m["selff"])
    for n, t in m["params"]:
        args.append("%s: %s" % (n, G.render(t)))
    ret = "" if m["ret"] is None else " -> " + G.render(m["ret"])
    lines.append("pub fn %s%s(%s)%s { unimplemented!() }" % (m["name"], lts, ", ".join(args), ret))
    return "\n        ".join(lines)


def _refs(text):
    return set(re.findall(r"\b[A-Z][A-Za-z0-9_]*\b", text))


def build_source(items, prune=False):
    """One bridge module holding the given items. prune: keep only the prelude types that are mentioned (witnesses)."""
    decls = {}
    order = []
    impls = {}
    impl_order = []
    for it in items:
        for td in it.types:
            txt = render_type_decl(td)
            if td["name"] in decls:
                if decls[td["name"]][0] != txt:
                    raise ValueError("conflicting declarations of %s" % td["name"])
            else:
                decls[td["name"]] = (txt, td)
                order.append(td["name"])
        if it.m:
            key = (it.m["owner"], it.m["olt"])
            if key not in impls:
                impls[key] = []
                impl_order.append(key)
            impls[key].append(render_method(it.m))
    body = []
    for n in order:
        txt, td = decls[n]
        body.append("    " + txt)
        if td["methods"]:
            lt = "<'a>" if td["lt"] else ""
            body.append("    impl%s %s%s {\n        %s\n    }" % (lt, n, lt, "\n        ".join(td["methods"])))
    for (owner, olt) in impl_order:
        lt = "<'a>" if olt else ""
        body.append("    impl%s %s%s {\n        %s\n    }" % (lt, owner, lt, "\n        ".join(impls[(owner, olt)])))
    body_txt = "\n".join(body)
    if prune and not any(it.fam == "prelude" for it in items):
        need = set()
        todo = [n for n, _ in PRELUDE_DECLS if n in _refs(body_txt)]
        while todo:
            n = todo.pop()
            if n in need:
                continue
            need.add(n)
            todo += PRELUDE_DEPS.get(n, [])
        prelude = "\n".join("    " + d for n, d in PRELUDE_DECLS if n in need)
    else:
        prelude = "\n".join("    " + d for _, d in PRELUDE_DECLS)
    return "#[diplomat::bridge]\nmod ffi {\n%s%s\n}\n" % (prelude + "\n" if prelude else "", body_txt)


def item_contexts(it):
    """names under which the tool's error contexts mention this item: (type names, (owner, method) pairs)"""
    tys = set(td["name"] for td in it.types)
    ms = set()
    if it.m:
        ms.add((it.m["owner"], it.m["name"]))
    return tys, ms


# ---------------------------------------------------------------------------------------------
# shape classes


_PRIM_RE = re.compile(r"\b(u8|i8|u16|i16|u32|i32|u64|i64|usize|isize|f32|f64|bool|char|DiplomatChar|DiplomatByte)\b")


_CONCRETE = [True]    # print primitives other than the canonical u8 by name (a reduced item keeps them only if they matter)


def shape(t, lts=False):
    k = t[0]
    a = "'a " if lts else ""
    if k == "prim":
        return "prim" if (t[1] == "u8" or not _CONCRETE[0]) else t[1]
    if k == "named":
        n = t[1]
        return {"En": "Enum", "St": "Struct", "Nest": "Struct{Struct,Enum,f64}", "SB": "Struct<'a>", "OutSt": "OutStruct", "Zst": "EmptyStruct",
                "Op": "Opaque", "OpL": "Opaque<'a>"}.get(n, n)
    if k == "ref":
        return "&%s%s%s" % (a, "mut " if t[1] else "", shape(t[2], lts))
    if k == "box":
        return "Box<%s>" % shape(t[1], lts)
    if k == "opt":
        return "Option<%s>" % shape(t[1], lts)
    if k == "dopt":
        return "DiplomatOption<%s>" % shape(t[1], lts)
    if k == "res":
        return "Result<%s, %s>" % (shape(t[1], lts), shape(t[2], lts))
    if k == "unit":
        return "()"
    if k == "ordering":
        return "Ordering"
    if k == "write":
        return "DiplomatWrite"
    if k == "slice":
        return "[prim]" if (t[1] == "u8" or not _CONCRETE[0]) else "[%s]" % t[1]
    if k == "str":
        return t[1]
    if k == "cb":
        return "impl %s(%s)%s" % ("FnMut" if t[1] else "Fn", ", ".join(shape(p) for p in t[2]), "" if t[3] == ("unit",) else " -> " + shape(t[3]))
    if k == "ffi":
        if t[2].startswith("fresh:"):
            kind = t[2][6:]
            base = {"opaque": "Opaque", "struct": "Struct", "outstruct": "OutStruct", "enum": "Enum"}.get(kind, kind)
            return base + ("<'a>" if "<'a>" in t[1] else "")
        return _PRIM_RE.sub("prim", t[1].replace("<'a, ", "<").replace("<'a>", ""))
    raise ValueError(t)


def item_class(it):
    """Shape class of an item: what the violation key says about the input."""
    parts = item_parts(it)
    return ",".join(parts) if parts else "empty module"


def item_parts(it):
    parts = []
    m = it.m
    if m:
        flow = m["ret"] is not None and G.has_lt(m["ret"]) and (any(G.has_lt(t) for _, t in m["params"]) or "'a" in (m["selff"] or ""))
        if m["selff"]:
            okind = {"opaque": "Opaque", "struct": "Struct", "outstruct": "OutStruct", "enum": "Enum"}[m["okind"]]
            sf = m["selff"] if flow else m["selff"].replace("'a ", "")
            parts.append("self=%s on %s%s" % (sf, okind, "<'a>" if m["olt"] else ""))
        if not m["selff"] and m["owner"] != "Op":
            parts.append("static method on %s%s" % ({"opaque": "Opaque", "struct": "Struct", "outstruct": "OutStruct", "enum": "Enum"}[m["okind"]], "<'a>" if m["olt"] else ""))
        for ps in sorted("param=%s" % shape(t, flow) for _, t in m["params"]):     # the label does not depend on parameter order
            parts.append(ps)
        if m["ret"] is not None:
            parts.append("ret=%s" % shape(m["ret"], flow))
        if m["attr"]:
            parts.append("attr=%s[%s]" % (m["attr"][2], "auto" if m["attr"][0] == "auto" else ("*" if m["attr"][0] == "*" else "supports")))
    # fresh types contribute their field shapes / attributes (struct families, custom error types, iterator types)
    kinds = {"opaque": "Opaque", "struct": "Struct", "outstruct": "OutStruct", "enum": "Enum"}
    for td in it.types:
        if td["kind"] in ("struct", "outstruct"):
            tag = "outfield" if td["kind"] == "outstruct" else "field"
            parts.append("%s%s{%s}" % (kinds[td["kind"]], "<'a>" if td["lt"] else "", ",".join("%s=%s" % (tag, shape(t)) for _, t in td["fields"])))
        for a in td["attrs"]:
            mm = re.search(r"attr\((.+),\s*(\w+)\)\]$", a)
            if mm:
                g = mm.group(1).strip()
                parts.append("%s attr=%s[%s]" % (kinds[td["kind"]], mm.group(2), g if g in ("auto", "*") else "supports"))
        for mt in td["methods"]:
            mm = re.search(r"attr\(([^,]+),\s*(\w+)", mt)
            sig = re.search(r"pub fn \w+(?:<'a>)?\((.*)\)( -> .*?)? \{", mt)
            if sig:
                ps = re.sub(r"\b\w+: ", "", sig.group(1).replace("&self, ", "").replace("&mut self, ", ""))
                txt = "(%s)%s" % (ps, sig.group(2) or "")
                txt = txt.replace("'a ", "").replace("<'a, ", "<").replace("<'a>", "")
                txt = re.sub(r"\b(Fo|Fp|Fq|Ow|It|Er|L|M|T|Dm|Ds)\d+\b", "Opaque", _PRIM_RE.sub("prim", txt))
                parts.append("helper %s%s" % (mm.group(2) if mm else "method", txt))
            elif mm:
                parts.append("helper type with attr=%s" % mm.group(2))
    return parts


# ---------------------------------------------------------------------------------------------
# structural reductions (each yields a strictly simpler clone)


def _map_term(t, f):
    """bottom-up rewrite"""
    k = t[0]
    if k == "ref":
        t = ("ref", t[1], _map_term(t[2], f))
    elif k in ("box", "opt", "dopt"):
        t = (k, _map_term(t[1], f))
    elif k == "res":
        t = ("res", _map_term(t[1], f), _map_term(t[2], f))
    elif k == "cb":
        t = ("cb", t[1], tuple(_map_term(p, f) for p in t[2]), _map_term(t[3], f))
    return f(t)


def _simplifiers():
    def str_to_slice(t):
        return ("slice", "u8") if t[0] == "str" else t

    def unmut(t):
        return ("ref", False, t[2]) if (t[0] == "ref" and t[1] and t[2][0] != "write") else t

    def prim_u8(t):
        if t[0] == "prim" and t[1] != "u8":
            return P("u8")
        if t[0] == "slice" and t[1] != "u8":
            return ("slice", "u8")
        return t

    def fnmut(t):
        return ("cb", False, t[2], t[3]) if (t[0] == "cb" and t[1]) else t

    def ffi_slice(t):
        if t[0] == "ffi" and t[2] in ("bslice", "bslice_mut", "oslice"):
            return ("ref", False, ("slice", "u8"))
        return t

    def box_slice(t):
        return ("ref", False, t[1]) if (t[0] == "box" and t[1][0] in ("slice", "str")) else t

    def dopt(t):
        return ("opt", t[1]) if t[0] == "dopt" else t

    def unfresh(t):
        if t[0] == "ffi" and t[2].startswith("fresh:"):
            kind, lt = t[2][6:], "<'a>" in t[1]
            to = {("struct", False): "St", ("struct", True): "SB", ("outstruct", False): "OutSt", ("opaque", False): "Op", ("opaque", True): "OpL",
                  ("enum", False): "En"}.get((kind, lt))
            if to:
                return N(to)
        return t
    def unnest(t):
        return N("St") if t in (N("Nest"), N("Zst"), N("SB"), N("OutSt")) else t
    return [str_to_slice, unmut, prim_u8, fnmut, ffi_slice, box_slice, dopt, unfresh, unnest]


def coarse_parts(it):
    return item_parts(_coarse(it))


def coarse_class(it):
    return item_class(_coarse(it))


def _coarse(it):
    """grouping class: item_class of the item with every canonicalising rewrite applied (prims, slice spellings, mutability,
    DiplomatOption/Option, fresh types of a prelude kind); only used to pick representatives and to schedule runs"""
    c = it.clone()
    for f in _simplifiers():
        if c.m:
            c.m["params"] = [(n, _map_term(t, f)) for n, t in c.m["params"]]
            if c.m["ret"] is not None:
                c.m["ret"] = _map_term(c.m["ret"], f)
        for td in c.types:
            td["fields"] = [(n, _map_term(t, f)) for n, t in td["fields"]]
    return c


def subterm_replacements(t, root_unit=False):
    """terms obtained from t by replacing one subterm by `u8` (or `()` in Result arms / callback returns) or by dropping one
    callback parameter; simplest first"""
    k = t[0]
    if root_unit and t != ("unit",):
        yield ("unit",)
    if t not in (P("u8"), ("unit",)) and k != "write":
        yield P("u8")
    if k == "ref":
        for x in subterm_replacements(t[2]):
            if x[0] in ("slice", "str", "named", "ffi", "write", "prim", "res"):
                yield ("ref", t[1], x)
    elif k in ("box", "opt", "dopt"):
        if k != "box":
            yield t[1]                      # the Option wrapper itself may be irrelevant
        for x in subterm_replacements(t[1]):
            yield (k, x)
    elif k == "res":
        for x in subterm_replacements(t[1], True):
            yield ("res", x, t[2])
        for x in subterm_replacements(t[2], True):
            yield ("res", t[1], x)
    elif k == "cb":
        for i in range(len(t[2])):
            yield ("cb", t[1], t[2][:i] + t[2][i + 1:], t[3])
        for x in subterm_replacements(t[3], True):
            yield ("cb", t[1], t[2], x)
        for i, p in enumerate(t[2]):
            for x in subterm_replacements(p):
                yield ("cb", t[1], t[2][:i] + (x,) + t[2][i + 1:], t[3])


ATTR_CANON = {"sub": "add", "mul": "add", "div": "add", "sub_assign": "add_assign", "mul_assign": "add_assign", "div_assign": "add_assign"}


def _used_names(it):
    txt = ""
    if it.m:
        txt += render_method(it.m) + " " + it.m["owner"]
    return txt


def canon_names(it):
    """rename the focus method to `f` and the fresh types to T1, T2, ..: equal programs get equal text"""
    c = it.clone()
    ren = {}
    for i, td in enumerate(c.types):
        ren[td["name"]] = "T%d" % (i + 1)
    if not ren and not c.m:
        return c

    def fix(t):
        if t[0] == "ffi" and t[2].startswith("fresh:"):
            base = t[1].split("<")[0]
            if base in ren:
                return ("ffi", ren[base] + t[1][len(base):], t[2])
        return t
    for td in c.types:
        td["fields"] = [(n, _map_term(t, fix)) for n, t in td["fields"]]
        td["methods"] = [re.sub(r"\b(%s)\b" % "|".join(map(re.escape, ren)), lambda mm: ren[mm.group(1)], mt) for mt in td["methods"]] if ren else td["methods"]
        td["name"] = ren[td["name"]]
    if c.m:
        c.m["name"] = "f"
        c.m["params"] = [(n, _map_term(t, fix)) for n, t in c.m["params"]]
        if c.m["ret"] is not None:
            c.m["ret"] = _map_term(c.m["ret"], fix)
        if c.m["owner"] in ren:
            c.m["owner"] = ren[c.m["owner"]]
    return c


def reductions(it):
    m = it.m
    if m:
        # big jumps first: a single parameter / the return value / the declared types on their own
        if m["selff"] or m["ret"] is not None or m["attr"] or len(m["params"]) > 1 or m["owner"] != "Op":
            for i in range(len(m["params"])):
                c = it.clone()
                c.m.update({"owner": "Op", "okind": "opaque", "olt": False, "selff": None, "ret": None, "attr": None, "params": [m["params"][i]]})
                yield c
            if m["ret"] is not None and (m["params"] or m["attr"] or m["owner"] != "Op"):
                c = it.clone()
                c.m.update({"owner": "Op", "okind": "opaque", "olt": False, "selff": "&'a self" if G.has_lt(m["ret"]) else None, "attr": None, "params": []})
                yield c
        if it.types:
            c = it.clone(); c.m = None
            yield c
        if m["attr"]:
            c = it.clone(); c.m["attr"] = None
            yield c
            gate, text, tag = m["attr"]
            base = text.split("=")[0].strip()
            if "=" in text:
                c = it.clone(); c.m["attr"] = (gate, base, base)
                yield c
            if base in ATTR_CANON:
                c = it.clone(); c.m["attr"] = (gate, ATTR_CANON[base], ATTR_CANON[base])
                yield c
            if gate == "auto" and base in FEATURE_OF:
                # `supports = <feature>` is the stricter reading of "within the backend's declared support"
                c = it.clone(); c.m["attr"] = ("supports = %s" % FEATURE_OF[base], text, tag)
                yield c
        if m["ret"] is not None:
            c = it.clone(); c.m["ret"] = None
            yield c
            if G.has_lt(m["ret"]) and m["ret"] != ("ref", False, N("Op")):
                c = it.clone(); c.m["ret"] = ("ref", False, N("Op"))
                yield c
            if m["ret"][0] == "res":
                c = it.clone(); c.m["ret"] = m["ret"][1] if m["ret"][1] != ("unit",) else None
                yield c
        if m["selff"]:
            c = it.clone(); c.m["selff"] = None
            yield c
            canon = {"opaque": "Op", "struct": "St", "enum": "En"}.get(m["okind"])
            if canon and m["owner"] != canon:
                c = it.clone(); c.m["owner"] = canon; c.m["olt"] = False
                yield c
            if m["selff"] == "&mut self":
                c = it.clone(); c.m["selff"] = "&self"
                yield c
            if m["okind"] != "opaque":
                c = it.clone(); c.m.update({"owner": "Op", "okind": "opaque", "olt": False, "selff": "&self"})
                yield c
            if "'a" in m["selff"]:
                c = it.clone(); c.m["selff"] = m["selff"].replace("'a ", "")
                yield c
        if not m["selff"] and m["owner"] != "Op":
            c = it.clone(); c.m["owner"], c.m["okind"], c.m["olt"] = "Op", "opaque", False
            yield c
        for i in range(len(m["params"])):
            c = it.clone(); del c.m["params"][i]
            yield c
        for f in _simplifiers():
            for i, (n, t) in enumerate(m["params"]):
                t2 = _map_term(t, f)
                if t2 != t:
                    c = it.clone(); c.m["params"][i] = (n, t2)
                    yield c
            if m["ret"] is not None:
                t2 = _map_term(m["ret"], f)
                if t2 != m["ret"]:
                    c = it.clone(); c.m["ret"] = t2
                    yield c
        for i, (n, t) in enumerate(m["params"]):
            for t2 in subterm_replacements(t):
                c = it.clone(); c.m["params"][i] = (n, t2)
                yield c
        if m["ret"] is not None:
            for t2 in subterm_replacements(m["ret"]):
                c = it.clone(); c.m["ret"] = t2
                yield c
    # fresh types: drop unreferenced ones, then their decorations
    for i, td in enumerate(it.types):
        others = " ".join(render_type_decl(o) + " ".join(o["methods"]) for j, o in enumerate(it.types) if j != i)
        if not re.search(r"\b%s\b" % td["name"], _used_names(it) + " " + others) and (m is not None or len(it.types) > 1):
            c = it.clone(); del c.types[i]
            yield c
    for i, td in enumerate(it.types):
        for j in range(len(td["attrs"])):
            c = it.clone(); del c.types[i]["attrs"][j]
            yield c
        for j in range(len(td["methods"])):
            c = it.clone(); del c.types[i]["methods"][j]
            yield c
        if td["kind"] in ("struct", "outstruct") and len(td["fields"]) > 1:
            for j in range(len(td["fields"])):
                c = it.clone(); del c.types[i]["fields"][j]
                yield c
        if td["kind"] in ("struct", "outstruct"):
            for f in _simplifiers():
                for j, (n, t) in enumerate(td["fields"]):
                    t2 = _map_term(t, f)
                    if t2 != t:
                        c = it.clone(); c.types[i]["fields"][j] = (n, t2)
                        yield c
            for j, (n, t) in enumerate(td["fields"]):
                for t2 in subterm_replacements(t):
                    c = it.clone(); c.types[i]["fields"][j] = (n, t2)
                    yield c
    # lifetime parameter of a fresh type that no field needs any more
    for i, td in enumerate(it.types):
        if td["lt"] and td["kind"] in ("struct", "outstruct") and not any(G.has_lt(t) for _, t in td["fields"]):
            c = it.clone()
            c.types[i]["lt"] = False
            old, new = td["name"] + "<'a>", td["name"]

            def fix(t, old=old, new=new):
                return ("ffi", new, t[2]) if (t[0] == "ffi" and t[1] == old) else t
            if c.m:
                c.m["params"] = [(n, _map_term(t, fix)) for n, t in c.m["params"]]
                if c.m["ret"] is not None:
                    c.m["ret"] = _map_term(c.m["ret"], fix)
                if c.m["owner"] == td["name"]:
                    c.m["olt"] = False
            for o in c.types:
                o["fields"] = [(n, _map_term(t, fix)) for n, t in o["fields"]]
            yield c


# ---------------------------------------------------------------------------------------------
# enumeration of the families


class Builder(object):
    def __init__(self):
        self.items = []
        self.nstruct = 0

    def nid(self):
        return len(self.items)

    def add(self, fam, types=None, m=None, pos=None):
        it = Item(len(self.items), fam, types, m, pos)
        self.items.append(it)
        return it

    def mname(self):
        return "m%d" % len(self.items)

    def sname(self, prefix="Fo"):
        self.nstruct += 1
        return "%s%d" % (prefix, self.nstruct)


OP_REF = ("ref", False, N("Op"))


def fam_a(b, depth):
    """every single-focus shape x position"""
    for t in G.universe(depth):
        if is128(t):
            continue
        for pos in G.POSITIONS:
            if not G.applicable(pos, t):
                continue
            if pos == "param":
                b.add("a", m=method(b.mname(), params=[("x", t)]), pos=pos)
            elif pos == "param_first":
                b.add("a", m=method(b.mname(), params=[("x", t), ("y", P("u8"))]), pos=pos)
            elif pos == "param_last":
                b.add("a", m=method(b.mname(), params=[("y", P("u8")), ("x", t)]), pos=pos)
            elif pos == "ret":
                b.add("a", m=method(b.mname(), selff="&'a self" if G.has_lt(t) else None, ret=t), pos=pos)
            elif pos in ("field", "outfield"):
                kind = "struct" if pos == "field" else "outstruct"
                lt = G.has_lt(t)
                name = b.sname()
                td = tdecl(name, kind, lt, [("n", P("u8")), ("x", t)])
                ft = fresh(name, kind, lt)
                b.add("a", types=[td], pos=pos + ":alone")
                b.add("a", types=[td], m=method(b.mname(), params=[("x", ft)]), pos=pos + ":as param")
                b.add("a", types=[td], m=method(b.mname(), selff="&'a self" if lt else None, ret=ft), pos=pos + ":as return")
                b.add("a", types=[td], m=method(b.mname(), owner=name, okind=kind, olt=lt, selff="self"), pos=pos + ":as self")
            elif pos == "cbparam":
                b.add("a", m=method(b.mname(), params=[("cb", ("cb", False, (t,), ("unit",)))]), pos=pos)
            elif pos == "cbret":
                b.add("a", m=method(b.mname(), params=[("cb", ("cb", False, (), t))]), pos=pos)


PAIR_PARAMS = [
    OP_REF, ("ref", True, N("Op")), ("opt", OP_REF), ("ref", False, N("OpL")), N("SB"), ("opt", N("SB")), ("dopt", N("SB")),
    ("ref", False, ("slice", "u8")), ("ref", True, ("slice", "f64")), ("opt", ("ref", False, ("slice", "u8"))), ("dopt", ("ref", False, ("slice", "u8"))),
    ("ref", False, ("str", "str")), ("opt", ("ref", False, ("str", "str"))), ("ref", False, ("str", "DiplomatStr16")),
    ("opt", ("ref", False, ("str", "DiplomatStr16"))), ("ffi", "DiplomatSlice<'a, u8>", "bslice"), ("ffi", "DiplomatStrSlice<'a>", "bslice"),
    ("opt", ("ffi", "DiplomatSlice<'a, u8>", "bslice")),
]
PAIR_RETS = [
    OP_REF, ("opt", OP_REF), ("box", N("OpL")), ("opt", ("box", N("OpL"))), N("SB"), ("opt", N("SB")), ("ref", False, ("slice", "u8")),
    ("ref", False, ("str", "str")), ("ref", False, ("str", "DiplomatStr16")), ("opt", ("ref", False, ("slice", "u8"))),
    ("res", OP_REF, ("unit",)), ("res", N("SB"), N("En")), ("res", ("unit",), OP_REF), ("res", ("box", N("OpL")), ("unit",)),
]


def fam_b(b):
    """(param shape, return shape) pairs with a lifetime flowing from the parameter into the return value"""
    sl = tdecl("FoSl", "struct", True, [("s", ("ffi", "DiplomatStrSlice<'a>", "bslice")), ("o", OP_REF)])
    osl = tdecl("FoOut", "outstruct", True, [("o", OP_REF), ("s", ("ffi", "DiplomatSlice<'a, u8>", "bslice")), ("b", ("box", N("OpL")))])
    params = [(p, []) for p in PAIR_PARAMS] + [(fresh("FoSl", "struct", True), [sl]), (("opt", fresh("FoSl", "struct", True)), [sl])]
    rets = [(r, []) for r in PAIR_RETS] + [(fresh("FoSl", "struct", True), [sl]), (fresh("FoOut", "outstruct", True), [osl])]
    for selff in (None, "&self", "&'a self"):
        for p, pt in params:
            for r, rt in rets:
                tys = []
                for td in pt + rt:
                    if td not in tys:
                        tys.append(td)
                b.add("b", types=tys, m=method(b.mname(), selff=selff, params=[("x", p)], ret=r), pos="pair")


SELF_FORMS = [
    ("Op", "opaque", False, "&self"), ("Op", "opaque", False, "&mut self"), ("OpL", "opaque", True, "&self"), ("St", "struct", False, "self"),
    ("En", "enum", False, "self"), ("SB", "struct", True, "self"), ("Nest", "struct", False, "self"),
    ("Op", "opaque", False, "self"), ("St", "struct", False, "&self"), ("OutSt", "outstruct", False, "self"), ("Zst", "struct", False, "self"),
]
EXTRA_CALLBACKS = [
    ("cb", False, (P("u8"), N("St"), N("En")), N("En")),
    ("cb", True, (("opt", N("St")),), ("opt", P("u8"))),
    ("cb", False, (("ref", False, ("slice", "u8")),), ("unit",)),
    ("cb", False, (("ref", False, ("str", "str")),), P("u8")),
    ("cb", False, (("opt", ("ref", False, N("Op"))),), ("unit",)),
    ("cb", False, (), ("res", N("St"), N("En"))),
    ("cb", False, (), ("box", N("Op"))),
    ("cb", False, (), N("Nest")),
]
SELF_PARAMS = [
    None, P("u8"), N("En"), N("St"), OP_REF, ("opt", OP_REF), ("ref", False, ("slice", "u8")), ("ref", True, ("slice", "f64")),
    ("ref", False, ("str", "str")), ("ref", False, ("str", "DiplomatStr16")), ("opt", P("u8")), ("opt", N("St")), ("ref", True, ("write",)),
    ("box", ("slice", "u8")), N("SB"),
] + G.CALLBACKS + EXTRA_CALLBACKS
SELF_RETS_QUICK = [None, P("u8"), ("box", N("Op")), ("res", P("u8"), N("En"))]
SELF_RETS = SELF_RETS_QUICK + [N("St"), N("En"), ("opt", ("box", N("Op"))), ("res", ("box", N("Op")), ("unit",)), ("opt", P("u8")), ("res", ("unit",), ("box", N("Op")))]


def fam_c(b, thorough):
    """self forms x parameter shapes (incl. every callback) x return shapes; plus multi-callback methods"""
    rets = SELF_RETS if thorough else SELF_RETS_QUICK
    for owner, okind, olt, selff in SELF_FORMS:
        for p in SELF_PARAMS:
            for r in rets:
                b.add("c", m=method(b.mname(), owner=owner, okind=okind, olt=olt, selff=selff, params=[("x", p)] if p is not None else [], ret=r), pos="self")
    # parameter i of n: every ordered pair over the non-callback parameter alphabet (+ one callback), plus a third trailing parameter
    two = [p for p in SELF_PARAMS if p is not None and p[0] != "cb" and p != ("ref", True, ("write",))] + [("dopt", N("St")), ("opt", ("ref", False, ("str", "str"))), G.CALLBACKS[2]]
    if not thorough:
        two = [("ref", False, ("slice", "u8")), ("opt", ("ref", False, ("slice", "u8"))), ("ref", False, ("str", "str")), ("opt", OP_REF), N("St"), ("opt", N("St")), N("SB")]
    for p1 in two:
        for p2 in two:
            b.add("c", m=method(b.mname(), selff="&self", params=[("x", p1), ("y", p2)], ret=P("u8")), pos="two params")
        b.add("c", m=method(b.mname(), selff="&self", params=[("x", p1), ("y", P("f64")), ("z", p1), ("w", ("ref", True, ("write",)))]), pos="three params and write")
    cbs = [G.CALLBACKS[1], G.CALLBACKS[2], G.CALLBACKS[4], G.CALLBACKS[7]]
    for selff in (None, "&self"):
        for c1 in cbs:
            for c2 in cbs:
                b.add("c", m=method(b.mname(), selff=selff, params=[("f", c1), ("g", c2)]), pos="two callbacks")
            b.add("c", m=method(b.mname(), selff=selff, params=[("a", P("u8")), ("f", c1), ("z", ("ref", False, ("str", "str")))], ret=P("u8")), pos="callback in the middle")


FEATURE_OF = {"constructor": "constructors", "named_constructor": "named_constructors", "getter": "accessors", "setter": "accessors",
              "stringifier": "stringifiers", "comparison": "comparators", "iterator": "iterators", "iterable": "iterables", "indexer": "indexing"}
for _o in ("add", "sub", "mul", "div", "add_assign", "sub_assign", "mul_assign", "div_assign"):
    FEATURE_OF[_o] = "arithmetic"


def _gates(attr, extra_feats=()):
    feats = [FEATURE_OF[attr]] + list(extra_feats)
    sup = "supports = %s" % feats[0] if len(feats) == 1 else "all(%s)" % ", ".join("supports = %s" % f for f in feats)
    if extra_feats:
        return [sup]           # `auto` cannot express the conjunction
    return ["auto", sup]


def fam_d(b, thorough):
    """special-method attributes on suitable signatures; every item owns a fresh type so that items stay independent"""
    def owner(kind, lt=False):
        name = b.sname("Ow")
        if kind == "opaque":
            td = tdecl(name, "opaque", lt)
        elif kind == "struct":
            td = tdecl(name, "struct", lt, [("a", P("u8")), ("b", P("f64"))])
        else:
            td = tdecl(name, "enum")
        return name, td, fresh(name, kind, lt)

    def selfret(kind, ft):
        return ("box", ft) if kind == "opaque" else ft

    def emit(kind, attr_name, attr_text, tag, selff, params, retf, extra_feats=(), lt=False, extra_types=()):
        for gate in _gates(attr_name, extra_feats):
            name, td, ft = owner(kind, lt)
            ret = retf(kind, ft) if callable(retf) else retf
            ps = [(n, (t(kind, ft) if callable(t) else t)) for n, t in params]
            b.add("d", types=[td] + [x for x in extra_types], m=method(b.mname(), owner=name, okind=kind, olt=lt, selff=selff, params=ps, ret=ret,
                                                                       attr=(gate, attr_text, tag)), pos=attr_name)

    cparams = [[], [("x", P("u8"))], [("s", ("ref", False, ("str", "str")))], [("s", N("St")), ("e", N("En"))], [("o", ("opt", OP_REF))],
               [("v", ("ref", False, ("slice", "f64")))], [("o", ("opt", P("u8")))]]
    for kind in ("opaque", "struct", "enum"):
        for ps in cparams:
            for an, at, tag in (("constructor", "constructor", "constructor"), ("named_constructor", "named_constructor", "named_constructor"),
                                ("named_constructor", 'named_constructor = "foo"', "named_constructor(name)")):
                emit(kind, an, at, tag, None, ps, selfret)
                for err in (("unit",), N("En"), ("box", N("Op"))):
                    emit(kind, an, at, tag, None, ps, (lambda k, ft, err=err: ("res", selfret(k, ft), err)), extra_feats=("fallible_constructors",))
        # a constructor returning Option<Self> / something else must be refused by the gate, not by a panic
        emit(kind, "constructor", "constructor", "constructor", None, [], (lambda k, ft: ("opt", selfret(k, ft))))
        emit(kind, "constructor", "constructor", "constructor", None, [], P("u8"))
    getter_rets = [P("u8"), N("St"), N("En"), ("opt", P("u8")), ("box", N("Op")), ("opt", ("box", N("Op"))), ("res", P("u8"), ("unit",)),
                   ("res", ("box", N("Op")), N("En")), N("OutSt"), P("bool"), P("f64")]
    getter_rets_lt = [OP_REF, ("opt", OP_REF), ("ref", False, ("str", "str")), ("ref", False, ("slice", "u8")), N("SB"), ("ref", False, ("str", "DiplomatStr16"))]
    for kind, sf in (("opaque", "&self"), ("opaque", "&mut self"), ("struct", "self"), ("enum", "self")):
        for at, tag in (("getter", "getter"), ('getter = "foo"', "getter(name)")):
            for r in getter_rets:
                emit(kind, "getter", at, tag, sf, [], r)
            emit(kind, "getter", at, tag, sf, [("w", ("ref", True, ("write",)))], None)
            emit(kind, "getter", at, tag, sf, [("w", ("ref", True, ("write",)))], ("res", ("unit",), N("En")))
            emit(kind, "getter", at, tag, None, [], P("u8"), extra_feats=("static_accessors",))
            emit(kind, "getter", at, tag, None, [], ("box", N("Op")), extra_feats=("static_accessors",))
    for at, tag in (("getter", "getter"), ('getter = "foo"', "getter(name)")):
        for r in getter_rets_lt:
            emit("opaque", "getter", at, tag, "&'a self", [], r)
            emit("opaque", "getter", at, tag, "&'a self", [], r, lt=True)
    setter_params = [P("u8"), N("St"), N("En"), OP_REF, ("ref", False, ("str", "str")), ("opt", P("u8")), ("opt", OP_REF), ("ref", False, ("slice", "u8")),
                     ("opt", ("ref", False, ("str", "str"))), ("opt", N("St")), P("bool"), ("ref", False, ("str", "DiplomatStr16")), N("SB")]
    for kind, sf in (("opaque", "&mut self"), ("opaque", "&self"), ("struct", "self"), ("enum", "self")):
        for at, tag in (("setter", "setter"), ('setter = "foo"', "setter(name)")):
            for p in setter_params:
                emit(kind, "setter", at, tag, sf, [("x", p)], None)
            emit(kind, "setter", at, tag, sf, [("x", P("u8"))], ("res", ("unit",), N("En")))
            emit(kind, "setter", at, tag, sf, [("x", P("u8"))], ("res", ("unit",), ("unit",)))
            emit(kind, "setter", at, tag, None, [("x", P("u8"))], None, extra_feats=("static_accessors",))
    # a getter and a setter of the SAME property on one type (backends fold the pair into one property), instance and static
    for kind, gsf, ssf in (("opaque", "&self", "&mut self"), ("struct", "self", "self"), ("enum", "self", "self"), ("opaque", None, None), ("struct", None, None), ("enum", None, None)):
        for pty in (P("u8"), N("En"), ("ref", False, ("str", "str"))):
            if pty[0] == "ref" and gsf is not None and kind != "opaque":
                continue
            feats = () if gsf is not None else ("static_accessors",)
            for gate in _gates("setter", feats):
                name, td, ft = owner(kind)
                gret = P("u8") if pty[0] == "ref" else pty
                td["methods"].append('#[diplomat::attr(%s, getter = "foo")] pub fn get_foo(%s) -> %s { unimplemented!() }' % (gate, gsf or "", G.render(gret)))
                b.add("d", types=[td], m=method(b.mname(), owner=name, okind=kind, selff=ssf, params=[("x", pty)], ret=None,
                                                attr=(gate, 'setter = "foo"', "setter(name)+getter")), pos="setter")
                # the same pair declared the other way round (setter first)
                name2, td2, ft2 = owner(kind)
                sargs = ", ".join(x for x in (ssf, "x: %s" % G.render(pty)) if x)
                td2["methods"].append('#[diplomat::attr(%s, setter = "foo")] pub fn set_foo%s(%s) { unimplemented!() }' % (gate, "<'a>" if G.has_lt(pty) else "", sargs))
                b.add("d", types=[td2], m=method(b.mname(), owner=name2, okind=kind, selff=gsf, params=[], ret=gret,
                                                 attr=(gate, 'getter = "foo"', "getter(name)+setter before")), pos="getter")
    for kind, sf in (("opaque", "&self"), ("opaque", "&mut self"), ("struct", "self"), ("enum", "self")):
        emit(kind, "stringifier", "stringifier", "stringifier", sf, [("w", ("ref", True, ("write",)))], None)
        emit(kind, "stringifier", "stringifier", "stringifier", sf, [("w", ("ref", True, ("write",)))], ("res", ("unit",), N("En")))
        emit(kind, "stringifier", "stringifier", "stringifier", sf, [("w", ("ref", True, ("write",)))], ("res", ("unit",), ("unit",)))
    for r in (("ordering",), P("i8"), P("bool"), None, ("opt", ("ordering",)), ("res", ("ordering",), ("unit",))):
        emit("opaque", "comparison", "comparison", "comparison", "&self", [("o", lambda k, ft: ("ref", False, ft))], r)
        emit("struct", "comparison", "comparison", "comparison", "self", [("o", lambda k, ft: ft)], r)
        emit("enum", "comparison", "comparison", "comparison", "self", [("o", lambda k, ft: ft)], r)
    # iterators: the iterating type is the fresh owner
    it_items = [P("u8"), N("St"), N("En"), ("box", N("Op")), P("f64"), P("bool"), N("OutSt"), ("box", ("slice", "u8")), ("res", P("u8"), ("unit",))]
    for r in it_items:
        emit("opaque", "iterator", "iterator", "iterator", "&mut self", [], ("opt", r))
        emit("opaque", "iterator", "iterator", "iterator", "&self", [], ("opt", r))
    for r in (OP_REF, N("SB"), ("ref", False, ("str", "str")), ("ref", False, ("slice", "u8")), ("box", N("OpL"))):
        emit("opaque", "iterator", "iterator", "iterator", "&'a mut self", [], ("opt", r))
        emit("opaque", "iterator", "iterator", "iterator", "&'a mut self", [], ("opt", r), lt=True)
    emit("opaque", "iterator", "iterator", "iterator", "&mut self", [], P("u8"))           # not nullable: gate must refuse
    emit("opaque", "iterator", "iterator", "iterator", "&mut self", [], ("opt", ("unit",)))
    # iterables: return (a) a proper iterator type, (b) an opaque that is no iterator
    for lt in (False, True):
        for item in (P("u8"), ("box", N("Op")), N("St")):
            for wrap in ("box", "optbox", "resbox"):
                for gate_it in ("auto",):
                    iname = b.sname("It")
                    itd = tdecl(iname, "opaque", lt, methods=["#[diplomat::attr(%s, iterator)]\n        pub fn next(&%smut self) -> Option<%s> { unimplemented!() }" % (
                        gate_it, "'a " if lt else "", G.render(item))])
                    ift = fresh(iname, "opaque", lt)
                    r = {"box": ("box", ift), "optbox": ("opt", ("box", ift)), "resbox": ("res", ("box", ift), ("unit",))}[wrap]
                    emit("opaque", "iterable", "iterable", "iterable", "&'a self" if lt else "&self", [], r, extra_types=[itd])
    emit("opaque", "iterable", "iterable", "iterable", "&self", [], ("box", N("Op")))       # iterable over a non-iterator
    emit("opaque", "iterable", "iterable", "iterable", "&'a self", [], ("box", N("OpL")))
    emit("struct", "iterable", "iterable", "iterable", "self", [], ("box", N("Op")))
    emit("opaque", "iterable", "iterable", "iterable", "&self", [], P("u8"))
    idx_params = [P("usize"), P("u8"), P("i32"), P("u64"), ("ref", False, ("str", "str")), N("St"), N("En"), P("bool"), P("f64")]
    idx_rets = [("opt", P("u8")), P("u8"), ("res", P("u8"), ("unit",)), ("opt", ("box", N("Op"))), N("St"), ("opt", N("St")), ("res", N("St"), N("En"))]
    for p in idx_params:
        for r in idx_rets:
            emit("opaque", "indexer", "indexer", "indexer", "&self", [("i", p)], r)
    for r in idx_rets:
        emit("struct", "indexer", "indexer", "indexer", "self", [("i", P("usize"))], r)
        emit("opaque", "indexer", "indexer", "indexer", "&mut self", [("i", P("usize"))], r)
    for r in (("opt", OP_REF), OP_REF, ("ref", False, ("str", "str")), ("opt", ("ref", False, ("slice", "u8")))):
        emit("opaque", "indexer", "indexer", "indexer", "&'a self", [("i", P("usize"))], r)
    for op in ("add", "sub", "mul", "div"):
        emit("opaque", op, op, op, "&self", [("o", lambda k, ft: ("ref", False, ft))], lambda k, ft: ("box", ft))
        emit("opaque", op, op, op, "&self", [("o", lambda k, ft: ("ref", False, ft))], lambda k, ft: ("opt", ("box", ft)))
        emit("opaque", op, op, op, "&self", [("o", lambda k, ft: ("ref", False, ft))], lambda k, ft: ("res", ("box", ft), ("unit",)))
        emit("opaque", op, op, op, "&self", [("o", P("i32"))], lambda k, ft: ("box", ft))
        emit("opaque", op, op, op, "&self", [("o", P("f64"))], P("f64"))
        emit("opaque", op, op, op, "&self", [("o", N("St"))], N("St"))
        emit("opaque", op, op, op, "&self", [("o", ("ref", False, ("str", "str")))], lambda k, ft: ("box", ft))
        emit("opaque", op, op, op, "&self", [("o", ("opt", P("u8")))], P("u8"))
        emit("struct", op, op, op, "self", [("o", lambda k, ft: ft)], lambda k, ft: ft)
        emit("struct", op, op, op, "self", [("o", P("f64"))], lambda k, ft: ft)
        emit("struct", op, op, op, "self", [("o", lambda k, ft: ft)], lambda k, ft: ("res", ft, N("En")))
        emit("enum", op, op, op, "self", [("o", lambda k, ft: ft)], lambda k, ft: ft)
        oa = op + "_assign"
        emit("opaque", oa, oa, oa, "&mut self", [("o", lambda k, ft: ("ref", False, ft))], None)
        emit("opaque", oa, oa, oa, "&mut self", [("o", P("i32"))], None)
        emit("opaque", oa, oa, oa, "&mut self", [("o", N("St"))], None)
        emit("opaque", oa, oa, oa, "&mut self", [("o", ("ref", False, ("str", "str")))], None)
        emit("opaque", oa, oa, oa, "&mut self", [("o", P("i32"))], ("res", ("unit",), N("En")))
    # wrong number of operands (none / two): the gate has to refuse them; a backend that indexes the operand list must never see them
    for op in ("add", "sub", "mul", "div", "add_assign", "sub_assign", "comparison", "indexer"):
        for kind, sf in (("opaque", "&self"), ("struct", "self"), ("enum", "self")):
            if op.endswith("_assign"):
                if kind != "opaque":
                    continue
                sf2, ret = "&mut self", None
            elif op == "comparison":
                sf2, ret = sf, P("i8")
            elif op == "indexer":
                sf2, ret = sf, ("opt", P("u8"))
            else:
                sf2, ret = sf, (lambda k, ft: ("box", ft) if k == "opaque" else ft)
            emit(kind, op, op, op, sf2, [], ret)
            emit(kind, op, op, op, sf2, [("o", P("i32")), ("p", P("i32"))], ret)


FIELD_ALPHA_QUICK = [P("u8"), P("f64"), N("En"), N("St"), OP_REF, ("dopt", P("u8")), ("ffi", "DiplomatStrSlice<'a>", "bslice"), ("opt", OP_REF)]
FIELD_ALPHA = FIELD_ALPHA_QUICK + [P("bool"), P("i64"), P("DiplomatChar"), N("Nest"), N("SB"), ("dopt", N("St")), ("dopt", N("En")), ("ffi", "DiplomatSlice<'a, u8>", "bslice"),
                                   ("ffi", "DiplomatStr16Slice<'a>", "bslice"), ("ffi", "DiplomatUtf8StrSlice<'a>", "bslice"),
                                   ("ffi", "DiplomatSliceMut<'a, u16>", "bslice_mut"), ("dopt", ("ffi", "DiplomatStrSlice<'a>", "bslice")),
                                   ("ffi", "DiplomatSlice<'a, DiplomatStrSlice<'a>>", "bslice")]
OUT_ALPHA = [("box", N("Op")), ("opt", ("box", N("Op"))), P("u8"), N("St"), OP_REF, ("box", N("OpL")), N("OutSt"), ("dopt", P("u8")), ("opt", OP_REF),
             ("ffi", "DiplomatOwnedSlice<u8>", "oslice"), ("ffi", "DiplomatStrSlice<'a>", "bslice")]


def _struct_uses(b, td, fam, pos, wraps=False):
    kind, lt, name = td["kind"], td["lt"], td["name"]
    ft = fresh(name, kind, lt)
    b.add(fam, types=[td], pos=pos + ":alone")
    b.add(fam, types=[td], m=method(b.mname(), params=[("x", ft)]), pos=pos + ":as param")
    b.add(fam, types=[td], m=method(b.mname(), selff="&'a self" if lt else None, ret=ft), pos=pos + ":as return")
    if wraps:
        b.add(fam, types=[td], m=method(b.mname(), selff="&'a self" if lt else None, ret=("opt", ft)), pos=pos + ":as Option return")
        b.add(fam, types=[td], m=method(b.mname(), selff="&'a self" if lt else None, ret=("res", ft, ("unit",))), pos=pos + ":as Result ok")
        b.add(fam, types=[td], m=method(b.mname(), selff="&'a self" if lt else None, ret=("res", ("unit",), ft)), pos=pos + ":as Result err")
        b.add(fam, types=[td], m=method(b.mname(), params=[("x", ("opt", ft))]), pos=pos + ":as Option param")
        b.add(fam, types=[td], m=method(b.mname(), params=[("cb", ("cb", False, (ft,), ("unit",)))]), pos=pos + ":as callback param")
        b.add(fam, types=[td], m=method(b.mname(), params=[("cb", ("cb", False, (), ft))]), pos=pos + ":as callback return")
        if lt:
            b.add(fam, types=[td], m=method(b.mname(), params=[("x", ft)], ret=OP_REF), pos=pos + ":param borrowed by return")
            b.add(fam, types=[td], m=method(b.mname(), params=[("x", ft)], ret=ft), pos=pos + ":param to return")


def fam_e(b, thorough):
    """struct shapes: field pairs, out-structs, nesting, custom error types"""
    alpha = FIELD_ALPHA if thorough else FIELD_ALPHA_QUICK
    for x in alpha:
        for y in alpha:
            lt = G.has_lt(x) or G.has_lt(y)
            td = tdecl(b.sname("Fp"), "struct", lt, [("x", x), ("y", y)])
            _struct_uses(b, td, "e", "field pair", wraps=(x == y))
    # field triples: a narrow field, a composite one (size not a multiple of the next field's alignment), a wide one - the layouts
    # with padding after a composite field
    for x in (P("u8"), P("u32")):
        for y in (("ffi", "DiplomatStrSlice<'a>", "bslice"), N("St"), ("dopt", P("u8")), ("dopt", N("St")), N("En")):
            for z in (P("f64"), P("u16"), P("u64")):
                lt = G.has_lt(y)
                td = tdecl(b.sname("Ft"), "struct", lt, [("x", x), ("y", y), ("z", z)])
                b.add("e", types=[td], pos="field triple:alone")
                b.add("e", types=[td], m=method(b.mname(), params=[("x", fresh(td["name"], "struct", lt))]), pos="field triple:as param")
    # two types whose names differ only in letter case (distinct files on a case-sensitive file system)
    for kind in ("opaque", "struct", "enum"):
        n = b.sname("Case")
        ta = tdecl(n + "ab", kind, False, [("a", P("u8"))] if kind == "struct" else ())
        tb = tdecl(n + "AB", kind, False, [("a", P("u8"))] if kind == "struct" else ())
        b.add("e", types=[ta, tb], pos="names differing in case")
    for x in OUT_ALPHA:
        for y in OUT_ALPHA:
            lt = G.has_lt(x) or G.has_lt(y)
            td = tdecl(b.sname("Fq"), "outstruct", lt, [("x", x), ("y", y)])
            _struct_uses(b, td, "e", "outfield pair", wraps=(x == y))
    # three levels of nesting, innermost field from the alphabet
    for x in FIELD_ALPHA:
        lt = G.has_lt(x)
        n1, n2, n3 = b.sname("L"), b.sname("L"), b.sname("L")
        t1 = tdecl(n1, "struct", lt, [("x", x)])
        t2 = tdecl(n2, "struct", lt, [("a", fresh(n1, "struct", lt)), ("b", P("u8"))])
        t3 = tdecl(n3, "struct", lt, [("c", fresh(n2, "struct", lt)), ("d", ("dopt", fresh(n1, "struct", lt)))])
        ft = fresh(n3, "struct", lt)
        b.add("e", types=[t1, t2, t3], pos="nested:alone")
        b.add("e", types=[t1, t2, t3], m=method(b.mname(), params=[("x", ft)]), pos="nested:as param")
        b.add("e", types=[t1, t2, t3], m=method(b.mname(), selff="&'a self" if lt else None, ret=ft), pos="nested:as return")
    for x in OUT_ALPHA:
        lt = G.has_lt(x)
        n1, n2 = b.sname("M"), b.sname("M")
        t1 = tdecl(n1, "outstruct", lt, [("x", x)])
        t2 = tdecl(n2, "outstruct", lt, [("a", fresh(n1, "outstruct", lt)), ("b", ("box", N("Op")))])
        b.add("e", types=[t1, t2], m=method(b.mname(), selff="&'a self" if lt else None, ret=fresh(n2, "outstruct", lt)), pos="nested out:as return")
        b.add("e", types=[t1, t2], m=method(b.mname(), selff="&'a self" if lt else None, ret=("res", fresh(n2, "outstruct", lt), fresh(n1, "outstruct", lt))),
              pos="nested out:as Result")
    # Result<T, E> with custom error types, with and without the `error` attribute
    oks = [("unit",), P("u8"), N("St"), ("box", N("Op")), N("En"), N("OutSt")]
    for ekind in ("struct", "enum", "opaque", "outstruct"):
        for eattr in (None, "#[diplomat::attr(auto, error)]", "#[diplomat::attr(supports = custom_errors, error)]", "#[diplomat::attr(*, error)]"):
            for ok in oks:
                en = b.sname("Er")
                if ekind == "struct":
                    td = tdecl(en, "struct", False, [("code", P("u8"))], attrs=[eattr] if eattr else [])
                elif ekind == "outstruct":
                    td = tdecl(en, "outstruct", False, [("code", P("u8")), ("o", ("box", N("Op")))], attrs=[eattr] if eattr else [])
                elif ekind == "enum":
                    td = tdecl(en, "enum", attrs=[eattr] if eattr else [])
                else:
                    td = tdecl(en, "opaque", attrs=[eattr] if eattr else [])
                et = fresh(en, ekind)
                if ekind == "opaque":
                    et = ("box", et)
                b.add("e", types=[td], m=method(b.mname(), ret=("res", ok, et)), pos="custom error")
                b.add("e", types=[td], m=method(b.mname(), selff="&self", params=[("x", P("u8"))], ret=("res", ok, et)), pos="custom error")
            # the error type used outside a Result as well
            b.add("e", types=[td], m=method(b.mname(), ret=et), pos="custom error:plain return")


WRITE = ("ref", True, ("write",))


def fam_f(b, depth):
    """render termini (methods writing to a DiplomatWrite): what demo_gen builds its demos from; owners with a default constructor"""
    def demo_owner(ctor_params=(), fallible=False, extra=()):
        name = b.sname("Dm")
        ret = "Box<%s>" % name
        if fallible:
            ret = "Result<%s, ()>" % ret
        lt = any(G.has_lt(t) for _, t in ctor_params)
        ctor = ("#[diplomat::attr(auto, constructor)]\n        #[diplomat::demo(default_constructor)]\n        pub fn new%s(%s) -> %s { unimplemented!() }" % (
            "<'a>" if lt else "", ", ".join("%s: %s" % (n, G.render(t)) for n, t in ctor_params), ret))
        return name, [tdecl(name, "opaque", methods=[ctor])] + list(extra), fresh(name, "opaque")

    for t in G.universe(depth):
        if is128(t) or t == WRITE:
            continue
        b.add("f", m=method(b.mname(), params=[("x", t), ("w", WRITE)]), pos="terminus:static")
    for t in G.universe(1):
        if is128(t) or t == WRITE:
            continue
        name, tys, ft = demo_owner()
        b.add("f", types=tys, m=method(b.mname(), owner=name, selff="&self", params=[("x", t), ("w", WRITE)]), pos="terminus:&self")
    ctor_alpha = [P("u8"), P("bool"), P("f64"), P("DiplomatChar"), N("En"), N("St"), N("Nest"), N("SB"), OP_REF, ("opt", OP_REF), ("ref", False, ("str", "str")),
                  ("ref", False, ("str", "DiplomatStr16")), ("ref", False, ("slice", "u8")), ("ref", False, ("slice", "f64")), ("opt", P("u8")), ("opt", N("St")),
                  ("box", ("slice", "u8")), ("ffi", "DiplomatSlice<'a, DiplomatStrSlice<'a>>", "bslice")]
    # (Option<&str> / Option<&[T]> constructor parameters are left out here: helper methods cannot be reduced, and the same shapes are
    # enumerated as focus parameters by family (a) and by the static termini above)
    for t in ctor_alpha:
        for fallible in (False, True):
            name, tys, ft = demo_owner([("a", t)], fallible)
            b.add("f", types=tys, m=method(b.mname(), owner=name, selff="&self", params=[("w", WRITE)]), pos="terminus:constructor param")
            b.add("f", types=tys, m=method(b.mname(), owner=name, selff="&self", params=[("w", WRITE)], ret=("res", ("unit",), N("En"))), pos="terminus:fallible")
            # the constructed opaque as an argument of somebody else's terminus, directly / optional / inside a struct / via a second constructor
            b.add("f", types=tys, m=method(b.mname(), params=[("o", ("ref", False, ft)), ("w", WRITE)]), pos="terminus:opaque argument")
            b.add("f", types=tys, m=method(b.mname(), params=[("o", ("opt", ("ref", False, ft))), ("w", WRITE)]), pos="terminus:optional opaque argument")
            sn = b.sname("Ds")
            std = tdecl(sn, "struct", True, [("o", ("ref", False, ft)), ("n", t if not G.has_lt(t) or t[0] != "ref" or t[2][0] not in ("slice", "str") else P("u8"))])
            b.add("f", types=tys + [std], m=method(b.mname(), params=[("s", fresh(sn, "struct", True)), ("w", WRITE)]), pos="terminus:struct argument")
            n2, tys2, ft2 = demo_owner([("inner", ("ref", False, ft))], False, extra=tys)
            b.add("f", types=tys2, m=method(b.mname(), owner=n2, selff="&self", params=[("w", WRITE)]), pos="terminus:nested constructors")


RUST_LINK_KINDS = {  # kind -> number of trailing non-module path elements (core/src/ast/docs.rs DocType; book/src/docs.md)
    "Mod": 0, "Struct": 1, "Enum": 1, "Trait": 1, "Fn": 1, "Macro": 1, "Constant": 1, "Typedef": 1,
    "FnInEnum": 2, "FnInStruct": 2, "FnInTypedef": 2, "FnInTrait": 2, "DefaultFnInTrait": 2, "EnumVariant": 2, "StructField": 2,
    "AssociatedTypeInEnum": 2, "AssociatedTypeInStruct": 2, "AssociatedTypeInTrait": 2, "AssociatedConstantInEnum": 2,
    "AssociatedConstantInStruct": 2, "AssociatedConstantInTrait": 2, "EnumVariantField": 3,
}


def fam_f_cycles(b):
    """render termini whose owner can only be built through a default constructor that needs the owner's own type: directly, optionally,
    through a second / third type (demo_gen builds every opaque argument by recursing into default constructors)"""
    def ctor(name, params, attr="#[diplomat::attr(auto, constructor)]"):
        return ("%s\n        #[diplomat::demo(default_constructor)]\n        pub fn new(%s) -> Box<%s> { unimplemented!() }" % (
            attr, ", ".join("%s: %s" % (n, t) for n, t in params), name)).lstrip("\n")
    for shape in ("self", "self-optional", "self-second-param", "pair", "triple", "pair-named-constructor", "self-renamed", "pair-renamed"):
        n1, n2, n3 = b.sname("Cy"), b.sname("Cy"), b.sname("Cy")
        if shape == "self":
            tys = [tdecl(n1, "opaque", methods=[ctor(n1, [("o", "&" + n1)])])]
        elif shape == "self-optional":
            tys = [tdecl(n1, "opaque", methods=[ctor(n1, [("o", "Option<&%s>" % n1)])])]
        elif shape == "self-second-param":
            tys = [tdecl(n1, "opaque", methods=[ctor(n1, [("x", "u8"), ("o", "&" + n1)])])]
        elif shape == "pair":
            tys = [tdecl(n1, "opaque", methods=[ctor(n1, [("o", "&" + n2)])]), tdecl(n2, "opaque", methods=[ctor(n2, [("o", "&" + n1)])])]
        elif shape == "triple":
            tys = [tdecl(n1, "opaque", methods=[ctor(n1, [("o", "&" + n2)])]), tdecl(n2, "opaque", methods=[ctor(n2, [("o", "&" + n3)])]),
                   tdecl(n3, "opaque", methods=[ctor(n3, [("o", "&" + n1)])])]
        elif shape == "self-renamed":
            # (the type's JS-facing name differs from its Rust name)
            tys = [tdecl(n1, "opaque", attrs=['#[diplomat::attr(js, rename = "Ren%s")]' % n1], methods=[ctor(n1, [("o", "&" + n1)])])]
        elif shape == "pair-renamed":
            tys = [tdecl(n1, "opaque", attrs=['#[diplomat::attr(*, rename = "Ren%s")]' % n1], methods=[ctor(n1, [("o", "&" + n2)])]),
                   tdecl(n2, "opaque", attrs=['#[diplomat::attr(any(js, cpp), rename = "Ren%s")]' % n2], methods=[ctor(n2, [("o", "&" + n1)])])]
        else:
            tys = [tdecl(n1, "opaque", methods=[ctor(n1, [("o", "&" + n2)], "#[diplomat::attr(auto, named_constructor)]")]),
                   tdecl(n2, "opaque", methods=[ctor(n2, [("o", "&" + n1)], "#[diplomat::attr(auto, named_constructor)]")])]
        b.add("f", types=tys, m=method(b.mname(), owner=n1, selff="&self", params=[("w", WRITE)]), pos="terminus:constructor cycle")
        b.add("f", types=tys, m=method(b.mname(), params=[("x", ("ref", False, fresh(n1, "opaque"))), ("y", ("ref", False, fresh(n1, "opaque"))), ("w", WRITE)]), pos="terminus:constructor cycle (argument)")


def fam_g(b, thorough):
    """documentation: every rust_link item kind x display mode x path depth on a type, a method and an enum variant"""
    for kind, tail in sorted(RUST_LINK_KINDS.items()):
        for display in (None, "compact", "hidden"):
            for mods in ((1, 0) if not thorough else (2, 1, 0)):
                path = "::".join(["my_crate"] + ["m%d" % i for i in range(mods)] + ["Item", "sub", "leaf"][:tail])
                a = "#[diplomat::rust_link(%s, %s%s)]" % (path, kind, (", " + display) if display else "")
                n = b.sname("Dk")
                td = tdecl(n, "opaque", attrs=["/// Documented type.", a],
                           methods=["/// Documented method.\n        %s\n        pub fn documented(&self) -> u8 { 0 }" % a])
                te = tdecl(n + "E", "enum", attrs=["/// Documented enum.", a], variants="/// first\n        %s\n        A, B" % a)
                b.add("g", types=[td, te], pos="rust_link:%s" % (display or "normal"))


def enumerate_items(tier):
    thorough = tier == "thorough"
    b = Builder()
    b.add("prelude", pos="whole prelude")       # the only item rendered with every prelude type, used or not
    fam_a(b, 3 if thorough else 2)
    fam_b(b)
    fam_c(b, thorough)
    fam_d(b, thorough)
    fam_e(b, thorough)
    fam_f(b, 3 if thorough else 2)
    fam_f_cycles(b)
    fam_g(b, thorough)
    return b.items
