"""C09 helpers: reserved-name universe, whole-module shape generators, compiler / node oracles, include & import closure.

Everything here is a pure function of its arguments (no randomness): the generated sources are the enumeration.
"""
import json
import os
import re
import shutil
import subprocess
import threading

from vlib.common import REPO, BUILD, NCPU, cargo_env, run_tool, pmap, MachineryError, sha, _repo_tag

# ---------------------------------------------------------------------------------------------
# 1. name universe: every C / C++ / JS reserved word or predeclared name (whether it is a legal Rust identifier is decided by
#    rustc, see rust_legal()).  Sources: ISO C11 6.4.1 + C23 additions, ISO C++20 [lex.key] + alternative tokens + contextual
#    keywords + TS/coroutine words listed on cppreference, ECMA-262 13th ed. 12.7.2 (reserved words, strict-mode words, module
#    words), plus names predeclared by the headers every generated file includes / the JS global object.

C_KEYWORDS = """auto break case char const continue default do double else enum extern float for goto if inline int long register
restrict return short signed sizeof static struct switch typedef union unsigned void volatile while _Alignas _Alignof _Atomic _Bool
_Complex _Generic _Imaginary _Noreturn _Static_assert _Thread_local alignas alignof bool constexpr false nullptr static_assert
thread_local true typeof typeof_unqual _BitInt _Decimal32 _Decimal64 _Decimal128 asm fortran""".split()

CPP_KEYWORDS = """alignas alignof and and_eq asm atomic_cancel atomic_commit atomic_noexcept auto bitand bitor bool break case catch
char char8_t char16_t char32_t class compl concept const consteval constexpr constinit const_cast continue co_await co_return
co_yield decltype default delete do double dynamic_cast else enum explicit export extern false float for friend goto if inline int
long mutable namespace new noexcept not not_eq nullptr operator or or_eq private protected public reflexpr register
reinterpret_cast requires return short signed sizeof static static_assert static_cast struct switch synchronized template this
thread_local throw true try typedef typeid typename union unsigned using virtual void volatile wchar_t while xor xor_eq final
override import module""".split()

JS_KEYWORDS = """break case catch class const continue debugger default delete do else enum export extends false finally for function
if import in instanceof new null return super switch this throw true try typeof var void while with let static yield await
implements interface package private protected public arguments eval async of get set""".split()

# names given a meaning by <stdio.h> <stdint.h> <stddef.h> <stdbool.h> (included by every generated C / C++ header) or by the language
C_PREDECLARED = """NULL EOF stdin stdout stderr FILE BUFSIZ SEEK_SET size_t ptrdiff_t wchar_t max_align_t offsetof int8_t uint8_t
int32_t uint64_t intptr_t uintptr_t INT8_MAX INT32_MAX UINT8_MAX SIZE_MAX printf remove rename errno main __func__ __LINE__
__FILE__ __DATE__ complex noreturn""".split()

CPP_PREDECLARED = C_PREDECLARED + """std nullptr_t byte string optional function unique_ptr move __cplusplus""".split()

JS_PREDECLARED = """undefined NaN Infinity globalThis Object Array Symbol String Number Boolean Function Promise Map Set Error Date
JSON Math Reflect Proxy BigInt RegExp WeakRef FinalizationRegistry constructor prototype toString valueOf hasOwnProperty
__proto__ name length caller callee apply call bind isNaN parseInt""".split()

LANG_KEYWORDS = {"c": set(C_KEYWORDS), "cpp": set(CPP_KEYWORDS) | (set(C_KEYWORDS) - {"restrict", "fortran", "typeof", "typeof_unqual", "_BitInt"} - {k for k in C_KEYWORDS if k.startswith("_")}),
                 "js": set(JS_KEYWORDS)}
LANG_PREDECL = {"c": set(C_PREDECLARED), "cpp": set(CPP_PREDECLARED), "js": set(JS_PREDECLARED)}



def decorated(n):
    """spellings that a backend's identifier normalisation (camel-casing strips underscores and lowers the first letter) maps
    back onto the reserved word: `_default`, `default_`, `Default`"""
    return ["_" + n, n + "_", n[0].upper() + n[1:]]


def _undecorate(name):
    b = name.strip("_")
    return b[0].lower() + b[1:] if b else b


def universe():
    """sorted list of all candidate names"""
    s = set()
    for l in (C_KEYWORDS, CPP_KEYWORDS, JS_KEYWORDS, C_PREDECLARED, CPP_PREDECLARED, JS_PREDECLARED):
        s.update(l)
    for n in JS_KEYWORDS:
        s.update(decorated(n))
    return sorted(s)


def name_class(lang, name):
    """'keyword' if the name is a reserved word of that language (or a decorated spelling of one), else 'predeclared'"""
    if name in LANG_KEYWORDS[lang]:
        return "keyword"
    # decorated spellings are judged for the one backend that normalises identifiers (JS camel-casing); elsewhere they are
    # ordinary identifiers (or implementation-reserved ones such as `_Bool`, which stay in the recorded-only class)
    if lang == "js" and name in _DECORATED_JS and name not in LANG_PREDECL[lang]:
        return "keyword"
    return "predeclared"


_DECORATED_JS = {d for n in JS_KEYWORDS for d in decorated(n)}


# pub struct X; and fn parameter X: a unit struct named like a parameter makes the parameter a pattern -> probe the roles separately
_RUST_PROBES = {
    "value": "#![allow(warnings)]\npub fn f(%(n)s: u8) -> u8 { %(n)s }\npub struct S { pub %(n)s: u8 }\nimpl S { pub fn %(n)s() {} }\npub enum E { %(n)s }\n",
    "type": "#![allow(warnings)]\npub struct %(n)s;\nimpl %(n)s { pub fn m(&self) -> u8 { 0 } }\npub fn u(x: &%(n)s) {}\n",
}


def rust_legal(names, wd):
    """{name: {'value': bool, 'type': bool}} decided by rustc --edition 2021 (cached per rustc version under BUILD)"""
    ver = subprocess.run(["rustc", "-V"], stdout=subprocess.PIPE, text=True).stdout.strip()
    cache = os.path.join(BUILD, "c09-rustnames.json")
    key = sha(ver + json.dumps(sorted(names)) + json.dumps(_RUST_PROBES, sort_keys=True))
    if os.path.exists(cache):
        try:
            c = json.load(open(cache))
            if c.get("key") == key:
                return c["legal"]
        except ValueError:
            pass
    os.makedirs(wd, exist_ok=True)

    def one(job):
        n, kind = job
        p = subprocess.run(["rustc", "--edition", "2021", "--crate-type", "lib", "--emit=metadata", "-o", os.path.join(wd, "probe-%s-%s.rmeta" % (sha(n), kind)), "-"],
                           input=_RUST_PROBES[kind] % {"n": n}, stdout=subprocess.PIPE, stderr=subprocess.PIPE, text=True)
        return (n, kind, p.returncode == 0)
    res = pmap(one, [(n, k) for n in names for k in ("value", "type")])
    legal = {}
    for n, k, ok in res:
        legal.setdefault(n, {})[k] = ok
    if not any(v["value"] for v in legal.values()) or all(v["value"] for v in legal.values()):
        raise MachineryError("rustc legality probe is vacuous (all or no names accepted)")
    json.dump({"key": key, "rustc": ver, "legal": legal}, open(cache, "w"), indent=0)
    return legal


def _norm(n):
    return n.replace("_", "").lower()


def chunk_names(names, size):
    """split into chunks of <= size such that no two names in a chunk coincide after case folding / underscore removal
    (the JS backend camel-cases names: NULL and null must not share a class)"""
    chunks = []
    for n in names:
        for c in chunks:
            if len(c) < size and all(_norm(n) != _norm(m) for m in c):
                c.append(n)
                break
        else:
            chunks.append([n])
    return chunks


# ---------------------------------------------------------------------------------------------
# 2. keyword packs: one bridge module per role, any subset of names (sub-packs are used to isolate failing names)

ROLES = ["param", "method", "struct-field", "enum-variant", "type"]
KW_CHUNK = 48


def type_role_name_ok(n):
    """type names: where capitalisation allows (starts with an upper-case letter or an underscore followed by one)"""
    return bool(re.match(r"^_*[A-Z]", n))


def kw_source(role, names, sfx=""):
    """bridge module text using every name of `names` in `role`; deterministic; valid Rust once diplomat attributes are erased.
    sfx is appended to the helper type names (several packs in one crate need distinct exported symbols)"""
    L = ["#[diplomat::bridge]", "pub mod ffi {"]
    if role == "param":
        L.append("    use diplomat_runtime::DiplomatStr;")
        L.append("    pub struct KwPSt%s { pub a: u8 }" % sfx)
        for k, ch in enumerate(chunk_names(names, KW_CHUNK)):
            L.append("    #[diplomat::opaque]\n    pub struct KwParam%d%s;\n    impl KwParam%d%s {" % (k, sfx, k, sfx))
            for i, n in enumerate(ch):
                L.append("        pub fn p%d(%s: u8) {}" % (i, n))
                L.append("        pub fn s%d(&self, %s: &DiplomatStr) {}" % (i, n))
                L.append("        pub fn t%d(&self, %s: KwPSt%s) -> u8 { 0 }" % (i, n, sfx))
            L.append("    }")
    elif role == "method":
        for k, ch in enumerate(chunk_names(names, KW_CHUNK)):
            L.append("    #[diplomat::opaque]\n    pub struct KwMethod%d%s;\n    impl KwMethod%d%s {" % (k, sfx, k, sfx))
            for n in ch:
                L.append("        pub fn %s() {}" % n)
            L.append("    }")
            L.append("    #[diplomat::opaque]\n    pub struct KwMethodS%d%s;\n    impl KwMethodS%d%s {" % (k, sfx, k, sfx))
            for n in ch:
                L.append("        pub fn %s(&self, x: u8) -> u8 { x }" % n)
            L.append("    }")
    elif role == "struct-field":
        for k, ch in enumerate(chunk_names(names, KW_CHUNK)):
            L.append("    pub struct KwField%d%s {" % (k, sfx))
            for n in ch:
                L.append("        pub %s: u8," % n)
            L.append("    }")
            L.append("    impl KwField%d%s {\n        pub fn kw_get() -> KwField%d%s { unimplemented!() }\n        pub fn kw_take(self) {}\n    }" % (k, sfx, k, sfx))
    elif role == "enum-variant":
        for k, ch in enumerate(chunk_names(names, KW_CHUNK)):
            L.append("    pub enum KwVariant%d%s {" % (k, sfx))
            for n in ch:
                L.append("        %s," % n)
            if len(ch) < 2:
                L.append("        KwOtherVariant,")
            L.append("    }")
            L.append("    impl KwVariant%d%s {\n        pub fn kw_get() -> KwVariant%d%s { unimplemented!() }\n        pub fn kw_take(self) {}\n    }" % (k, sfx, k, sfx))
    elif role == "type":
        for n in names:
            L.append("    #[diplomat::opaque]\n    pub struct %s;\n    impl %s {\n        pub fn kwm(&self) -> u8 { 0 }\n    }" % (n, n))
        L.append("    #[diplomat::opaque]\n    pub struct KwTypeUser%s;\n    impl KwTypeUser%s {" % (sfx, sfx))
        for i, n in enumerate(names):
            L.append("        pub fn u%d(x: &%s) {}" % (i, n))
        L.append("    }")
    else:
        raise ValueError(role)
    L.append("}")
    return "\n".join(L) + "\n"


def kw_types(role, n):
    """type names that belong to name `n` in the one-type-per-name layout"""
    return {"param": ["KwParam_" + n], "method": ["KwMethod_" + n, "KwMethodS_" + n], "struct-field": ["KwField_" + n], "enum-variant": ["KwVariant_" + n],
            "type": [n, "KwTypeUser_" + n]}[role]


def kw_single_source(role, names):
    """same constructs as kw_source but every name in types of its own (kw_types): one generated header per name, so a failing header
    names the culprit and a failure cannot mask another name. With one name this is the minimal witness module."""
    L = ["#[diplomat::bridge]", "pub mod ffi {"]
    if role == "param":
        L.append("    use diplomat_runtime::DiplomatStr;")
        L.append("    pub struct KwPSt { pub a: u8 }")
    for n in names:
        if role == "param":
            L.append("    #[diplomat::opaque]\n    pub struct KwParam_%s;\n    impl KwParam_%s {" % (n, n))
            L.append("        pub fn p(%s: u8) {}" % n)
            L.append("        pub fn s(&self, %s: &DiplomatStr) {}" % n)
            L.append("        pub fn t(&self, %s: KwPSt) -> u8 { 0 }" % n)
            L.append("    }")
        elif role == "method":
            L.append("    #[diplomat::opaque]\n    pub struct KwMethod_%s;\n    impl KwMethod_%s {\n        pub fn %s() {}\n    }" % (n, n, n))
            L.append("    #[diplomat::opaque]\n    pub struct KwMethodS_%s;\n    impl KwMethodS_%s {\n        pub fn %s(&self, x: u8) -> u8 { x }\n    }" % (n, n, n))
        elif role == "struct-field":
            L.append("    pub struct KwField_%s {\n        pub %s: u8,\n    }" % (n, n))
            L.append("    impl KwField_%s {\n        pub fn kw_get() -> KwField_%s { unimplemented!() }\n        pub fn kw_take(self) {}\n    }" % (n, n))
        elif role == "enum-variant":
            L.append("    pub enum KwVariant_%s {\n        %s,\n        KwOtherVariant,\n    }" % (n, n))
            L.append("    impl KwVariant_%s {\n        pub fn kw_get() -> KwVariant_%s { unimplemented!() }\n        pub fn kw_take(self) {}\n    }" % (n, n))
        elif role == "type":
            L.append("    #[diplomat::opaque]\n    pub struct %s;\n    impl %s {\n        pub fn kwm(&self) -> u8 { 0 }\n    }" % (n, n))
            L.append("    #[diplomat::opaque]\n    pub struct KwTypeUser_%s;\n    impl KwTypeUser_%s {\n        pub fn u(x: &%s) {}\n    }" % (n, n, n))
        else:
            raise ValueError(role)
    L.append("}")
    return "\n".join(L) + "\n"


# ---------------------------------------------------------------------------------------------
# 3. whole-module shapes. A group = one source file (one or several bridge modules); every type carries a cause label.

def _opq(name, methods, attrs=""):
    return "%s    #[diplomat::opaque]\n    pub struct %s;\n    impl %s {\n%s\n    }" % (attrs, name, name, "\n".join("        " + m for m in methods))


U = "{ unimplemented!() }"

CYC = """#[diplomat::bridge]
pub mod ffi {
    use diplomat_runtime::DiplomatOption;
    // 2-cycle through opaques: A -> Box<B>, B takes &A and returns Option<Box<A>>
    #[diplomat::opaque]
    pub struct CycA;
    #[diplomat::opaque]
    pub struct CycB;
    impl CycA {
        pub fn new() -> Box<CycA> { Box::new(CycA) }
        pub fn b(&self) -> Box<CycB> { Box::new(CycB) }
        pub fn out(&self) -> CycOut %(U)s
        pub fn r<'a>(&'a self) -> CycRef<'a> { CycRef { a: self } }
        pub fn same(&self, other: &CycA) -> Option<Box<CycA>> { None }
    }
    impl CycB {
        pub fn a(&self, a: &CycA) -> Option<Box<CycA>> { None }
        pub fn res(&self, a: Option<&CycA>) -> Result<Box<CycA>, Box<CycB>> %(U)s
    }
    // struct <-> struct <-> enum through methods (cycles by value are impossible)
    pub enum CycE { X, Y }
    pub struct CycS1 { pub e: CycE, pub n: u8 }
    pub struct CycS2 { pub e: CycE, pub m: i32, pub o: DiplomatOption<CycE> }
    impl CycS1 {
        pub fn s2(self) -> CycS2 %(U)s
        pub fn both(self, other: CycS2) -> Result<CycS1, CycS2> %(U)s
    }
    impl CycS2 {
        pub fn s1(self) -> CycS1 %(U)s
        pub fn get_e(self) -> CycE { CycE::X }
        pub fn opt(self) -> Option<CycS1> { None }
    }
    impl CycE {
        pub fn s1(self) -> CycS1 %(U)s
        pub fn s2(self, a: &CycA) -> CycS2 %(U)s
    }
    // 3-cycle opaque -> opaque -> opaque, with struct / enum / Option / Result on the edges
    #[diplomat::opaque]
    pub struct Tri1;
    #[diplomat::opaque]
    pub struct Tri2;
    #[diplomat::opaque]
    pub struct Tri3;
    impl Tri1 {
        pub fn next(&self) -> Box<Tri2> { Box::new(Tri2) }
        pub fn opt(&self, x: Option<&Tri3>) -> Option<Box<Tri3>> { None }
    }
    impl Tri2 {
        pub fn next(&self) -> Box<Tri3> { Box::new(Tri3) }
        pub fn res(&self) -> Result<Box<Tri1>, CycE> { Err(CycE::Y) }
    }
    impl Tri3 {
        pub fn next(&self) -> Box<Tri1> { Box::new(Tri1) }
        pub fn st(&self, s: CycS1) -> CycS2 %(U)s
        pub fn back<'a>(&'a self, t: &'a Tri2) -> &'a Tri2 { t }
    }
    // out struct holding owned opaques, returned by a method of one of them
    #[diplomat::out]
    pub struct CycOut { pub a: Box<CycA>, pub b: Option<Box<CycB>>, pub e: CycE }
    // struct nesting by value whose inner type refers back through a method
    pub struct CycInner { pub x: u8 }
    pub struct CycOuter { pub inner: CycInner, pub e: CycE, pub o: DiplomatOption<CycInner> }
    impl CycInner {
        pub fn outer(self) -> CycOuter %(U)s
    }
    impl CycOuter {
        pub fn get_inner(self) -> CycInner %(U)s
    }
    // a type of every kind whose own methods mention it outside the receiver position (1-cycles): static factories, Result / Option of Self
    #[diplomat::out]
    pub struct SelfOut { pub code: u8, pub count: u32 }
    impl SelfOut {
        pub fn latest() -> SelfOut %(U)s
        pub fn try_latest() -> Result<SelfOut, ()> %(U)s
        pub fn maybe() -> Option<SelfOut> %(U)s
    }
    pub struct SelfSt { pub a: u8 }
    impl SelfSt {
        pub fn make() -> SelfSt %(U)s
        pub fn merge(self, o: SelfSt) -> Result<SelfSt, SelfSt> %(U)s
    }
    pub enum SelfEn { P, Q }
    impl SelfEn {
        pub fn first() -> SelfEn { SelfEn::P }
        pub fn other(self, o: SelfEn) -> Option<SelfEn> { let _ = o; None }
    }
    #[diplomat::opaque]
    pub struct SelfOp;
    impl SelfOp {
        pub fn make() -> Box<SelfOp> { Box::new(SelfOp) }
        pub fn again(&self, o: &SelfOp) -> Result<Box<SelfOp>, Box<SelfOp>> %(U)s
    }
    // borrowing struct <-> opaque
    pub struct CycRef<'a> { pub a: &'a CycA }
    impl<'a> CycRef<'a> {
        pub fn get_a(self) -> &'a CycA { self.a }
    }
}
""" % {"U": U}

MULTI = """// several bridge modules in one file referring to each other in a cycle (ma -> mb -> mc -> ma)
pub mod ma {
    #[diplomat::bridge]
    pub mod ffi {
        use super::super::mb::ffi::MuB;
        use super::super::mb::ffi::MuEnumB;
        #[diplomat::opaque]
        pub struct MuA;
        pub struct MuStA { pub e: MuEnumB, pub n: u8 }
        impl MuA {
            pub fn b(&self) -> Box<MuB> %(U)s
            pub fn e(&self) -> MuEnumB %(U)s
            pub fn st(&self) -> MuStA %(U)s
        }
    }
}
pub mod mb {
    #[diplomat::bridge]
    pub mod ffi {
        use super::super::mc::ffi::MuC;
        use super::super::ma::ffi::MuStA;
        #[diplomat::opaque]
        pub struct MuB;
        pub enum MuEnumB { P, Q }
        impl MuB {
            pub fn c(&self, s: MuStA) -> Option<Box<MuC>> { None }
        }
        impl MuEnumB {
            pub fn st(self) -> MuStA %(U)s
        }
    }
}
pub mod mc {
    #[diplomat::bridge]
    pub mod ffi {
        use crate::ma::ffi::MuA;
        use crate::ma::ffi::MuStA;
        use crate::mb::ffi::MuEnumB;
        #[diplomat::opaque]
        pub struct MuC;
        pub struct MuStC { pub a: MuStA, pub e: MuEnumB }
        impl MuC {
            pub fn a<'a>(&self, a: &'a MuA) -> &'a MuA { a }
            pub fn stc(&self) -> Result<MuStC, MuEnumB> %(U)s
        }
    }
}
""" % {"U": U}

NS = """// namespaces (only some backends support them): nested namespaces referring to each other across namespaces,
// the same final name in two namespaces, a module-level namespace, and an explicitly un-namespaced type
pub mod n1 {
    #[diplomat::bridge]
    #[diplomat::attr(auto, namespace = "nsa")]
    pub mod ffi {
        use super::super::n2::ffi::NsDeepE;
        use super::super::n2::ffi::NsDeepOp;
        #[diplomat::opaque]
        pub struct NsOp;
        #[diplomat::attr(auto, namespace = "nsa::inner")]
        pub struct NsInnerS { pub e: NsDeepE, pub p: NsPlainE }
        pub enum NsPlainE { A, B }
        #[diplomat::opaque]
        #[diplomat::attr(auto, namespace = "")]
        pub struct NsGlobal;
        #[diplomat::opaque]
        #[diplomat::attr(auto, namespace = "nsa::inner")]
        #[diplomat::attr(supports = namespacing, rename = "Same")]
        pub struct NsSame1;
        #[diplomat::opaque]
        #[diplomat::attr(auto, namespace = "nsb::deep")]
        #[diplomat::attr(supports = namespacing, rename = "Same")]
        pub struct NsSame2;
        // namespaces whose directory name is a proper string prefix of a sibling's: nsa::in / nsa::inner, ns / nsb
        #[diplomat::opaque]
        #[diplomat::attr(auto, namespace = "nsa::in")]
        pub struct NsPrefixIn;
        #[diplomat::opaque]
        #[diplomat::attr(auto, namespace = "ns")]
        pub struct NsPrefixTop;
        impl NsPrefixIn {
            pub fn longer(&self, s: &NsSame1) -> Option<Box<NsSame1>> { None }
            pub fn st(&self) -> NsInnerS %(U)s
        }
        impl NsPrefixTop {
            pub fn longer(&self, d: &NsSame2) -> Option<Box<NsSame2>> { None }
            pub fn back(&self, p: &NsPrefixIn) -> Option<Box<NsPrefixIn>> { None }
        }
        impl NsSame1 {
            pub fn shorter(&self, p: &NsPrefixIn, t: &NsPrefixTop) -> u8 { 0 }
        }
        impl NsOp {
            pub fn inner(&self) -> NsInnerS %(U)s
            pub fn deep(&self, d: &NsDeepOp, g: &NsGlobal) -> Option<Box<NsDeepOp>> { None }
            pub fn same(&self, a: &NsSame1, b: &NsSame2) -> NsDeepE %(U)s
        }
        impl NsInnerS {
            pub fn op(self) -> Box<NsOp> %(U)s
            pub fn same2(self) -> Box<NsSame2> %(U)s
        }
        impl NsGlobal {
            pub fn op(&self) -> Box<NsOp> %(U)s
            pub fn st(&self, s: NsInnerS) -> Result<NsInnerS, NsPlainE> %(U)s
        }
        impl NsSame1 {
            pub fn other(&self) -> Box<NsSame2> %(U)s
        }
        impl NsSame2 {
            pub fn other(&self) -> Box<NsSame1> %(U)s
        }
    }
}
pub mod n2 {
    #[diplomat::bridge]
    pub mod ffi {
        use super::super::n1::ffi::NsOp;
        use super::super::n1::ffi::NsInnerS;
        #[diplomat::attr(auto, namespace = "nsb::deep::er")]
        pub enum NsDeepE { A, B }
        #[diplomat::opaque]
        #[diplomat::attr(auto, namespace = "nsb::deep")]
        pub struct NsDeepOp;
        #[diplomat::attr(cpp, namespace = "nsb")]
        pub struct NsCppOnly { pub e: NsDeepE, pub s: NsInnerS }
        impl NsDeepOp {
            pub fn up(&self) -> Box<NsOp> %(U)s
            pub fn e(&self) -> NsDeepE %(U)s
            pub fn st(&self, s: NsInnerS) -> NsCppOnly %(U)s
        }
        impl NsDeepE {
            pub fn op(self) -> Box<NsDeepOp> %(U)s
        }
        impl NsCppOnly {
            pub fn get(self) -> NsInnerS %(U)s
        }
    }
}
""" % {"U": U}

REN = """// renamed types, methods and enum variants: per backend, for all backends, with a module-level pattern
pub mod r1 {
    #[diplomat::bridge]
    #[diplomat::attr(not(c), rename = "Rn{0}")]
    pub mod ffi {
        #[diplomat::opaque]
        #[diplomat::attr(cpp, rename = "CppOnlyName")]
        pub struct RenCpp;
        #[diplomat::opaque]
        #[diplomat::attr(js, rename = "JsOnlyName")]
        pub struct RenJs;
        #[diplomat::attr(*, rename = "EveryName")]
        pub struct RenAll { pub e: RenEnum, pub n: u8 }
        pub enum RenEnum {
            #[diplomat::attr(*, rename = "FirstRenamed")]
            A,
            #[diplomat::attr(cpp, rename = "SecondCpp")]
            #[diplomat::attr(js, rename = "SecondJs")]
            B,
            C,
        }
        impl RenCpp {
            #[diplomat::attr(cpp, rename = "cpp_name")]
            pub fn m1(&self, j: &RenJs) -> RenAll %(U)s
            #[diplomat::attr(js, rename = "js_name")]
            pub fn m2(&self) -> Option<Box<RenJs>> { None }
            #[diplomat::attr(*, rename = "all_{0}")]
            pub fn m3(&self, a: RenAll) -> RenEnum %(U)s
            #[diplomat::abi_rename = "renamed_abi_{0}"]
            pub fn m4(&self) -> Result<RenAll, RenEnum> %(U)s
        }
        impl RenJs {
            pub fn back(&self) -> Box<RenCpp> %(U)s
        }
        impl RenAll {
            #[diplomat::attr(*, rename = "get_renamed")]
            pub fn get(self) -> RenAll %(U)s
        }
        impl RenEnum {
            pub fn all(self) -> RenAll %(U)s
        }
    }
}
pub mod r2 {
    #[diplomat::bridge]
    pub mod ffi {
        use super::super::r1::ffi::RenAll;
        use super::super::r1::ffi::RenCpp;
        use super::super::r1::ffi::RenEnum;
        // a user in a module without the pattern refers to renamed types of another module
        #[diplomat::opaque]
        pub struct RenUser;
        pub struct RenHolder { pub a: RenAll, pub e: RenEnum }
        impl RenUser {
            pub fn take(&self, c: &RenCpp, a: RenAll) -> RenHolder %(U)s
            pub fn e(&self) -> Option<RenEnum> { None }
        }
    }
}
""" % {"U": U}

ATTRS = """// diplomat helper attributes in every placement the AST reads them from: all of them must be gone from the expansion
#[diplomat::bridge]
#[diplomat::abi_rename = "at_{0}"]
#[diplomat::attr(auto, namespace = "atns")]
pub mod ffi {
    #[diplomat::opaque]
    #[diplomat::rust_link(core::option::Option, Enum)]
    #[diplomat::attr(js, rename = "AtOpJs")]
    #[diplomat::demo(external)]
    pub struct AtOp;
    #[diplomat::attr(cpp, rename = "AtStCpp")]
    pub struct AtSt {
        /// documented field
        pub a: u8,
        #[diplomat::rust_link(core::option::Option, Enum)]
        pub b: i32,
    }
    #[diplomat::abi_rename = "en_{0}"]
    pub enum AtEn {
        #[diplomat::attr(*, rename = "Uno")]
        A,
        #[diplomat::rust_link(core::option::Option::None, EnumVariant)]
        B,
    }
    #[diplomat::abi_rename = "impl_{0}"]
    #[diplomat::attr(dart, rename = "d_{0}")]
    impl AtOp {
        #[diplomat::attr(auto, constructor)]
        #[diplomat::demo(default_constructor)]
        pub fn new() -> Box<AtOp> { Box::new(AtOp) }
        #[diplomat::rust_link(core::option::Option::is_some, FnInEnum)]
        pub fn recv(#[diplomat::demo(input(label = "receiver"))] &self) -> u8 { 0 }
        pub fn recv_mut(#[diplomat::demo(input(label = "receiver"))] &mut self, #[diplomat::demo(input(label = "count"))] n: u8) -> u8 { n }
        #[diplomat::attr(cpp, rename = "cpp_param")]
        pub fn param(&self, #[diplomat::demo(input(label = "x", default_value = "3"))] x: i32, #[diplomat::demo(input(label = "s"))] s: AtSt) -> AtEn %(U)s
        #[diplomat::abi_rename = "m_{0}"]
        pub fn en(&self, #[diplomat::demo(input(label = "e"))] e: AtEn) -> AtSt %(U)s
    }
    impl AtSt {
        pub fn by_value(#[diplomat::demo(input(label = "self"))] self) -> u8 { 0 }
    }
    impl AtEn {
        pub fn by_value(#[diplomat::demo(input(label = "self"))] self, #[diplomat::demo(input(label = "o"))] o: &AtOp) -> AtEn { self }
    }
}
""" % {"U": U}

def _dis_source(kind, lang):
    """a type of `kind` disabled in `lang` but still used by an enabled item: that backend has to refuse the module (it cannot emit
    the type); if it accepts, whatever it emits must still be well formed"""
    t = "Dis%s%s" % (kind.capitalize(), lang.capitalize())
    decl = {"st": "pub struct %s { pub a: u8 }" % t, "en": "pub enum %s { A, B }" % t, "op": "#[diplomat::opaque]\n    pub struct %s;" % t}[kind]
    use = "&%s" % t if kind == "op" else t
    holder = "" if kind == "op" else "    pub struct %sHolder { pub x: %s, pub n: u8 }\n" % (t, t)
    hm = "" if kind == "op" else "        pub fn holder(&self) -> %sHolder %s\n" % (t, U)
    return ("#[diplomat::bridge]\npub mod ffi {\n    #[diplomat::attr(%s, disable)]\n    %s\n%s    #[diplomat::opaque]\n    pub struct %sUser;\n"
            "    impl %sUser {\n        pub fn take(&self, x: %s) -> u8 { 0 }\n%s    }\n}\n" % (lang, decl, holder, t, t, use, hm))


ZST = """// zero-sized (field-less) struct as a Result arm next to a real payload, and 'static slices as parameters
#[diplomat::bridge]
pub mod ffi {
    #[diplomat::opaque]
    pub struct ZsOp;
    pub struct ZsErr {}
    pub struct ZsSt { pub a: u8 }
    impl ZsOp {
        pub fn a(&self) -> Result<Box<ZsOp>, ZsErr> %(U)s
        pub fn b(&self) -> Result<i32, ZsErr> %(U)s
        pub fn c(&self) -> Result<(), ZsErr> %(U)s
        pub fn d(&self) -> Result<ZsSt, ZsErr> %(U)s
        pub fn e(&self) -> Result<ZsErr, i32> %(U)s
        #[diplomat::attr(not(supports = static_slices), disable)]
        pub fn st(&self, s: &'static [u16], t: &'static str, u: &'static [f64]) -> u8 { 0 }
        #[diplomat::attr(not(supports = static_slices), disable)]
        pub fn st_ret(&self, s: &'static [u8]) -> &'static [u8] { s }
    }
}
""" % {"U": U}

# callbacks: every parameter kind and every return kind in a type of its own (file name = construct)
CB_PARAM_KINDS = [("none", ""), ("prim", "u8"), ("prims", "i32, f64, bool"), ("char", "DiplomatChar"), ("enum", "CbEn"), ("struct", "CbSt"),
                  ("opaque-ref", "&CbOp"), ("opaque-mut", "&mut CbOp"), ("opt-opaque-ref", "Option<&CbOp>"), ("str", "&str"), ("str16", "&DiplomatStr16"),
                  ("bytes", "&DiplomatStr"), ("slice", "&[u8]"), ("slice-f64", "&[f64]"), ("slice-mut", "&mut [u8]"), ("opt-prim", "Option<u8>"), ("opt-enum", "Option<CbEn>"),
                  ("opt-struct", "Option<CbSt>")]
CB_RET_KINDS = [("unit", ""), ("prim", "u8"), ("bool", "bool"), ("f64", "f64"), ("enum", "CbEn"), ("struct", "CbSt"), ("opt-prim", "Option<u8>"),
                ("opt-enum", "Option<CbEn>"), ("opt-struct", "Option<CbSt>"), ("result-prim", "Result<u8, ()>"), ("opaque-box", "Box<CbOp>")]
CB_PRELUDE = """    use diplomat_runtime::{DiplomatChar, DiplomatStr, DiplomatStr16};
    pub struct CbSt%(x)s { pub a: u8, pub b: i32 }
    pub enum CbEn%(x)s { A, B }
    #[diplomat::opaque]
    pub struct CbOp%(x)s;
"""


def _camel(kind):
    return "".join(p.capitalize() for p in re.split(r"[-_]", kind))


def cb_items(tier, sfx=""):
    """[(type name, label, snippet)]; sfx is appended to every type name (several copies in one crate need distinct symbols)"""
    def ty(t):
        return re.sub(r"\b(CbSt|CbEn|CbOp)\b", lambda m: m.group(1) + sfx, t)
    items = []
    for k, t in CB_PARAM_KINDS:
        body = "pub fn run(f: impl Fn(%s)) { unimplemented!() }\n        pub fn run_mut(&self, f: impl FnMut(%s)) { unimplemented!() }" % (ty(t), ty(t))
        items.append(("CbP" + _camel(k), "callback|param=%s" % k, body))
    for k, t in CB_RET_KINDS:
        r = (" -> " + ty(t)) if t else ""
        body = "pub fn run(f: impl Fn()%s) { unimplemented!() }\n        pub fn run_arg(&self, f: impl Fn(u8)%s) { unimplemented!() }" % (r, r)
        items.append(("CbR" + _camel(k), "callback|ret=%s" % k, body))
    if tier == "thorough":
        for pk, pty in CB_PARAM_KINDS[1:]:
            for rk, rty in CB_RET_KINDS[1:]:
                body = "pub fn run(f: impl Fn(%s) -> %s) { unimplemented!() }" % (ty(pty), ty(rty))
                items.append(("CbX" + _camel(pk) + "X" + _camel(rk), "callback|param=%s|ret=%s" % (pk, rk), body))
    # two callbacks in one method, callback next to other parameters
    items.append(("CbTwo", "callback|two-callbacks", "pub fn run(&self, f: impl Fn(u8) -> u8, x: %s, g: impl Fn(%s) -> i32) -> i32 { unimplemented!() }" % (ty("CbSt"), ty("CbSt"))))
    out = []
    for (name, label, body) in items:
        name += sfx
        snippet = ("    #[diplomat::attr(not(supports = \"callbacks\"), disable)]\n    #[diplomat::opaque]\n    pub struct %s;\n    impl %s {\n        %s\n    }\n" % (name, name, body))
        out.append((name, label, snippet))
    return out


def cb_source(items, sfx=""):
    return "#[diplomat::bridge]\npub mod ffi {\n" + CB_PRELUDE % {"x": sfx} + "".join(s for (_n, _l, s) in items) + "}\n"


# lifetime bounds that can only be written as where clauses (they relate lifetimes of the impl header); the methods have no generic
# parameter list of their own, or one that does not mention the bounded lifetime.  The wrappers the macro emits must restate them.
LTS = """#[diplomat::bridge]
pub mod ffi {
    #[diplomat::opaque]
    pub struct LtOp(pub u8);
    pub struct LtPair<'long, 'short> { pub l: &'long LtOp, pub s: &'short LtOp }
    impl<'long, 'short> LtPair<'long, 'short> {
        pub fn pick(self) -> &'short LtOp where 'long: 'short { self.l }
        pub fn pick2<'c>(self, other: &'c LtOp) -> &'c LtOp where 'long: 'short { other }
    }
    #[diplomat::opaque]
    pub struct LtHold<'a, 'b>(pub &'a LtOp, pub &'b LtOp);
    impl<'a, 'b> LtHold<'a, 'b> {
        pub fn first(&self) -> &'b LtOp where 'a: 'b { self.0 }
        pub fn both<'c>(&'c self) -> &'c LtOp where 'a: 'c, 'b: 'c { self.0 }
    }
}
"""

# special methods on by-value receivers: the C++ backend derives operators from them (comparison: six `const` operators calling the
# comparator; arithmetic: compound assignment) and has to declare the underlying method so that those compile
SPECIAL = """#[diplomat::bridge]
pub mod ffi {
    #[diplomat::attr(not(supports = comparators), disable)]
    pub struct SpVer { pub major: u8, pub minor: u8 }
    impl SpVer {
        #[diplomat::attr(auto, comparison)]
        pub fn cmp(self, other: SpVer) -> core::cmp::Ordering { self.major.cmp(&other.major).then(self.minor.cmp(&other.minor)) }
        pub fn is_zero(self) -> bool { self.major == 0 }
    }
    #[diplomat::attr(not(supports = comparators), disable)]
    pub enum SpLevel { Low, Mid, High }
    impl SpLevel {
        #[diplomat::attr(auto, comparison)]
        pub fn cmp(self, other: SpLevel) -> core::cmp::Ordering { (self as u8).cmp(&(other as u8)) }
    }
    #[diplomat::opaque]
    #[diplomat::attr(not(supports = comparators), disable)]
    pub struct SpOp(pub u8);
    impl SpOp {
        #[diplomat::attr(auto, comparison)]
        pub fn cmp(&self, other: &SpOp) -> core::cmp::Ordering { self.0.cmp(&other.0) }
    }
    #[diplomat::attr(not(supports = arithmetic), disable)]
    pub struct SpVec { pub x: i32 }
    impl SpVec {
        #[diplomat::attr(auto, add)]
        pub fn add(self, o: SpVec) -> SpVec { SpVec { x: self.x + o.x } }
        #[diplomat::attr(auto, sub)]
        pub fn sub(self, o: SpVec) -> SpVec { SpVec { x: self.x - o.x } }
    }
}
"""

# shapes the documented gate refuses on the unchanged tree (so nothing is generated and nothing judged); should a backend accept
# them, what it emits must still build.  A field-less struct outside Result / Option: returned, taken, in a callback.
ZST_DIRECT = """#[diplomat::bridge]
pub mod ffi {
    pub struct ZdReady {}
    #[diplomat::opaque]
    pub struct ZdOp;
    impl ZdOp {
        pub fn ready(&self) -> ZdReady { ZdReady {} }
    }
}
"""

# Result returns whose arms have an FFI-safe spelling different from the Rust one (std slices, strings, Ordering): the wrapper's
# declared return type and the conversion in its body must agree for every such arm (added after seeded change C09-m15)
RESARMS = """#[diplomat::bridge]
pub mod ffi {
    pub enum RaErr { A, B }
    #[diplomat::opaque]
    pub struct RaOp(pub String, pub Vec<u8>, pub Vec<u16>, pub Vec<f64>);
    impl RaOp {
        pub fn s8<'a>(&'a self, k: u8) -> Result<&'a str, RaErr> { if k == 0 { Ok(&self.0) } else { Err(RaErr::A) } }
        pub fn s8u<'a>(&'a self, k: u8) -> Result<&'a DiplomatStr, ()> { if k == 0 { Ok(self.0.as_bytes()) } else { Err(()) } }
        pub fn s16<'a>(&'a self, k: u8) -> Result<&'a DiplomatStr16, RaErr> { if k == 0 { Ok(&self.2) } else { Err(RaErr::B) } }
        pub fn b8<'a>(&'a self, k: u8) -> Result<&'a [u8], ()> { if k == 0 { Ok(&self.1) } else { Err(()) } }
        pub fn f64s<'a>(&'a self, k: u8) -> Result<&'a [f64], RaErr> { if k == 0 { Ok(&self.3) } else { Err(RaErr::B) } }
        pub fn opt8<'a>(&'a self, k: u8) -> Option<&'a str> { if k == 0 { Some(&self.0) } else { None } }
        pub fn optb<'a>(&'a self, k: u8) -> Option<&'a [u8]> { if k == 0 { Some(&self.1) } else { None } }
    }
}
"""

# the same for core::cmp::Ordering (crosses as i8), kept apart: on the unchanged tree `Result<Ordering, E>` is accepted by the tool
# while the macro's wrapper does not type-check (known finding)
RESORD = """#[diplomat::bridge]
pub mod ffi {
    pub enum RoErr { A, B }
    #[diplomat::opaque]
    pub struct RoOp(pub Vec<u8>);
    impl RoOp {
        pub fn ord(&self, k: u8) -> Result<core::cmp::Ordering, RoErr> { if k == 0 { Ok(self.0.len().cmp(&1)) } else { Err(RoErr::A) } }
        pub fn opto(&self, k: u8) -> Option<core::cmp::Ordering> { if k == 0 { Some(core::cmp::Ordering::Equal) } else { None } }
    }
}
"""

SHAPE_GROUPS = {"attrs": ATTRS, "cyc": CYC, "lts": LTS, "multi": MULTI, "ns": NS, "ren": REN, "resarms": RESARMS, "resord": RESORD, "special": SPECIAL, "zst": ZST}
GATE_OPTIONAL_GROUPS = {"zstdirect": ZST_DIRECT}
# groups that a backend may refuse (not counted as an accepted module there)
OPTIONAL_GROUPS = {"dis_%s_%s" % (k, l): _dis_source(k, l) for k in ("st", "en", "op") for l in ("c", "cpp", "js")}
# `use crate::ma::..` in MULTI is resolved by rustc through these re-exports at the crate root (the tool sees multi.rs as root)
SHAPE_ROOT_EXTRA = "pub use crate::multi::ma;\npub use crate::multi::mb;\n"

CARGO_TOML = """[package]
name = "c09shapes"
version = "0.0.0"
edition = "2021"
publish = false

[workspace]

[lib]
crate-type = ["rlib"]
path = "src/lib.rs"

[dependencies]
diplomat = { path = "%(repo)s/macro" }
diplomat-runtime = { path = "%(repo)s/runtime" }

[profile.dev]
opt-level = 0
debug = false
incremental = false
"""


def build_shapes_crate(tier, modules, variant="", root_extra=True):
    """modules: {module name: source}; one crate, one cargo build (real macro, real runtime). Returns (dir, CompletedProcess).
    Crates of the same tier share one target directory (dependencies are compiled once)."""
    d = os.path.join(BUILD, "c09-%s%s%s" % (tier, variant, _repo_tag()))
    target = os.path.join(BUILD, "c09-%s%s" % (tier, _repo_tag()), "target")
    src = os.path.join(d, "src")
    os.makedirs(src, exist_ok=True)
    os.makedirs(os.path.join(d, ".cargo"), exist_ok=True)

    def put(p, s):
        if not os.path.exists(p) or open(p).read() != s:
            open(p, "w").write(s)
    put(os.path.join(d, "Cargo.toml"), (CARGO_TOML % {"repo": REPO}).replace('"c09shapes"', '"c09shapes%s"' % variant.replace("-", "_")))
    put(os.path.join(d, ".cargo", "config.toml"), "[net]\noffline = true\n")
    lib = ["#![allow(warnings, clippy::all)]"]
    for m in sorted(modules):
        lib.append("pub mod %s;" % m)
        put(os.path.join(src, m + ".rs"), modules[m])
    if root_extra and "multi" in modules:
        lib.append(SHAPE_ROOT_EXTRA)
    put(os.path.join(src, "lib.rs"), "\n".join(lib) + "\n")
    for f in os.listdir(src):
        if f.endswith(".rs") and f != "lib.rs" and f[:-3] not in modules:
            os.remove(os.path.join(src, f))
    lock = os.path.join(d, "Cargo.lock")
    if not os.path.exists(lock):
        shutil.copy(os.path.join(REPO, "Cargo.lock"), lock)
    p = subprocess.run(["cargo", "build", "--offline", "--message-format=short"], cwd=d, env=cargo_env({"CARGO_TARGET_DIR": target}),
                       stdout=subprocess.PIPE, stderr=subprocess.PIPE, text=True)
    return d, p


# ---------------------------------------------------------------------------------------------
# 4. oracles: real compilers / node

def c_cmd(path, inc):
    return ["gcc", "-std=c11", "-fsyntax-only", "-x", "c", path, "-I", inc]


def cpp_cmd(path, inc, std, pch=None):
    cmd = ["g++", "-std=" + std, "-fsyntax-only"]
    if pch:
        cmd += ["-I", pch, "-include", "diplomat_runtime.hpp"]
    return cmd + ["-x", "c++", path, "-I", inc]


def js_cmd(path):
    return ["node", "--check", path]


_SLOTS = threading.BoundedSemaphore(NCPU)


def run_cmd(cmd, timeout=300):
    """one compiler / node process; at most NCPU at a time however many thread pools are active"""
    env = dict(os.environ)
    env["LC_ALL"] = "C"
    with _SLOTS:
        try:
            p = subprocess.run(cmd, stdout=subprocess.PIPE, stderr=subprocess.PIPE, text=True, errors="replace", timeout=timeout, env=env)
            return p.returncode, (p.stderr or "") + (p.stdout or "")
        except subprocess.TimeoutExpired:
            return -999, "TIMEOUT"


def first_errors(text, n=6):
    out = [l for l in text.splitlines() if re.search(r"\berror\b|SyntaxError|Error:", l)]
    if not out:
        out = [l for l in text.splitlines() if l.strip()]
    return [l[:300] for l in out[:n]]


def norm_error(text):
    """first error line with paths, line numbers and quoted identifiers' positions removed (stable part of a key)"""
    for l in text.splitlines():
        m = re.search(r"(?:error(?:\[E\d+\])?|SyntaxError):? (.*)", l)
        if m:
            s = re.sub(r"\s+", " ", m.group(1)).strip()
            return s[:90]
    return "no-error-text"


def error_locations(text):
    """[(file, line)] of every compiler / node diagnostic"""
    locs = []
    for l in text.splitlines():
        m = re.match(r"^(?:In file included from )?([^\s:]+):(\d+)(?::\d+)?[:,]", l)
        if m and ("error" in l):
            locs.append((m.group(1), int(m.group(2))))
        m = re.match(r"^(/[^\s:]+\.mjs):(\d+)$", l)
        if m:
            locs.append((m.group(1), int(m.group(2))))
    return locs


def suspects(names, text, base=None):
    """names mentioned in the error text or on the source lines the diagnostics point at"""
    words = set(re.findall(r"[A-Za-z_][A-Za-z0-9_]*", text))
    for (f, ln) in error_locations(text):
        p = f if os.path.isabs(f) or not base else os.path.join(base, f)
        try:
            lines = open(p, errors="replace").read().splitlines()
            if 0 < ln <= len(lines):
                words.update(re.findall(r"[A-Za-z_][A-Za-z0-9_]*", lines[ln - 1]))
        except OSError:
            pass
    # generated spellings: trailing underscore (escaped), camelCase (JS)
    w2 = set(words)
    for w in words:
        w2.add(w.rstrip("_"))
        w2.add(w.lstrip("#"))
    low = {_norm(w) for w in w2}
    return [n for n in names if n in w2 or _norm(n) in low]


def list_files(d, exts):
    out = []
    for root, _, files in os.walk(d):
        for f in files:
            if any(f.endswith(e) for e in exts):
                out.append(os.path.relpath(os.path.join(root, f), d))
    return sorted(out)


# ---------------------------------------------------------------------------------------------
# 5. closure of #include "..." and import ... from "..."

def include_closure(d, files):
    """every #include "X" in a generated C/C++ file names a generated file. returns (n_edges, [(file, target)])"""
    bad, n = [], 0
    gen = set(list_files(d, [""]))
    for f in files:
        txt = open(os.path.join(d, f), errors="replace").read()
        for m in re.finditer(r'^\s*#\s*include\s+"([^"]+)"', txt, re.M):
            n += 1
            t = m.group(1)
            cands = [os.path.normpath(os.path.join(os.path.dirname(f), t)), os.path.normpath(t)]
            if not any(c in gen for c in cands):
                bad.append((f, t))
    return n, bad


def guards(d, files):
    """include guard macro -> [files]"""
    g = {}
    for f in files:
        txt = open(os.path.join(d, f), errors="replace").read()
        m = re.search(r"^\s*#ifndef\s+(\w+)\s*\n\s*#define\s+(\w+)", txt, re.M)
        if m and m.group(1) == m.group(2):
            g.setdefault(m.group(1), []).append(f)
        elif not re.search(r"^\s*#pragma\s+once", txt, re.M):
            g.setdefault("<none>:" + f, []).append(f)
    return g


_EXPORT_DECL = re.compile(r"^\s*export\s+(?:async\s+)?(?:class|function\*?|const|let|var)\s+([A-Za-z_$][\w$]*)", re.M)
_EXPORT_LIST = re.compile(r"^\s*export\s*(?:type\s*)?\{([^}]*)\}\s*(?:from\s*[\"']([^\"']+)[\"'])?", re.M)
_EXPORT_TS = re.compile(r"^\s*export\s+(?:declare\s+)?(?:abstract\s+)?(?:class|function|const|let|var|type|interface|enum)\s+([A-Za-z_$][\w$]*)", re.M)
_IMPORT = re.compile(r"^\s*import\s+(type\s+)?(.*?)\s+from\s*[\"']([^\"']+)[\"']", re.M)


def js_exports(txt, ts=False):
    names = set(_EXPORT_DECL.findall(txt))
    if ts:
        # ambient context: a top-level declaration of a .d.ts is visible to `import type` whether or not it carries `export`
        names |= set(_EXPORT_TS.findall(txt))
        names |= set(re.findall(r"^(?:declare\s+)?(?:abstract\s+)?(?:class|function|const|let|var|type|interface|enum)\s+([A-Za-z_$][\w$]*)", txt, re.M))
    default = bool(re.search(r"^\s*export\s+default\b", txt, re.M))
    for m in _EXPORT_LIST.finditer(txt):
        for part in m.group(1).split(","):
            part = part.strip()
            if not part:
                continue
            part = re.sub(r"^type\s+", "", part)
            names.add(part.split(" as ")[-1].strip())
    return names, default


def js_import_closure(d, files, allowed_external=()):
    """every import / re-export in a generated .mjs (or .d.ts) names a generated file that exports the imported identifiers.
    returns (n_edges, [(file, target, missing-what)])"""
    gen = set(list_files(d, [""]))
    cache = {}

    def exports_of(rel):
        if rel not in cache:
            cache[rel] = js_exports(open(os.path.join(d, rel), errors="replace").read(), ts=rel.endswith(".ts"))
        return cache[rel]
    bad, n = [], 0
    for f in files:
        txt = open(os.path.join(d, f), errors="replace").read()
        ts = f.endswith(".d.ts")
        edges = []
        for m in _IMPORT.finditer(txt):
            edges.append((m.group(2), m.group(3), "import"))
        for m in _EXPORT_LIST.finditer(txt):
            if m.group(2):
                edges.append(("{" + m.group(1) + "}", m.group(2), "export"))
        for m in re.finditer(r"^\s*import\s*[\"']([^\"']+)[\"']", txt, re.M):
            edges.append(("", m.group(1), "import"))
        for (what, target, kind) in edges:
            n += 1
            if (f, target) in allowed_external:
                continue
            if not target.startswith("."):
                bad.append((f, target, "bare module specifier"))
                continue
            rel = os.path.normpath(os.path.join(os.path.dirname(f), target))
            cands = [rel] + ([rel + ".d.ts", rel + ".ts"] if ts else [])
            hit = next((c for c in cands if c in gen), None)
            if hit is None:
                bad.append((f, target, "file not generated"))
                continue
            names, default = exports_of(hit)
            what = what.strip()
            mlist = re.search(r"\{([^}]*)\}", what)
            if mlist:
                for part in mlist.group(1).split(","):
                    part = re.sub(r"^type\s+", "", part.strip())
                    if not part:
                        continue
                    src = part.split(" as ")[0].strip()
                    if src == "default":
                        if not default:
                            bad.append((f, target, "no default export"))
                    elif src not in names:
                        bad.append((f, target, "does not export " + src))
            head = re.sub(r"\{[^}]*\}", "", what).strip().strip(",").strip()
            if head and not head.startswith("*") and kind == "import":
                if not default:
                    bad.append((f, target, "no default export for `%s`" % head))
    return n, bad
