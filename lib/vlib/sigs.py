"""Method-signature grammar over named lifetimes, shared by C04 (borrow edges) and C05 (lifetime rules).

A *type form* is described by
  text(lts)      -> Rust source given the lifetime names chosen for its lifetime holes
  holes          -> number of lifetime holes
  slots(lts)     -> list of (kind, def_lt, lifetime) : the places where the type mentions a lifetime
                    kind in {"opaque","slice","struct"}; def_lt is the struct-definition lifetime name for kind "struct"
  implied(lts)   -> list of (longer, shorter) bounds the type implies ('longer: 'shorter)
"""
import itertools

PRELUDE = """
    #[diplomat::opaque]
    #[diplomat::attr(kotlin, error)]
    pub struct Op(u8);
    #[diplomat::opaque]
    pub struct OpL<'a>(&'a u8);
    pub struct SB<'a> { pub r: &'a Op }
    pub struct S2<'a, 'b> { pub x: &'a Op, pub y: &'b Op }
    #[diplomat::attr(kotlin, error)]
    pub struct S2b<'a, 'b: 'a> { pub x: &'a Op, pub y: &'b Op }
    pub struct NestB<'a> { pub inner: SB<'a>, pub n: u8 }
    pub struct Nest2<'a, 'b> { pub first: SB<'a>, pub second: SB<'b>, pub sl: SSl<'b> }
    pub struct S3<'a, 'b, 'c: 'b> { pub x: &'a Op, pub y: &'b Op, pub z: &'c Op }
    pub struct SRef<'a, 'b> { pub r: &'a OpL<'b> }
    pub struct SOptRef<'a, 'b> { pub r: Option<&'a OpL<'b>>, pub n: u8 }
    pub struct SSl<'a> { pub s: DiplomatSlice<'a, u8>, pub r: &'a Op }
    pub struct SSl2<'a, 'b> { pub s: DiplomatSlice<'a, u8>, pub t: DiplomatStr16Slice<'b>, pub n: u8 }
    #[diplomat::out]
    pub struct OutB<'a, 'b> { pub x: &'a Op, pub y: &'b Op }
"""


class Form:
    def __init__(self, name, holes, text, slots, implied=lambda l: [], optional=False, static_only=False, defsite=False):
        self.defsite = defsite   # the implied bounds come from the DEFINITION of the type (must be restated on the method)
        self.name = name
        self.holes = holes
        self._text = text
        self._slots = slots
        self._implied = implied
        self.optional = optional
        self.static_only = static_only

    def text(self, l):
        return self._text(l)

    def slots(self, l):
        return self._slots(l)

    def implied(self, l):
        return self._implied(l)


def _lt(x):
    return "'" + x


# ---- parameter forms ------------------------------------------------------------------------
PARAM_FORMS = [
    Form("&'x Op", 1, lambda l: "&%s Op" % _lt(l[0]), lambda l: [("opaque", None, l[0])]),
    Form("&Op", 0, lambda l: "&Op", lambda l: []),
    Form("&'x OpL<'y>", 2, lambda l: "&%s OpL<%s>" % (_lt(l[0]), _lt(l[1])),
         lambda l: [("opaque", None, l[0]), ("opaque", None, l[1])], lambda l: [(l[1], l[0])]),
    Form("Option<&'x Op>", 1, lambda l: "Option<&%s Op>" % _lt(l[0]), lambda l: [("opaque", None, l[0])]),
    Form("Option<&'x OpL<'y>>", 2, lambda l: "Option<&%s OpL<%s>>" % (_lt(l[0]), _lt(l[1])),
         lambda l: [("opaque", None, l[0]), ("opaque", None, l[1])], lambda l: [(l[1], l[0])]),
    # an explicit 'static in the generic slot, in front of the lifetime that ties the parameter to the output
    Form("&'x OpL<'static>", 1, lambda l: "&%s OpL<'static>" % _lt(l[0]), lambda l: [("opaque", None, l[0])]),
    Form("&'x [u8]", 1, lambda l: "&%s [u8]" % _lt(l[0]), lambda l: [("slice", None, l[0])]),
    Form("&'x str", 1, lambda l: "&%s str" % _lt(l[0]), lambda l: [("slice", None, l[0])]),
    Form("&'x DiplomatStr16", 1, lambda l: "&%s DiplomatStr16" % _lt(l[0]), lambda l: [("slice", None, l[0])]),
    Form("Option<&'x [u8]>", 1, lambda l: "Option<&%s [u8]>" % _lt(l[0]), lambda l: [("slice", None, l[0])], optional=True),
    Form("SB<'x>", 1, lambda l: "SB<%s>" % _lt(l[0]), lambda l: [("struct", "a", l[0])]),
    Form("S2<'x,'y>", 2, lambda l: "S2<%s, %s>" % (_lt(l[0]), _lt(l[1])),
         lambda l: [("struct", "a", l[0]), ("struct", "b", l[1])]),
    Form("S2b<'x,'y>", 2, lambda l: "S2b<%s, %s>" % (_lt(l[0]), _lt(l[1])),
         lambda l: [("struct", "a", l[0]), ("struct", "b", l[1])], lambda l: [(l[1], l[0])]),
    Form("Option<SB<'x>>", 1, lambda l: "Option<SB<%s>>" % _lt(l[0]), lambda l: [("struct", "a", l[0])], optional=True),
    Form("NestB<'x>", 1, lambda l: "NestB<%s>" % _lt(l[0]), lambda l: [("struct", "a", l[0])]),
    Form("SSl<'x>", 1, lambda l: "SSl<%s>" % _lt(l[0]), lambda l: [("struct", "a", l[0])]),
    Form("Nest2<'x,'y>", 2, lambda l: "Nest2<%s, %s>" % (_lt(l[0]), _lt(l[1])),
         lambda l: [("struct", "a", l[0]), ("struct", "b", l[1])]),
    Form("Option<SSl<'x>>", 1, lambda l: "Option<SSl<%s>>" % _lt(l[0]), lambda l: [("struct", "a", l[0])], optional=True),
    Form("SSl2<'x,'y>", 2, lambda l: "SSl2<%s, %s>" % (_lt(l[0]), _lt(l[1])),
         lambda l: [("struct", "a", l[0]), ("struct", "b", l[1])]),
    # `Self` behind a reference in a non-receiver position (only inside `impl<'y> OpL<'y>`; the second hole is the impl lifetime)
    Form("&'x Self", 2, lambda l: "&%s Self" % _lt(l[0]), lambda l: [("opaque", None, l[0]), ("opaque", None, l[1])], lambda l: [(l[1], l[0])]),
    Form("&'static Op", 0, lambda l: "&'static Op", lambda l: [], static_only=True),
    Form("&'static str", 0, lambda l: "&'static str", lambda l: [], static_only=True),
    Form("u32", 0, lambda l: "u32", lambda l: []),
]
PARAM_FORMS_BY_NAME = {f.name: f for f in PARAM_FORMS}
# structs whose definition implies a bound through a FIELD type (&'a OpL<'b> / Option<&'a OpL<'b>>: 'b: 'a)
SREF_PARAM = Form("SRef<'x,'y>", 2, lambda l: "SRef<%s, %s>" % (_lt(l[0]), _lt(l[1])), lambda l: [("struct", "a", l[0]), ("struct", "b", l[1])],
                  lambda l: [(l[1], l[0])], defsite=True)
SOPTREF_PARAM = Form("SOptRef<'x,'y>", 2, lambda l: "SOptRef<%s, %s>" % (_lt(l[0]), _lt(l[1])), lambda l: [("struct", "a", l[0]), ("struct", "b", l[1])],
                     lambda l: [(l[1], l[0])], defsite=True)
PARAM_FORMS_BY_NAME[SREF_PARAM.name] = SREF_PARAM
PARAM_FORMS_BY_NAME[SOPTREF_PARAM.name] = SOPTREF_PARAM
# forms used by single checks only (not part of the C04 parameter menu): a three-slot struct whose definition-site bound sits on
# the last slot, so that the first two slots can carry the same use-site lifetime
S3_PARAM = Form("S3<'x,'y,'z>", 3, lambda l: "S3<%s, %s, %s>" % (_lt(l[0]), _lt(l[1]), _lt(l[2])),
                lambda l: [("struct", "a", l[0]), ("struct", "b", l[1]), ("struct", "c", l[2])], lambda l: [(l[2], l[1])])
PARAM_FORMS_BY_NAME[S3_PARAM.name] = S3_PARAM

# ---- return forms ---------------------------------------------------------------------------
RET_FORMS = [
    Form("&'r Op", 1, lambda l: "&%s Op" % _lt(l[0]), lambda l: [("opaque", None, l[0])]),
    Form("Box<OpL<'r>>", 1, lambda l: "Box<OpL<%s>>" % _lt(l[0]), lambda l: [("opaque", None, l[0])]),
    Form("&'r OpL<'s>", 2, lambda l: "&%s OpL<%s>" % (_lt(l[0]), _lt(l[1])),
         lambda l: [("opaque", None, l[0]), ("opaque", None, l[1])], lambda l: [(l[1], l[0])]),
    Form("Option<&'r Op>", 1, lambda l: "Option<&%s Op>" % _lt(l[0]), lambda l: [("opaque", None, l[0])]),
    Form("Result<Box<OpL<'r>>, &'s Op>", 2, lambda l: "Result<Box<OpL<%s>>, &%s Op>" % (_lt(l[0]), _lt(l[1])),
         lambda l: [("opaque", None, l[0]), ("opaque", None, l[1])]),
    Form("SB<'r>", 1, lambda l: "SB<%s>" % _lt(l[0]), lambda l: [("struct", "a", l[0])]),
    Form("S2<'r,'s>", 2, lambda l: "S2<%s, %s>" % (_lt(l[0]), _lt(l[1])),
         lambda l: [("struct", "a", l[0]), ("struct", "b", l[1])]),
    Form("S2b<'r,'s>", 2, lambda l: "S2b<%s, %s>" % (_lt(l[0]), _lt(l[1])),
         lambda l: [("struct", "a", l[0]), ("struct", "b", l[1])], lambda l: [(l[1], l[0])]),
    Form("&'r [u8]", 1, lambda l: "&%s [u8]" % _lt(l[0]), lambda l: [("slice", None, l[0])]),
    Form("&'r str", 1, lambda l: "&%s str" % _lt(l[0]), lambda l: [("slice", None, l[0])]),
    Form("OutB<'r,'s>", 2, lambda l: "OutB<%s, %s>" % (_lt(l[0]), _lt(l[1])),
         lambda l: [("struct", "a", l[0]), ("struct", "b", l[1])]),
    Form("Result<u8, S2b<'r,'s>>", 2, lambda l: "Result<u8, S2b<%s, %s>>" % (_lt(l[0]), _lt(l[1])),
         lambda l: [("struct", "a", l[0]), ("struct", "b", l[1])], lambda l: [(l[1], l[0])]),
    Form("Result<S2b<'r,'s>, u8>", 2, lambda l: "Result<S2b<%s, %s>, u8>" % (_lt(l[0]), _lt(l[1])),
         lambda l: [("struct", "a", l[0]), ("struct", "b", l[1])], lambda l: [(l[1], l[0])]),
    # a nullable return of a type whose DEFINITION relates two of its lifetimes
    Form("Option<S2b<'r,'s>>", 2, lambda l: "Option<S2b<%s, %s>>" % (_lt(l[0]), _lt(l[1])),
         lambda l: [("struct", "a", l[0]), ("struct", "b", l[1])], lambda l: [(l[1], l[0])]),
    Form("Result<&'r Op, ()>", 1, lambda l: "Result<&%s Op, ()>" % _lt(l[0]), lambda l: [("opaque", None, l[0])]),
    # unit success: the only lifetime of the return type sits in the error arm
    Form("Result<(), &'r Op>", 1, lambda l: "Result<(), &%s Op>" % _lt(l[0]), lambda l: [("opaque", None, l[0])]),
]

S3_RET = Form("S3<'r,'s,'t>", 3, lambda l: "S3<%s, %s, %s>" % (_lt(l[0]), _lt(l[1]), _lt(l[2])),
              lambda l: [("struct", "a", l[0]), ("struct", "b", l[1]), ("struct", "c", l[2])], lambda l: [(l[2], l[1])])

# ---- self forms: (name, owner type, impl generics builder, self text builder, slots, implied)
SELF_FORMS = [
    ("none", "Op", 0),
    ("&'x self on Op", "Op", 1),
    ("&'x self on OpL<'y>", "OpL", 2),
    ("self: SB<'x>", "SB", 1),
    ("static on OpL<'y>", "OpL", 1),
    # both lifetimes come from the impl header: a bound between them can only be written as a where clause, and a method
    # that uses nothing else has no generic parameter list of its own
    ("self: S2<'x,'y>", "S2", 2),
]


class Sig:
    """One method signature. lifetimes: tuple of names; bounds: frozenset of (longer, shorter)."""

    __slots__ = ("lts", "bounds", "selff", "self_l", "params", "ret", "ret_l", "name")

    def __init__(self, lts, bounds, selff, self_l, params, ret, ret_l):
        self.lts = lts
        self.bounds = bounds
        self.selff = selff
        self.self_l = self_l
        self.params = params  # list of (Form, ltuple)
        self.ret = ret
        self.ret_l = ret_l
        self.name = None

    # lifetimes that come from the impl header rather than the method generics
    def impl_lts(self):
        if self.selff == "&'x self on OpL<'y>":
            return [self.self_l[1]]
        if self.selff in ("self: SB<'x>", "static on OpL<'y>"):
            return [self.self_l[0]]
        if self.selff == "self: S2<'x,'y>":
            return [self.self_l[0], self.self_l[1]]
        return []

    def owner(self):
        return {"none": "Op", "&'x self on Op": "Op", "&'x self on OpL<'y>": "OpL", "self: SB<'x>": "SB", "static on OpL<'y>": "OpL", "self: S2<'x,'y>": "S2"}[self.selff]

    def render_method(self, name):
        impl = self.impl_lts()
        gens = []
        where = []
        for l in self.lts:
            bs = sorted(s for (lo, s) in self.bounds if lo == l)
            if l in impl:
                # a bound on an impl lifetime cannot sit in the method's generics: it goes into a where clause
                if bs:
                    where.append("'%s: %s" % (l, " + ".join("'" + b for b in bs)))
                continue
            gens.append("'%s%s" % (l, (": " + " + ".join("'" + b for b in bs)) if bs else ""))
        args = []
        if self.selff in ("&'x self on Op", "&'x self on OpL<'y>"):
            args.append("&'%s self" % self.self_l[0])
        elif self.selff in ("self: SB<'x>", "self: S2<'x,'y>"):
            args.append("self")
        for i, (f, l) in enumerate(self.params):
            args.append("p%d: %s" % (i, f.text(l)))
        return "pub fn %s%s(%s) -> %s%s { unimplemented!() }" % (
            name, ("<" + ", ".join(gens) + ">") if gens else "", ", ".join(args), self.ret.text(self.ret_l),
            (" where " + ", ".join(where)) if where else "")

    def impl_header(self):
        """impl header text; bounds whose longer side is an impl lifetime can only mention impl lifetimes."""
        o = self.owner()
        impl = self.impl_lts()
        if not impl:
            return "impl %s" % o
        if len(impl) == 2:
            return "impl<'%s, '%s> %s<'%s, '%s>" % (impl[0], impl[1], o, impl[0], impl[1])
        l = impl[0]
        return "impl<'%s> %s<'%s>" % (l, o, l)

    def valid_rust(self):
        """bounds on impl lifetimes cannot be declared in the method generics (they would need a where clause):
        we only generate signatures where no declared bound has an impl lifetime as its longer side."""
        impl = self.impl_lts()
        for f, l in self.params:
            if f.name == "&'x Self" and not (self.owner() == "OpL" and impl and l[1] == impl[0]):
                return False
        return True

    # ---- reference model -------------------------------------------------------------------
    def all_inputs(self):
        """[(param_name, form_name, slots, optional)]"""
        out = []
        if self.selff == "&'x self on Op":
            out.append(("this", "self", [("opaque", None, self.self_l[0])], False))
        elif self.selff == "&'x self on OpL<'y>":
            out.append(("this", "self", [("opaque", None, self.self_l[0]), ("opaque", None, self.self_l[1])], False))
        elif self.selff == "self: SB<'x>":
            out.append(("this", "self", [("struct", "a", self.self_l[0])], False))
        elif self.selff == "self: S2<'x,'y>":
            out.append(("this", "self", [("struct", "a", self.self_l[0]), ("struct", "b", self.self_l[1])], False))
        for i, (f, l) in enumerate(self.params):
            out.append(("p%d" % i, f.name, f.slots(l), f.optional))
        return out

    def implied_bounds(self):
        b = set()
        if self.selff == "&'x self on OpL<'y>":
            b.add((self.self_l[1], self.self_l[0]))
        for f, l in self.params:
            b.update(f.implied(l))
        b.update(self.ret.implied(self.ret_l))
        return {(x, y) for (x, y) in b if x != y}

    def def_site_bounds(self):
        """bounds that come from the *definition* of a used type (S2b<'a, 'b: 'a>), instantiated at each use"""
        b = set()
        for f, l in list(self.params) + [(self.ret, self.ret_l)]:
            if "S2b<" in f.name:
                b.add((l[1], l[0]))
            elif f.name.startswith("S3<"):
                b.add((l[2], l[1]))
            elif f.defsite:
                b.update(f.implied(l))
        return {(x, y) for (x, y) in b if x != y}

    def ref_implied_bounds(self):
        """bounds implied by `&'x T<'y>` occurrences (inserted automatically by the lowerer)"""
        b = set()
        if self.selff == "&'x self on OpL<'y>":
            b.add((self.self_l[1], self.self_l[0]))
        for f, l in list(self.params) + [(self.ret, self.ret_l)]:
            if "S2b<" not in f.name and not f.name.startswith("S3<") and not f.defsite:
                b.update(f.implied(l))
        return {(x, y) for (x, y) in b if x != y}

    def outlives_closure(self, with_implied=True):
        """set of (longer, shorter) pairs, reflexive-transitive closure over declared (and implied) bounds."""
        ls = list(self.lts)
        reach = {(a, a) for a in ls}
        reach |= set(self.bounds)
        if with_implied:
            reach |= self.implied_bounds()
        changed = True
        while changed:
            changed = False
            for (a, b) in list(reach):
                for (c, d) in list(reach):
                    if b == c and (a, d) not in reach:
                        reach.add((a, d))
                        changed = True
        return reach

    def expected_edges(self):
        """{ret lifetime r: set of (param, kind, def_lt)}"""
        reach = self.outlives_closure()
        out = {}
        for (_k, _d, r) in self.ret.slots(self.ret_l):
            exp = set()
            for (pname, _fname, slots, _opt) in self.all_inputs():
                for (kind, d, l) in slots:
                    if (l, r) in reach:
                        exp.add((pname, kind, d))
            out[r] = exp
        return out

    def describe(self):
        return {"lifetimes": list(self.lts), "bounds": sorted("'%s: '%s" % b for b in self.bounds), "self": self.selff,
                "self_lts": list(self.self_l), "params": [f.text(l) for f, l in self.params],
                "ret": self.ret.text(self.ret_l), "text": self.render_method("m")}


def all_bound_sets(lts):
    pairs = [(a, b) for a in lts for b in lts if a != b]
    for k in range(len(pairs) + 1):
        for c in itertools.combinations(pairs, k):
            yield frozenset(c)


def assignments(n, lts):
    return itertools.product(lts, repeat=n)


def enumerate_sigs(lts, self_forms, param_forms, max_params, ret_forms, bound_sets=None, param_tuples=None):
    """Exhaustive enumeration, fixed order (sizes ascending)."""
    lts = tuple(lts)
    bsets = list(bound_sets if bound_sets is not None else all_bound_sets(lts))
    pforms = [PARAM_FORMS_BY_NAME[p] if isinstance(p, str) else p for p in param_forms]
    inst = []
    for f in pforms:
        for l in assignments(f.holes, lts):
            inst.append((f, l))
    for nparams in range(0, max_params + 1):
        if param_tuples is not None:
            ptuples = [t for t in param_tuples if len(t) == nparams]
        else:
            ptuples = list(itertools.product(inst, repeat=nparams))
        for (sname, _owner, sholes) in SELF_FORMS:
            if sname not in self_forms:
                continue
            for sl in assignments(sholes, lts):
                if sname in ("&'x self on OpL<'y>", "self: S2<'x,'y>") and sl[0] == sl[1]:
                    continue  # &'a self on OpL<'a> needs impl and method lifetime to coincide: not expressible
                for pt in ptuples:
                    for rf in ret_forms:
                        for rl in assignments(rf.holes, lts):
                            for bs in bsets:
                                s = Sig(lts, bs, sname, sl, list(pt), rf, rl)
                                if s.valid_rust():
                                    yield s


def pack_sigs(sigs, per_impl=100):
    """Render many signatures into one bridge file. Returns (source, {method_key: sig}).
    Signatures are grouped by impl header; method names are unique per owner type."""
    groups = {}
    for s in sigs:
        groups.setdefault((s.owner(), s.impl_header()), []).append(s)
    parts = ["#[diplomat::bridge]\nmod ffi {", PRELUDE]
    index = {}
    counters = {}
    for (owner, header), ss in groups.items():
        for k in range(0, len(ss), per_impl):
            parts.append("    %s {" % header)
            for s in ss[k:k + per_impl]:
                n = counters.get(owner, 0)
                counters[owner] = n + 1
                name = "m%d" % n
                s.name = name
                index["%s::%s" % (owner, name)] = s
                parts.append("        " + s.render_method(name))
            parts.append("    }")
    parts.append("}")
    return "\n".join(parts), index
