"""Value-model compiler for the FFI boundary: for every type of the bridge grammar it knows
  - the Rust spelling (per position), Rust literals and Rust dump code,
  - the C type name, C initialisers and C dump code,
  - the C++ type, C++ initialisers and C++ dump code,
  - the canonical dump string of a value (the oracle, computed from the *Rust source-level* meaning).

Canonical dump grammar (identical in Rust / C / C++ / Python):
  ints      u8:255  i16:-3  usz:18446744073709551615  b:1  c:1114111  f32:7fc00001 (raw bits, hex)
  enum      e:<i32 discriminant>
  struct    {a=<d>,b=<d>}
  opaque    op#<id>          (the opaque holds a u32 id)
  option    none | some(<d>)
  result    ok(<d>) | err(<d>)     unit = ()
  slice     [<len>:<hex of elements, little endian, element by element>]
"""
import itertools
import struct as _struct

# --------------------------------------------------------------------------------------------- prims


class Ty:
    lifetime = False  # needs a lifetime parameter when named inside a struct definition
    in_param = True
    in_ret = True
    in_field = True

    def key(self):
        return self.rust("param")


class Prim(Ty):
    TABLE = {
        # name: (ctype, cpptype, tag, bits, signed, float, cname for Option/Slice)
        "bool": ("bool", "bool", "b", 8, False, False, "Bool"),
        "u8": ("uint8_t", "uint8_t", "u8", 8, False, False, "U8"),
        "i8": ("int8_t", "int8_t", "i8", 8, True, False, "I8"),
        "u16": ("uint16_t", "uint16_t", "u16", 16, False, False, "U16"),
        "i16": ("int16_t", "int16_t", "i16", 16, True, False, "I16"),
        "u32": ("uint32_t", "uint32_t", "u32", 32, False, False, "U32"),
        "i32": ("int32_t", "int32_t", "i32", 32, True, False, "I32"),
        "u64": ("uint64_t", "uint64_t", "u64", 64, False, False, "U64"),
        "i64": ("int64_t", "int64_t", "i64", 64, True, False, "I64"),
        "usize": ("size_t", "size_t", "usz", 64, False, False, "Usize"),
        "isize": ("intptr_t", "intptr_t", "isz", 64, True, False, "Isize"),
        "f32": ("float", "float", "f32", 32, True, True, "F32"),
        "f64": ("double", "double", "f64", 64, True, True, "F64"),
        "DiplomatChar": ("char32_t", "char32_t", "c", 32, False, False, "Char"),
        "DiplomatByte": ("uint8_t", "uint8_t", "u8", 8, False, False, "U8"),
    }

    def __init__(self, name):
        self.name = name
        (self.ctype, self.cpptype, self.tag, self.bits, self.signed, self.isfloat, self.cname) = self.TABLE[name]

    def rust(self, pos="param"):
        return self.name

    def values(self):
        if self.name == "bool":
            return [0, 1]
        if self.isfloat:
            if self.bits == 32:
                return [0x00000000, 0x80000000, 0x3FC00000, 0x7F800000, 0xFF800000, 0x7FC00001, 0x7FA00001, 0x00000001, 0xC2F6E979]
            return [0x0, 0x8000000000000000, 0x3FF8000000000000, 0x7FF0000000000000, 0xFFF0000000000000, 0x7FF8000000000001,
                    0x7FF4000000000001, 0x1, 0xC05EDD2F1A9FBE77]
        if self.name == "DiplomatChar":
            return [0, 0x41, 0x10FFFF, 0xD800, 0xFFFFFFFF, 0x20AC]
        b = self.bits
        if self.signed:
            mx, mn = (1 << (b - 1)) - 1, -(1 << (b - 1))
            pat = 0x0102030405060708 & ((1 << b) - 1)
            a5 = 0xA5A5A5A5A5A5A5A5 & ((1 << b) - 1)
            a5 = a5 - (1 << b) if a5 > mx else a5
            pat = pat - (1 << b) if pat > mx else pat
            return [0, 1, mx, mn, -1, a5, pat]
        mx = (1 << b) - 1
        return [0, 1, mx, 0xA5A5A5A5A5A5A5A5 & mx, 0x0102030405060708 & mx, 1 << (b - 1)]

    def base(self):
        """a non-zero value used for 'the other fields'"""
        return self.values()[1] if self.name != "bool" else 1

    # ---- python oracle
    def dump(self, v):
        if self.isfloat:
            return "%s:%0*x" % (self.tag, self.bits // 4, v)
        return "%s:%d" % (self.tag, v)

    def le_bytes(self, v):
        n = self.bits // 8
        return (v & ((1 << self.bits) - 1)).to_bytes(n, "little")

    # ---- rust
    def rust_lit(self, v):
        if self.name == "bool":
            return "true" if v else "false"
        if self.isfloat:
            return "%s::from_bits(0x%x)" % (self.name, v)
        if self.name in ("DiplomatChar", "DiplomatByte"):
            return "%du%d" % (v, self.bits)
        if self.signed and v < 0:
            return "(%d%s)" % (v, self.name)
        return "%d%s" % (v, self.name)

    # ---- C
    def c_type(self):
        return self.ctype

    def c_lit(self, v, ctx):
        if self.name == "bool":
            return "true" if v else "false"
        if self.isfloat:
            return "%s_from_bits(0x%xULL)" % ("f32" if self.bits == 32 else "f64", v)
        if self.signed:
            if v == -(1 << (self.bits - 1)):
                return "((%s)(-%dLL - 1))" % (self.ctype, (1 << (self.bits - 1)) - 1)
            return "((%s)%dLL)" % (self.ctype, v)
        return "((%s)%dULL)" % (self.ctype, v)

    def c_dump(self, e):
        if self.isfloat:
            return 'dump_%s(%s);' % ("f32" if self.bits == 32 else "f64", e)
        if self.signed:
            return 'printf("%s:%%lld", (long long)(%s));' % (self.tag, e)
        return 'printf("%s:%%llu", (unsigned long long)(%s));' % (self.tag, e)

    # ---- C++
    def cpp_type(self):
        return self.cpptype

    def cpp_lit(self, v, ctx):
        return self.c_lit(v, ctx)

    def cpp_dump(self, e):
        return self.c_dump(e)


PRIM_NAMES = ["bool", "u8", "i8", "u16", "i16", "u32", "i32", "u64", "i64", "usize", "isize", "f32", "f64", "DiplomatChar", "DiplomatByte"]


class Enum(Ty):
    def __init__(self, name, variants, attrs="", cpp_name=None):
        self.name = name
        self.variants = variants  # [(Name, disc)]
        self.attrs = attrs
        self.cpp_name = cpp_name or name

    def rust(self, pos="param"):
        return self.name

    def decl(self):
        # discriminants that Rust would assign anyway (previous + 1, or 0 for the first) are left implicit: the AST has to
        # continue the count after an explicit one exactly as rustc does
        parts, prev = [], -1
        for (n, d) in self.variants:
            parts.append(n if d == prev + 1 else "%s = %d" % (n, d))
            prev = d
        return "%s    pub enum %s { %s }" % (self.attrs, self.name, ", ".join(parts))

    def values(self):
        return list(range(len(self.variants)))

    def base(self):
        return len(self.variants) - 1

    def dump(self, v):
        return "e:%d" % self.variants[v][1]

    def rust_lit(self, v):
        return "%s::%s" % (self.name, self.variants[v][0])

    def c_type(self):
        return self.name

    def c_lit(self, v, ctx):
        return "%s_%s" % (self.name, self.variants[v][0])

    def c_dump(self, e):
        return 'printf("e:%%d", (int)(%s));' % e

    def cpp_type(self):
        return self.cpp_name

    def cpp_lit(self, v, ctx):
        return "%s(%s::%s)" % (self.cpp_name, self.cpp_name, self.variants[v][0])

    def cpp_dump(self, e):
        return 'printf("e:%%d", (int)((%s).AsFFI()));' % e


class Struct(Ty):
    """fields: [(name, Ty)]. Values are tuples of field values."""

    def __init__(self, name, fields, out=False, attrs="", cpp_name=None):
        self.name = name
        self.fields = fields
        self.out = out
        self.attrs = attrs
        self.cpp_name = cpp_name or name
        self.lifetime = any(t.lifetime for _, t in fields)
        if out:
            self.in_param = False
            self.in_field = False

    def rust(self, pos="param"):
        if self.lifetime:
            return self.name + ("<'a>" if pos in ("field", "ret") else "")
        return self.name

    def decl(self):
        lt = "<'a>" if self.lifetime else ""
        return "%s%s    pub struct %s%s { %s }" % (self.attrs, "    #[diplomat::out]\n" if self.out else "", self.name, lt,
                                                 ", ".join("pub %s: %s" % (n, t.rust("field")) for n, t in self.fields))

    def values(self):
        """each field's full alphabet with the others at base + the product of the two most different values per field (capped)"""
        bases = [t.base() for _, t in self.fields]
        out = []
        seen = set()

        def add(v):
            k = repr(v)
            if k not in seen:
                seen.add(k)
                out.append(v)
        add(tuple(bases))
        for i, (_, t) in enumerate(self.fields):
            for v in t.values():
                x = list(bases)
                x[i] = v
                add(tuple(x))
        two = []
        for _, t in self.fields:
            vs = t.values()
            two.append([vs[0], vs[min(2, len(vs) - 1)]])
        for combo in itertools.islice(itertools.product(*two), 16):
            add(tuple(combo))
        return out[:64]

    def base(self):
        return tuple(t.base() for _, t in self.fields)

    def dump(self, v):
        return "{" + ",".join("%s=%s" % (n, t.dump(x)) for (n, t), x in zip(self.fields, v)) + "}"

    def rust_lit(self, v):
        return "%s { %s }" % (self.name, ", ".join("%s: %s" % (n, t.rust_field_lit(x) if isinstance(t, Slice) else t.rust_lit(x))
                                                   for (n, t), x in zip(self.fields, v)))

    def c_type(self):
        return self.name

    def c_lit(self, v, ctx):
        return "(%s){ %s }" % (self.name, ", ".join(".%s = %s" % (n, t.c_lit(x, ctx)) for (n, t), x in zip(self.fields, v)))

    def c_dump(self, e):
        parts = ['printf("{");']
        for i, (n, t) in enumerate(self.fields):
            parts.append('printf("%s%s=");' % ("," if i else "", n))
            parts.append(t.c_dump("(%s).%s" % (e, n)))
        parts.append('printf("}");')
        return " ".join(parts)

    def cpp_type(self):
        return self.cpp_name

    def cpp_lit(self, v, ctx):
        return "%s{ %s }" % (self.cpp_name, ", ".join(t.cpp_lit(x, ctx) for (n, t), x in zip(self.fields, v)))

    def cpp_dump(self, e):
        parts = ['printf("{");']
        for i, (n, t) in enumerate(self.fields):
            parts.append('printf("%s%s=");' % ("," if i else "", n))
            parts.append(t.cpp_dump("(%s).%s" % (e, n)))
        parts.append('printf("}");')
        return " ".join(parts)


class OpaqueRef(Ty):
    """&Op / &mut Op / Option<&Op>. Value: opaque id (int) or None."""
    lifetime = True

    def __init__(self, mut=False, optional=False):
        self.mut = mut
        self.optional = optional

    def rust(self, pos="param"):
        lt = "'a " if pos in ("field", "ret") else ""
        r = "&%s%sOp" % (lt, "mut " if self.mut else "")
        return "Option<%s>" % r if self.optional else r

    def values(self):
        return ([None] if self.optional else []) + [7, 4000000000]

    def base(self):
        return 7

    def dump(self, v):
        if self.optional:
            return "none" if v is None else "some(op#%d)" % v
        return "op#%d" % v

    def rust_lit(self, v):
        # returned / stored references point at leaked boxes
        if v is None:
            return "None"
        r = "&*Box::leak(Box::new(Op(%du32)))" % v if not self.mut else "Box::leak(Box::new(Op(%du32)))" % v
        return "Some(%s)" % r if self.optional else r

    def c_type(self):
        return "Op*" if self.mut else "const Op*"

    def c_lit(self, v, ctx):
        if v is None:
            return "NULL"
        return ctx.opaque(v)

    def c_dump(self, e):
        if self.optional:
            return 'if ((%s) == NULL) printf("none"); else printf("some(op#%%u)", (unsigned)Op_id(%s));' % (e, e)
        return 'printf("op#%%u", (unsigned)Op_id(%s));' % e

    def cpp_type(self):
        if self.optional:
            return "Op*" if self.mut else "const Op*"
        return "Op&" if self.mut else "const Op&"

    def cpp_lit(self, v, ctx):
        if v is None:
            return "nullptr"
        return ctx.opaque(v) if self.optional else "*" + ctx.opaque(v)

    def cpp_dump(self, e):
        if self.optional:
            return 'if ((%s) == nullptr) printf("none"); else printf("some(op#%%u)", (unsigned)(%s)->id());' % (e, e)
        return 'printf("op#%%u", (unsigned)(%s).id());' % e


class OpaqueBox(Ty):
    """Box<Op> / Option<Box<Op>>: return and out-struct field only."""
    in_param = False

    def __init__(self, optional=False):
        self.optional = optional

    def rust(self, pos="ret"):
        return "Option<Box<Op>>" if self.optional else "Box<Op>"

    def values(self):
        return ([None] if self.optional else []) + [9, 123456789]

    def base(self):
        return 9

    def dump(self, v):
        if self.optional:
            return "none" if v is None else "some(op#%d)" % v
        return "op#%d" % v

    def rust_lit(self, v):
        if v is None:
            return "None"
        return ("Some(Box::new(Op(%du32)))" if self.optional else "Box::new(Op(%du32))") % v

    def c_type(self):
        return "Op*"

    def c_dump(self, e):
        if self.optional:
            return 'if ((%s) == NULL) printf("none"); else { printf("some(op#%%u)", (unsigned)Op_id(%s)); Op_destroy(%s); }' % (e, e, e)
        return 'printf("op#%%u", (unsigned)Op_id(%s)); Op_destroy(%s);' % (e, e)

    def cpp_type(self):
        return "std::unique_ptr<Op>"

    def cpp_dump(self, e):
        if self.optional:
            return 'if (!(%s)) printf("none"); else printf("some(op#%%u)", (unsigned)(%s)->id());' % (e, e)
        return 'printf("op#%%u", (unsigned)(%s)->id());' % e


class Slice(Ty):
    """kind: 'ref' (&[T]), 'mut' (&mut [T]), 'box' (Box<[T]>), 'field' (DiplomatSlice<'a,T>); enc: None or str|DiplomatStr|DiplomatStr16.
    Value: ('null',) | tuple of element values."""

    def __init__(self, elem, kind="ref", enc=None):
        self.elem = elem
        self.kind = kind
        self.enc = enc
        self.lifetime = kind != "box"
        if kind == "box":
            self.in_ret = False  # owned slices cannot be returned
        if kind == "mut":
            self.in_ret = False

    def rust(self, pos="param"):
        lt = "'a " if pos in ("field", "ret") else ""
        if pos == "field":
            if self.enc == "str":
                return "DiplomatUtf8StrSlice<'a>"
            if self.enc == "DiplomatStr":
                return "DiplomatStrSlice<'a>"
            if self.enc == "DiplomatStr16":
                return "DiplomatStr16Slice<'a>"
            if self.kind == "mut":
                return "DiplomatSliceMut<'a, %s>" % self.elem.name
            if self.kind == "box":
                return "DiplomatOwnedSlice<%s>" % self.elem.name
            return "DiplomatSlice<'a, %s>" % self.elem.name
        inner = self.enc if self.enc else "[%s]" % self.elem.name
        if self.kind == "box":
            return "Box<%s>" % inner
        return "&%s%s%s" % (lt, "mut " if self.kind == "mut" else "", inner)

    def values(self):
        ev = self.elem.values()
        if self.enc == "str":
            vals = [(), tuple(b"A"), tuple("aé€\U0001d11e".encode("utf8")), tuple(b"xyz")]
            return [("null",)] + vals
        if self.enc == "DiplomatStr":
            return [("null",), (), (0x41,), (0xFF, 0xC0, 0x80), tuple("€".encode("utf8"))]
        if self.enc == "DiplomatStr16":
            return [("null",), (), (0x41,), (0xD800, 0x0041, 0xDC00), (0xFFFF, 0x20AC)]
        return [("null",), (), (ev[1 % len(ev)],), tuple(ev[i % len(ev)] for i in (2, 0, 3))]

    def base(self):
        return self.values()[2]

    def dump(self, v):
        if v == ("null",):
            return "[0:]"
        return "[%d:%s]" % (len(v), "".join(self.elem.le_bytes(x).hex() for x in v))

    def rust_lit(self, v):
        # returned borrowed slices point at static data
        vals = [] if v == ("null",) else list(v)
        if self.enc == "str":
            return '"%s"' % "".join("\\u{%x}" % ord(ch) for ch in bytes(vals).decode("utf8"))
        t = self.elem.name
        return "{ static D: [%s; %d] = [%s]; &D[..] }" % (t, len(vals), ", ".join(self.elem.rust_lit(x) for x in vals))

    def rust_field_lit(self, v):
        # DiplomatSlice etc. in struct fields
        return "(%s).into()" % self.rust_lit(v)

    def c_view(self):
        if self.enc in ("str", "DiplomatStr"):
            return "DiplomatStringView"
        if self.enc == "DiplomatStr16":
            return "DiplomatString16View"
        return "Diplomat%sView%s" % (self.elem.cname, "Mut" if self.kind in ("mut", "box") else "")

    def c_type(self):
        return self.c_view()

    def c_elem(self):
        if self.enc in ("str", "DiplomatStr"):
            return "char"
        if self.enc == "DiplomatStr16":
            return "char16_t"
        return self.elem.ctype

    def c_lit(self, v, ctx):
        if v == ("null",):
            return "(%s){ NULL, 0 }" % self.c_view()
        if self.kind == "box":
            # owned: allocate with diplomat_alloc so that Rust can free it
            name = ctx.owned_array(self.c_elem(), [self.elem.c_lit(x, ctx) for x in v], self.elem.bits // 8)
        else:
            name = ctx.array(self.c_elem(), [self.elem.c_lit(x, ctx) for x in v], const=self.kind not in ("mut",))
        return "(%s){ %s, %d }" % (self.c_view(), name, len(v))

    def c_dump(self, e):
        return "dump_slice((const unsigned char*)(%s).data, (%s).len, %d);" % (e, e, self.elem.bits // 8)

    def cpp_type(self):
        if self.enc == "str" or self.enc == "DiplomatStr":
            return "std::string_view"
        if self.enc == "DiplomatStr16":
            return "std::u16string_view"
        return "diplomat::span<%s%s>" % ("" if self.kind in ("mut", "box") else "const ", self.elem.cpptype)

    def cpp_lit(self, v, ctx):
        if v == ("null",):
            return "%s()" % self.cpp_type()
        if self.kind == "box":
            name = ctx.owned_array(self.c_elem(), [self.elem.c_lit(x, ctx) for x in v], self.elem.bits // 8)
        else:
            name = ctx.array(self.c_elem(), [self.elem.c_lit(x, ctx) for x in v], const=self.kind not in ("mut",))
        return "%s(%s, %d)" % (self.cpp_type(), name, len(v))

    def cpp_dump(self, e):
        return "dump_slice((const unsigned char*)(%s).data(), (%s).size(), %d);" % (e, e, self.elem.bits // 8)


class Opt(Ty):
    """Option<T> / DiplomatOption<T> of prim / enum / struct / slice. Value: None or inner value."""

    def __init__(self, inner, spelling="std"):
        self.inner = inner
        self.spelling = spelling
        self.lifetime = inner.lifetime
        if spelling == "std":
            self.in_field = False

    def rust(self, pos="param"):
        w = "Option" if self.spelling == "std" else "DiplomatOption"
        return "%s<%s>" % (w, self.inner.rust(pos))

    def values(self):
        return [None] + list(self.inner.values())

    def base(self):
        return self.inner.base()

    def dump(self, v):
        return "none" if v is None else "some(%s)" % self.inner.dump(v)

    def rust_lit(self, v):
        if self.spelling == "std":
            return "None" if v is None else "Some(%s)" % self.inner.rust_lit(v)
        return "None.into()" if v is None else "Some(%s).into()" % self.inner.rust_lit(v)

    def c_type(self):
        i = self.inner
        if isinstance(i, Prim):
            return "Option" + i.cname
        if isinstance(i, Slice):
            return "Option" + i.c_view().replace("Diplomat", "")
        return i.name + "_option"

    def c_lit(self, v, ctx):
        if v is None:
            return "(%s){ .is_ok = false }" % self.c_type()
        return "(%s){ .ok = %s, .is_ok = true }" % (self.c_type(), self.inner.c_lit(v, ctx))

    def c_dump(self, e):
        return 'if ((%s).is_ok) { printf("some("); %s printf(")"); } else printf("none");' % (e, self.inner.c_dump("(%s).ok" % e))

    def cpp_type(self):
        return "std::optional<%s>" % self.inner.cpp_type()

    def cpp_lit(self, v, ctx):
        if v is None:
            return "std::nullopt"
        return "%s(%s)" % (self.cpp_type(), self.inner.cpp_lit(v, ctx))

    def cpp_dump(self, e):
        return 'if ((%s).has_value()) { printf("some("); %s printf(")"); } else printf("none");' % (e, self.inner.cpp_dump("(*(%s))" % e))


class Unit(Ty):
    def rust(self, pos="ret"):
        return "()"

    def values(self):
        return [()]

    def dump(self, v):
        return "()"

    def rust_lit(self, v):
        return "()"


class Result(Ty):
    """Result<T,E> (return only). Value: ('ok', v) | ('err', v)."""
    in_param = False
    in_field = False

    def __init__(self, ok, err):
        self.ok = ok
        self.err = err
        self.lifetime = ok.lifetime or err.lifetime

    def rust(self, pos="ret"):
        return "Result<%s, %s>" % (self.ok.rust(pos), self.err.rust(pos))

    def values(self):
        return [("ok", v) for v in self.ok.values()] + [("err", v) for v in self.err.values()]

    def dump(self, v):
        t = self.ok if v[0] == "ok" else self.err
        return "%s(%s)" % (v[0], t.dump(v[1]))

    def rust_lit(self, v):
        t = self.ok if v[0] == "ok" else self.err
        return "%s(%s)" % ("Ok" if v[0] == "ok" else "Err", t.rust_lit(v[1]))

    def c_dump(self, e):
        okd = 'printf("()");' if isinstance(self.ok, Unit) else self.ok.c_dump("(%s).ok" % e)
        errd = 'printf("()");' if isinstance(self.err, Unit) else self.err.c_dump("(%s).err" % e)
        return 'if ((%s).is_ok) { printf("ok("); %s printf(")"); } else { printf("err("); %s printf(")"); }' % (e, okd, errd)

    def cpp_dump(self, e):
        # a borrowed opaque arm is a reference: ok() / err() hand out optional<reference_wrapper<const Op>>
        deref = lambda t, v: ("(*%s).get()" % v) if (isinstance(t, OpaqueRef) and not t.optional) else "(*%s)" % v
        okd = 'printf("()");' if isinstance(self.ok, Unit) else "auto okv = std::move(%s).ok(); %s" % (e, self.ok.cpp_dump(deref(self.ok, "okv")))
        errd = 'printf("()");' if isinstance(self.err, Unit) else "auto errv = std::move(%s).err(); %s" % (e, self.err.cpp_dump(deref(self.err, "errv")))
        return 'if ((%s).is_ok()) { printf("ok("); %s printf(")"); } else { printf("err("); %s printf(")"); }' % (e, okd, errd)


class NullableRet(Ty):
    """top-level `-> Option<T>` for non-pointer T (nullable return). Value: None | v"""
    in_param = False
    in_field = False

    def __init__(self, inner, spelling="std"):
        self.inner = inner
        self.spelling = spelling
        self.lifetime = inner.lifetime

    def rust(self, pos="ret"):
        return "%s<%s>" % ("Option" if self.spelling == "std" else "DiplomatOption", self.inner.rust(pos))

    def values(self):
        return [None] + list(self.inner.values())

    def dump(self, v):
        if v is None:
            return "none"
        return "some(%s)" % self.inner.dump(v)

    def rust_lit(self, v):
        tail = "" if self.spelling == "std" else ".into()"
        return ("None" if v is None else "Some(%s)" % self.inner.rust_lit(v)) + tail

    def c_dump(self, e):
        inner = 'printf("()");' if isinstance(self.inner, Unit) else self.inner.c_dump("(%s).ok" % e)
        return 'if ((%s).is_ok) { printf("some("); %s printf(")"); } else printf("none");' % (e, inner)

    def cpp_dump(self, e):
        if isinstance(self.inner, Unit):
            return 'if ((%s).has_value()) printf("some(())"); else printf("none");' % e
        return 'if ((%s).has_value()) { printf("some("); %s printf(")"); } else printf("none");' % (e, self.inner.cpp_dump("(*(%s))" % e))


# --------------------------------------------------------------------------------------------- universes

def prims():
    return [Prim(n) for n in PRIM_NAMES]


EN = Enum("En", [("A", 7), ("B", 1), ("C", 2)])   # non-monotonic; B and C sit at their own position (value == index) behind a larger predecessor; C is implicit
EN1 = Enum("En1", [("Only", 0)])   # a single variant: still a 4-byte repr(C) enum on the wire
ENN = Enum("EnN", [("N", -2147483648), ("M", -2), ("Z", 0), ("P", 7), ("X", 2147483647)])
ST = Struct("St", [("a", Prim("u8")), ("b", Prim("u32"))])


def struct_universe(tier):
    """named struct definitions exercising layouts: all ordered field tuples (<=2 quick / <=3 thorough) over a field alphabet"""
    quick_alpha = [Prim("u8"), Prim("i16"), Prim("u32"), Prim("u64"), Prim("f32"), Prim("f64"), Prim("bool"), EN]
    out = []
    k = 0
    alpha = quick_alpha
    for n in (1, 2):
        for combo in itertools.product(alpha, repeat=n):
            out.append(Struct("L%d" % k, [("f%d" % i, t) for i, t in enumerate(combo)]))
            k += 1
    if tier == "thorough":
        alpha3 = [Prim("u8"), Prim("i16"), Prim("u32"), Prim("u64"), Prim("f64"), Prim("bool")]
        for combo in itertools.product(alpha3, repeat=3):
            out.append(Struct("L%d" % k, [("f%d" % i, t) for i, t in enumerate(combo)]))
            k += 1
    return out


def special_structs():
    nest = Struct("Nest", [("s", ST), ("e", EN), ("f", Prim("f64")), ("t", Prim("i8"))])
    nest2 = Struct("Nest2", [("x", Prim("u8")), ("n", nest), ("y", Prim("u16"))])
    withopt = Struct("WOpt", [("a", Opt(Prim("u8"), "diplomat")), ("b", Opt(Prim("u64"), "diplomat")), ("c", Opt(EN, "diplomat")), ("d", Opt(ST, "diplomat")), ("e", Prim("u8"))])
    withsl = Struct("WSl", [("s", Slice(Prim("u8"), "ref")), ("t", Slice(Prim("u16"), "ref", "DiplomatStr16")), ("u", Slice(Prim("u8"), "ref", "str")), ("k", Prim("i8"))])
    withop = Struct("WOp", [("r", OpaqueRef()), ("q", OpaqueRef(optional=True)), ("n", Prim("u16"))])
    withneg = Struct("WNeg", [("e", ENN), ("z", Prim("i64")), ("c", Prim("DiplomatChar"))])
    outst = Struct("OutSt", [("b", OpaqueBox()), ("o", OpaqueBox(optional=True)), ("n", Prim("i32"))], out=True)
    # fields whose names start with an underscore (reserved / padding fields of a C struct carried over)
    withund = Struct("WUnd", [("a", Prim("u8")), ("_b", Prim("u8")), ("c", Prim("u8")), ("_pad", Prim("u16")), ("e", Prim("u32")), ("_z", Prim("u32"))])
    # a struct marked as an error type that also travels by value as a parameter and as a plain return value
    witherr = Struct("WErr", [("code", Prim("u8")), ("n", Prim("u32"))], attrs="    #[diplomat::attr(auto, error)]\n")
    return [ST, nest, nest2, withopt, withsl, withop, withneg, outst, withund, witherr]


def rust_ffi_type(t):
    """Rust spelling of the FFI-level type of a return arm (None if not handled)"""
    if isinstance(t, Unit):
        return "()"
    if isinstance(t, Prim):
        return {"DiplomatChar": "u32", "DiplomatByte": "u8"}.get(t.name, t.name)
    if isinstance(t, (Enum, Struct)):
        return None if t.lifetime else "crate::ffi::" + t.name
    if isinstance(t, OpaqueBox) and not t.optional:
        return "Box<crate::ffi::Op>"
    if isinstance(t, NullableRet):
        i = rust_ffi_type(t.inner)
        return None if i is None else "diplomat_runtime::DiplomatOption<%s>" % i
    if isinstance(t, Result):
        a, b = rust_ffi_type(t.ok), rust_ffi_type(t.err)
        return None if a is None or b is None else "diplomat_runtime::DiplomatResult<%s, %s>" % (a, b)
    return None
