"""Bridge grammar G: type expressions, positions, single-focus programs and the documentation-derived
reference gate spec(position, type) in {ACCEPT, REJECT, UNSPEC}.

Type terms are tuples:
  ("prim", name) ("named", N) ("ref", mut, t) ("box", t) ("opt", t) ("dopt", t) ("res", ok, err)
  ("unit",) ("ordering",) ("write",) ("slice", prim) ("str", enc) ("cb", mut, (params...), ret) ("ffi", spelling, cls)
"""
import itertools

PRIMS = ["bool", "u8", "i8", "u16", "i16", "u32", "i32", "u64", "i64", "usize", "isize", "f32", "f64",
         "DiplomatChar", "DiplomatByte", "char"]
PRIMS128 = ["i128", "u128"]
STRUCTS = ["St", "Nest", "SB"]
OPAQUES = ["Op", "OpL"]
NAMED = ["En", "St", "Nest", "SB", "OutSt", "Zst", "Op", "OpL"]
STRS = ["str", "DiplomatStr", "DiplomatStr16"]

PRELUDE = """
    #[diplomat::opaque]
    pub struct Op(u8);
    #[diplomat::opaque]
    pub struct OpL<'a>(&'a u8);
    pub enum En { A, B, C }
    pub struct St { pub a: u8, pub b: u32 }
    pub struct Nest { pub s: St, pub e: En, pub f: f64 }
    pub struct SB<'a> { pub r: &'a Op }
    pub struct SB2<'a, 'b> { pub x: SB<'a>, pub y: SB<'b> }
    #[diplomat::out]
    pub struct OutSt { pub b: Box<Op>, pub n: i32 }
    pub struct Zst {}
"""


def P(n):
    return ("prim", n)


def N(n):
    return ("named", n)


def has_lt(t):
    k = t[0]
    if k == "named":
        return t[1] in ("SB", "OpL")
    if k == "ref":
        return True
    if k in ("box", "opt", "dopt"):
        return has_lt(t[1])
    if k == "res":
        return has_lt(t[1]) or has_lt(t[2])
    if k == "cb":
        return False  # callback parameter references use anonymous lifetimes
    if k == "ffi":
        return "'a" in t[1]
    return False


def render(t, lt="'a", in_cb=False):
    """Rust source. lt: lifetime text used for every lifetime hole ('a), or '' for elision."""
    k = t[0]
    sp = (lt + " ") if lt else ""
    if k == "prim":
        return t[1]
    if k == "named":
        if t[1] in ("SB", "OpL"):
            return "%s<%s>" % (t[1], lt) if lt else t[1]
        return t[1]
    if k == "ref":
        m = "mut " if t[1] else ""
        if in_cb:
            return "&%s%s" % (m, render(t[2], "", True))
        return "&%s%s%s" % (sp, m, render(t[2], lt))
    if k == "box":
        return "Box<%s>" % render(t[1], lt, in_cb)
    if k == "opt":
        return "Option<%s>" % render(t[1], lt, in_cb)
    if k == "dopt":
        return "DiplomatOption<%s>" % render(t[1], lt, in_cb)
    if k == "res":
        return "Result<%s, %s>" % (render(t[1], lt, in_cb), render(t[2], lt, in_cb))
    if k == "unit":
        return "()"
    if k == "ordering":
        return "core::cmp::Ordering"
    if k == "write":
        return "DiplomatWrite"
    if k == "slice":
        return "[%s]" % t[1]
    if k == "str":
        return t[1]
    if k == "cb":
        return "impl %s(%s)%s" % ("FnMut" if t[1] else "Fn", ", ".join(render(p, "", True) for p in t[2]),
                                  "" if t[3] == ("unit",) else " -> " + render(t[3], "", True))
    if k == "ffi":
        return t[1] if lt else t[1].replace("<'a, ", "<").replace("<'a>", "")
    raise ValueError(t)


# ---------------------------------------------------------------------------------------------
# universe


def atoms(with128=True):
    a = [P(p) for p in PRIMS]
    if with128:
        a += [P(p) for p in PRIMS128]
    a += [N(n) for n in NAMED]
    a += [("unit",), ("ordering",)]
    return a


def pointer_types():
    out = []
    for n in ["Op", "OpL", "St", "En", "SB", "OutSt", "Zst"]:
        out += [("ref", False, N(n)), ("ref", True, N(n)), ("box", N(n))]
    out += [("ref", False, P("u8")), ("box", P("u8")), ("ref", False, P("f64"))]
    for p in PRIMS[:15]:
        out += [("ref", False, ("slice", p)), ("ref", True, ("slice", p)), ("box", ("slice", p))]
    for s in STRS:
        out += [("ref", False, ("str", s)), ("box", ("str", s))]
    out += [("ref", True, ("write",))]
    return out


FFI_SPELLINGS = [
    ("ffi", "DiplomatSlice<'a, u8>", "bslice"), ("ffi", "DiplomatSlice<'a, f64>", "bslice"), ("ffi", "DiplomatSliceMut<'a, u16>", "bslice_mut"),
    ("ffi", "DiplomatStrSlice<'a>", "bslice"), ("ffi", "DiplomatStr16Slice<'a>", "bslice"), ("ffi", "DiplomatUtf8StrSlice<'a>", "bslice"),
    ("ffi", "DiplomatOwnedSlice<u8>", "oslice"), ("ffi", "DiplomatOwnedStrSlice", "oslice"), ("ffi", "DiplomatOwnedUTF8StrSlice", "oslice"),
]

CALLBACKS = [
    ("cb", False, (), ("unit",)),
    ("cb", False, (P("u8"),), ("unit",)),
    ("cb", True, (P("i32"), P("f64")), P("u16")),
    ("cb", False, (N("En"),), P("bool")),
    ("cb", False, (N("St"),), N("St")),
    ("cb", False, (("ref", False, N("Op")),), ("unit",)),
    ("cb", False, (("res", P("u8"), ("unit",)),), ("unit",)),
    ("cb", False, (), ("res", P("u8"), ("unit",))),
    ("cb", False, (("ref", True, ("write",)),), ("unit",)),
    ("cb", False, (N("Op"),), ("unit",)),
    ("cb", False, (("box", N("Op")),), ("unit",)),
    ("cb", False, (("opt", P("u8")),), ("unit",)),
]


def universe(depth=3):
    d1 = atoms() + pointer_types() + FFI_SPELLINGS + CALLBACKS
    if depth <= 1:
        return d1
    d2 = []
    for t in atoms() + pointer_types() + FFI_SPELLINGS:
        d2 += [("opt", t), ("dopt", t)]
    small = [("unit",), P("u8"), P("f64"), N("En"), N("St"), N("SB"), N("OutSt"), N("Zst"), N("Op"), ("box", N("Op")), ("ref", False, N("Op")),
             ("ref", False, ("str", "str")), ("box", ("slice", "u8")), ("ref", False, N("St")), ("ref", True, ("write",)), ("opt", P("u8"))]
    res2 = [("res", a, b) for a in small for b in small]
    if depth == 2:
        return d1 + d2 + res2
    d3 = []
    for t in d2:
        if t[1][0] in ("prim",) and t[1][1] not in ("u8", "f64", "bool"):
            continue  # depth-3 wrappers over a reduced primitive alphabet
        d3 += [("opt", t), ("dopt", t), ("box", t)]
    for r in [("res", P("u8"), ("unit",)), ("res", ("box", N("Op")), N("En")), ("res", ("unit",), ("unit",))]:
        d3 += [("opt", r), ("box", r), ("ref", False, r), ("res", r, ("unit",)), ("res", ("unit",), r), ("dopt", r)]
    return d1 + d2 + res2 + d3


# ---------------------------------------------------------------------------------------------
# classification helpers


def is_prim(t):
    return t[0] == "prim" and t[1] not in PRIMS128


def is_enum(t):
    return t == N("En")


def is_struct(t):
    return t[0] == "named" and t[1] in STRUCTS


def is_structlike(t):
    return t[0] == "named" and t[1] in STRUCTS + ["OutSt", "Zst"]


def is_opaque_named(t):
    return t[0] == "named" and t[1] in OPAQUES


def is_opaque_ref(t):
    return t[0] == "ref" and is_opaque_named(t[2])


def is_opaque_box(t):
    return t[0] == "box" and is_opaque_named(t[1])


def is_bslice(t):
    """borrowed slice/string, std spelling"""
    return t[0] == "ref" and t[2][0] in ("slice", "str") and not (t[1] and t[2][0] == "str")


def is_oslice(t):
    return t[0] == "box" and t[1][0] in ("slice", "str")


def subterms(t, under=None):
    """yield (term, parent_kind)"""
    yield t, under
    k = t[0]
    if k == "ref":
        yield from subterms(t[2], "ref")
    elif k in ("box", "opt", "dopt"):
        yield from subterms(t[1], k)
    elif k == "res":
        yield from subterms(t[1], "res")
        yield from subterms(t[2], "res")
    elif k == "cb":
        for p in t[2]:
            yield from subterms(p, "cbparam")
        yield from subterms(t[3], "cbret")


# positions
POSITIONS = ["param", "param_first", "param_last", "ret", "field", "outfield", "cbparam", "cbret"]
INPUT_POS = ("param", "param_first", "param_last", "field")


def _value_ok(t):
    """prim / enum / struct payloads"""
    return is_prim(t) or is_enum(t) or is_struct(t)


def spec(pos, t):
    """Reference gate from the documentation and the property statement. Returns (verdict, rule)."""
    # ---------------- MUST_REJECT: the rules spelled out in the property statement ----------------
    for (s, parent) in subterms(t):
        if is_opaque_named(s) and parent not in ("ref", "box"):
            return "REJECT", "R1 opaque by value"
        if s[0] in ("ref", "box") and is_structlike(s[2] if s[0] == "ref" else s[1]):
            return "REJECT", "R3 reference to / box of a struct"
        if s[0] == "res":
            top_ret = (pos == "ret" and parent is None)
            if not top_ret:
                return "REJECT", "R4 Result not at top-level return"
        if s[0] == "write":
            pass
    def walk(x, inp):
        yield x, inp
        k = x[0]
        if k == "ref":
            yield from walk(x[2], inp)
        elif k in ("box", "opt", "dopt"):
            yield from walk(x[1], inp)
        elif k == "res":
            yield from walk(x[1], inp)
            yield from walk(x[2], inp)
        elif k == "cb":
            # callback parameters travel Rust -> foreign code (outputs); its return value travels into Rust, which the
            # documents do not pin down
            for q in x[2]:
                yield from walk(q, False)
            yield from walk(x[3], None)

    for (s, inp) in walk(t, True if pos in INPUT_POS else (None if pos == "cbret" else False)):  # cbparam is an output
        if inp and s[0] != "cb":
            if is_opaque_box(s):
                return "REJECT", "R2 owned opaque in input"
            if s == N("OutSt"):
                return "REJECT", "R2 out-struct in input"
    if pos in ("field", "outfield"):
        for (s, parent) in subterms(t):
            if s[0] == "opt" and (_value_ok(s[1]) or s[1][0] == "ffi"):
                # (the diplomat_runtime slice types are plain repr(C) structs, not pointers)
                return "REJECT", "R5 std Option of non-pointer in struct field"
        for (s, parent) in subterms(t):
            if is_bslice(s) or is_oslice(s) or (s[0] == "ref" and s[2][0] in ("slice", "str")):
                return "REJECT", "R6 non-FFI-safe slice spelling in struct field"
    # DiplomatWrite: only as last parameter
    has_write = any(s[0] == "write" for s, _ in subterms(t))
    if has_write:
        if t == ("ref", True, ("write",)) and pos in ("param", "param_last"):
            return "ACCEPT", "A write last"
        return "REJECT", "R7 DiplomatWrite not as last parameter"
    if pos in ("param", "param_first", "param_last"):
        if t == N("Zst") or (t[0] in ("opt", "dopt") and t[1] == N("Zst")):
            return "REJECT", "R8 zero-sized struct argument"
    # ---------------- MUST_ACCEPT: shapes the book documents ----------------
    if pos in ("param", "param_first", "param_last"):
        if _value_ok(t) or is_opaque_ref(t) or is_bslice(t):
            return "ACCEPT", "A param value/ref/slice"
        if t[0] == "opt" and (is_opaque_ref(t[1]) or _value_ok(t[1]) or is_bslice(t[1])):
            return "ACCEPT", "A param Option"
        if t[0] == "dopt" and _value_ok(t[1]):
            return "ACCEPT", "A param DiplomatOption"
        if t[0] == "cb" and all(is_prim(p) for p in t[2]) and (t[3] == ("unit",) or is_prim(t[3])):
            return "ACCEPT", "A callback over primitives"
    if pos == "ret":
        def retval(x):
            return _value_ok(x) or x == N("OutSt") or is_opaque_box(x) or (is_opaque_ref(x) and not x[1])
        if t == ("unit",) or retval(t) or (is_bslice(t) and not t[1]) or t == ("ordering",):
            return "ACCEPT", "A return value"
        if t[0] == "opt" and (is_opaque_box(t[1]) or (is_opaque_ref(t[1]) and not t[1][1]) or _value_ok(t[1])):
            return "ACCEPT", "A return Option"
        if t[0] == "res" and (t[1] == ("unit",) or retval(t[1])) and (t[2] == ("unit",) or _value_ok(t[2]) or is_opaque_box(t[2])):
            return "ACCEPT", "A return Result"
    if pos in ("field", "outfield"):
        if (is_prim(t) or is_enum(t) or t in (N("St"), N("Nest"), N("SB"))) or (is_opaque_ref(t) and not t[1]):
            return "ACCEPT", "A field value/ref"
        if t[0] == "opt" and is_opaque_ref(t[1]) and not t[1][1]:
            return "ACCEPT", "A field Option<&Opaque>"
        if t[0] == "dopt" and _value_ok(t[1]):
            return "ACCEPT", "A field DiplomatOption"
        if t[0] == "ffi" and t[2] == "bslice":
            return "ACCEPT", "A field FFI-safe borrowed slice"
        if pos == "outfield" and (is_opaque_box(t) or (t[0] == "opt" and is_opaque_box(t[1]))):
            return "ACCEPT", "A out-struct field Box<Opaque>"
    return "UNSPEC", ""


# ---------------------------------------------------------------------------------------------
# single-focus programs


def focus_program(pos, t, prelude=PRELUDE):
    """Returns (source, focus context, focus type name)"""
    ty = render(t)
    lt = "<'a>" if has_lt(t) else ""
    body = ""
    ctx = "Op::f"
    if pos == "param":
        body = "impl Op { pub fn f%s(x: %s) { unimplemented!() } }" % (lt, ty)
    elif pos == "param_first":
        body = "impl Op { pub fn f%s(x: %s, y: u8) { unimplemented!() } }" % (lt, ty)
    elif pos == "param_last":
        body = "impl Op { pub fn f%s(y: u8, x: %s) { unimplemented!() } }" % (lt, ty)
    elif pos == "ret":
        if has_lt(t):
            body = "impl Op { pub fn f<'a>(&'a self) -> %s { unimplemented!() } }" % ty
        else:
            body = "impl Op { pub fn f() -> %s { unimplemented!() } }" % ty
    elif pos == "field":
        body = "pub struct Fo%s { pub n: u8, pub x: %s }" % (lt, ty)
        ctx = "Fo"
    elif pos == "outfield":
        body = "#[diplomat::out]\n    pub struct Fo%s { pub n: u8, pub x: %s }" % (lt, ty)
        ctx = "Fo"
    elif pos == "cbparam":
        body = "impl Op { pub fn f(cb: impl Fn(%s)) { unimplemented!() } }" % render(t, "", True)
    elif pos == "cbret":
        body = "impl Op { pub fn f(cb: impl Fn() -> %s) { unimplemented!() } }" % render(t, "", True)
    src = "#[diplomat::bridge]\nmod ffi {\n%s\n    %s\n}\n" % (prelude, body)
    return src, ctx


def applicable(pos, t):
    """positions where the term can be written at all"""
    if t[0] == "cb":
        return pos in ("param", "param_first", "param_last")
    return True
