"""ffix: generated bridge crate (real proc macro + real runtime) + generated C / C++ drivers.

A *method descriptor* is a dict:
  {"i": n, "kind": "P"|"R"|"W"|"CB", "params": [Ty...], "ret": Ty|None, "owner": "T3", "name": "p17"}
"""
import hashlib
import json
import os
import shutil
import subprocess

from vlib import abi as A
from vlib.common import REPO, BUILD, VERIF, sh, cargo_env, build_tool, run_tool, MachineryError, NCPU

SUPPORT_RS = r'''
// ---- support code outside the bridge: logging, selector, canonical dumps
use std::sync::Mutex;
use std::fmt::Write as _;
pub static LOG: Mutex<String> = Mutex::new(String::new());
pub static SEL: Mutex<usize> = Mutex::new(0);

pub fn sel() -> usize { *SEL.lock().unwrap() }
pub fn log_call(i: u32, f: impl FnOnce(&mut String)) {
    let mut s = String::new();
    let _ = write!(s, "CALL {}:", i);
    f(&mut s);
    s.push('\n');
    LOG.lock().unwrap().push_str(&s);
}
pub fn log_note(t: &str) { LOG.lock().unwrap().push_str(t); }

#[no_mangle]
pub extern "C" fn verif_sel(j: usize) { *SEL.lock().unwrap() = j; }
/// copies the log (NUL terminated) into buf and clears it; returns its length
#[no_mangle]
pub unsafe extern "C" fn verif_take_log(buf: *mut u8, cap: usize) -> usize {
    let mut l = LOG.lock().unwrap();
    let b = l.as_bytes();
    let n = b.len().min(cap.saturating_sub(1));
    core::ptr::copy_nonoverlapping(b.as_ptr(), buf, n);
    *buf.add(n) = 0;
    l.clear();
    n
}

pub trait Dump { fn dump(&self, s: &mut String); }
macro_rules! dump_int { ($($t:ty => $tag:expr),*) => {$( impl Dump for $t { fn dump(&self, s: &mut String) { let _ = write!(s, "{}:{}", $tag, self); } } )*}; }
dump_int!(i8 => "i8", u16 => "u16", i16 => "i16", i32 => "i32", u64 => "u64", i64 => "i64", usize => "usz", isize => "isz");
impl Dump for u8 { fn dump(&self, s: &mut String) { let _ = write!(s, "u8:{}", self); } }
impl Dump for bool { fn dump(&self, s: &mut String) { let _ = write!(s, "b:{}", *self as u8); } }
impl Dump for f32 { fn dump(&self, s: &mut String) { let _ = write!(s, "f32:{:08x}", self.to_bits()); } }
impl Dump for f64 { fn dump(&self, s: &mut String) { let _ = write!(s, "f64:{:016x}", self.to_bits()); } }
/// u32 and DiplomatChar are the same Rust type: the method body says which dump it wants
pub struct AsChar(pub u32);
impl Dump for AsChar { fn dump(&self, s: &mut String) { let _ = write!(s, "c:{}", self.0); } }
impl Dump for u32 { fn dump(&self, s: &mut String) { let _ = write!(s, "u32:{}", self); } }
impl Dump for () { fn dump(&self, s: &mut String) { s.push_str("()"); } }

pub trait LeBytes { fn le(&self, s: &mut String); }
macro_rules! le_int { ($($t:ty),*) => {$( impl LeBytes for $t { fn le(&self, s: &mut String) { for b in self.to_le_bytes() { let _ = write!(s, "{:02x}", b); } } } )*}; }
le_int!(u8, i8, u16, i16, u32, i32, u64, i64, usize, isize, f32, f64);
impl LeBytes for bool { fn le(&self, s: &mut String) { let _ = write!(s, "{:02x}", *self as u8); } }
impl<T: LeBytes> Dump for [T] { fn dump(&self, s: &mut String) { let _ = write!(s, "[{}:", self.len()); for x in self { x.le(s); } s.push(']'); } }
impl Dump for str { fn dump(&self, s: &mut String) { self.as_bytes().dump(s) } }
impl<T: Dump + ?Sized> Dump for &T { fn dump(&self, s: &mut String) { (**self).dump(s) } }
impl<T: Dump + ?Sized> Dump for &mut T { fn dump(&self, s: &mut String) { (**self).dump(s) } }
impl<T: Dump + ?Sized> Dump for Box<T> { fn dump(&self, s: &mut String) { (**self).dump(s) } }
impl<T: Dump> Dump for Option<T> { fn dump(&self, s: &mut String) { match self { None => s.push_str("none"), Some(v) => { s.push_str("some("); v.dump(s); s.push(')'); } } } }
impl<T: Dump> Dump for diplomat_runtime::DiplomatOption<T> { fn dump(&self, s: &mut String) { match self.as_ref() { Err(_) => s.push_str("none"), Ok(v) => { s.push_str("some("); v.dump(s); s.push(')'); } } } }
impl<T: LeBytes> Dump for diplomat_runtime::DiplomatSlice<'_, T> { fn dump(&self, s: &mut String) { (**self).dump(s) } }
impl<T: LeBytes> Dump for diplomat_runtime::DiplomatSliceMut<'_, T> { fn dump(&self, s: &mut String) { (**self).dump(s) } }
impl<T: LeBytes> Dump for diplomat_runtime::DiplomatOwnedSlice<T> { fn dump(&self, s: &mut String) { (**self).dump(s) } }
impl Dump for diplomat_runtime::DiplomatUtf8StrSlice<'_> { fn dump(&self, s: &mut String) { (**self).dump(s) } }
'''

C_PRELUDE = r'''
#include <stdio.h>
#include <stdlib.h>
#include <string.h>
#include <stdint.h>
#include <stdbool.h>
#include <stdalign.h>
extern void verif_sel(size_t j);
extern size_t verif_take_log(char* buf, size_t cap);
extern void* diplomat_alloc(size_t size, size_t align);
extern void diplomat_free(void* p, size_t size, size_t align);
static char LOGBUF[1 << 16];
static float f32_from_bits(unsigned long long b) { uint32_t u = (uint32_t)b; float f; memcpy(&f, &u, 4); return f; }
static double f64_from_bits(unsigned long long b) { uint64_t u = (uint64_t)b; double f; memcpy(&f, &u, 8); return f; }
static void dump_f32(float f) { uint32_t u; memcpy(&u, &f, 4); printf("f32:%08x", (unsigned)u); }
static void dump_f64(double f) { uint64_t u; memcpy(&u, &f, 8); printf("f64:%016llx", (unsigned long long)u); }
static void dump_slice(const unsigned char* p, size_t len, int elem) {
    printf("[%llu:", (unsigned long long)len);
    for (size_t i = 0; i < len * (size_t)elem; i++) printf("%02x", p[i]);
    printf("]");
}
static void report_log(void) {
    verif_take_log(LOGBUF, sizeof LOGBUF);
    for (char* c = LOGBUF; *c; c++) if (*c == '\n') *c = '~';
    printf(" | %s\n", LOGBUF);
    fflush(stdout);
}
'''


class CCtx:
    """collects setup / teardown statements for one call"""

    def __init__(self, lang="c"):
        self.pre = []
        self.post = []
        self.n = 0
        self.lang = lang
        self.mut_arrays = []

    def _name(self, p):
        self.n += 1
        return "%s%d" % (p, self.n)

    def array(self, elem, items, const=True):
        name = self._name("a")
        self.pre.append("%s %s[%d] = { %s };" % (elem, name, max(1, len(items)), ", ".join(items) if items else "0"))
        if not const:
            self.mut_arrays.append((name, len(items)))
        return name

    def owned_array(self, elem, items, elem_size):
        name = self._name("o")
        if not items:
            self.pre.append("%s* %s = (%s*)(uintptr_t)%d;" % (elem, name, elem, elem_size))
            return name
        self.pre.append("%s* %s = (%s*)diplomat_alloc(%d, %d);" % (elem, name, elem, elem_size * len(items), elem_size))
        for i, it in enumerate(items):
            self.pre.append("%s[%d] = %s;" % (name, i, it))
        return name

    def opaque(self, ident):
        name = self._name("op")
        if self.lang == "c":
            self.pre.append("Op* %s = Op_new(%du);" % (name, ident))
            self.post.append("Op_destroy(%s);" % name)
            return name
        self.pre.append("std::unique_ptr<Op> %s = Op::new_(%du);" % (name, ident))
        return name + ".get()"


# ---------------------------------------------------------------------------------------------
# method set


def rust_dump_expr(t, e):
    if isinstance(t, A.Prim) and t.name == "DiplomatChar":
        return "AsChar(%s).dump(s);" % e
    if isinstance(t, A.Opt) and isinstance(t.inner, A.Prim) and t.inner.name == "DiplomatChar":
        return "%s.map(AsChar).dump(s);" % ("Option::<u32>::from(%s)" % e if t.spelling == "diplomat" else e)
    return "%s.dump(s);" % e


def method_set(tier):
    """returns (types to declare, methods)"""
    prims = A.prims()
    structs = A.special_structs() + A.struct_universe(tier)
    decl_enums = [A.EN, A.ENN, A.EN1]
    T = []
    # ---- parameter shapes
    pshapes = list(prims) + [A.EN, A.ENN, A.EN1] + [s for s in structs if s.in_param]
    pshapes += [A.OpaqueRef(), A.OpaqueRef(mut=True), A.OpaqueRef(optional=True), A.OpaqueRef(mut=True, optional=True)]
    for p in prims[:13]:
        pshapes += [A.Slice(p, "ref"), A.Slice(p, "mut"), A.Slice(p, "box")]
    for enc, el in (("str", "u8"), ("DiplomatStr", "u8"), ("DiplomatStr16", "u16")):
        pshapes += [A.Slice(A.Prim(el), "ref", enc), A.Slice(A.Prim(el), "box", enc)]
    optinner = list(prims) + [A.EN, A.ENN, A.ST, structs[1]]
    for t in optinner:
        pshapes += [A.Opt(t, "std"), A.Opt(t, "diplomat")]
    pshapes += [A.Opt(A.Slice(A.Prim("u8"), "ref"), "std"), A.Opt(A.Slice(A.Prim("u8"), "ref", "str"), "std"), A.Opt(A.Slice(A.Prim("f64"), "ref"), "std")]
    methods = []

    def add(kind, params, ret, **kw):
        methods.append(dict(kind=kind, params=params, ret=ret, **kw))
    for t in pshapes:
        add("P", [t], None)
    # positions / ordering / stack spill: every shape 2nd of 3 between two sentinels, and a 9-argument mixed call
    sent = A.Prim("u64")
    core = [A.Prim("u8"), A.Prim("f32"), A.Prim("f64"), A.Prim("i64"), A.EN, A.ST, structs[1], A.OpaqueRef(), A.Slice(A.Prim("u8"), "ref"),
            A.Opt(A.Prim("u16"), "std"), A.Opt(A.ST, "diplomat"), A.Prim("bool"), A.Slice(A.Prim("u16"), "ref", "DiplomatStr16")]
    posset = pshapes if tier == "thorough" else core
    for t in posset:
        add("P", [sent, t, A.Prim("u8")], None, few=True)
    if tier == "thorough":
        for a in core:
            for b in core:
                add("P", [a, b], None, few=True)
    # several validated strings in one call (each &str parameter is validated on its own)
    add("P", [A.Slice(A.Prim("u8"), "ref", "str"), A.Slice(A.Prim("u8"), "ref", "str")], None)
    add("P", [A.Prim("u8"), A.Slice(A.Prim("u8"), "ref", "str"), A.Slice(A.Prim("u8"), "ref", "DiplomatStr"), A.Slice(A.Prim("u8"), "ref", "str")], None, few=True)
    add("P", [A.Prim("u8"), A.Prim("f64"), A.Prim("u16"), A.ST, A.Prim("f32"), A.Prim("i64"), A.Prim("bool"), A.Slice(A.Prim("u8"), "ref"), A.Prim("u32"), A.EN, A.Prim("f64")], None, few=True)
    # ---- return shapes
    rshapes = list(prims) + [A.EN, A.ENN] + structs
    rshapes += [A.OpaqueBox(), A.OpaqueBox(optional=True), A.OpaqueRef(), A.OpaqueRef(optional=True)]
    rshapes += [A.Slice(A.Prim("u8"), "ref"), A.Slice(A.Prim("i16"), "ref"), A.Slice(A.Prim("f64"), "ref"), A.Slice(A.Prim("u8"), "ref", "str"),
                A.Slice(A.Prim("u16"), "ref", "DiplomatStr16"), A.Slice(A.Prim("u8"), "ref", "DiplomatStr")]
    for t in optinner:
        rshapes.append(A.NullableRet(t))
        rshapes.append(A.NullableRet(t, "diplomat"))
    rshapes.append(A.NullableRet(A.Unit()))
    rshapes.append(A.NullableRet(A.Slice(A.Prim("u8"), "ref", "str")))
    arms = [A.Unit(), A.Prim("u8"), A.Prim("i64"), A.Prim("f64"), A.Prim("bool"), A.EN, A.ST, structs[1], A.OpaqueBox()]
    for ok in arms:
        for err in arms:
            if isinstance(err, A.OpaqueBox) and tier == "quick" and not isinstance(ok, (A.Unit, A.Prim)):
                continue
            rshapes.append(A.Result(ok, err))
    # borrowed opaques as Result arms (C++: diplomat::result<T, const Op&> goes through reference-typed ok() / err() overloads)
    rshapes += [A.Result(A.Prim("u8"), A.OpaqueRef()), A.Result(A.OpaqueRef(), A.Prim("u8")), A.Result(A.Unit(), A.OpaqueRef()), A.Result(A.OpaqueRef(), A.OpaqueRef())]
    # single-variant enum payloads next to arms narrower than, as wide as and wider than the enum
    rshapes += [A.EN1, A.NullableRet(A.EN1), A.Result(A.Unit(), A.EN1), A.Result(A.Prim("u8"), A.EN1), A.Result(A.EN1, A.Prim("u8")), A.Result(A.EN1, A.Unit()),
                A.Result(A.Prim("i64"), A.EN1)]
    # an out-struct as the payload of a Result / Option (it is a sized payload like any other struct)
    outst = next(s_ for s_ in structs if s_.out)
    rshapes += [A.Result(outst, A.Prim("u8")), A.Result(outst, A.Unit()), A.NullableRet(outst), A.Result(A.Prim("u8"), outst), A.Result(A.Unit(), outst)]
    # an Option of a non-pointer INSIDE a Result arm is a DiplomatOption on the wire, whichever way it is spelled
    for sp in ("std", "diplomat"):
        rshapes += [A.Result(A.Opt(A.Prim("u8"), sp), A.Unit()), A.Result(A.Opt(A.EN, sp), A.Prim("u8")), A.Result(A.Prim("u8"), A.Opt(A.Prim("u16"), sp)),
                    A.Result(A.Opt(A.ST, sp), A.Unit())]
    for t in rshapes:
        add("R", [], t)
    # a parameter and a return value together (register / sret interplay)
    for p in [A.ST, structs[1], A.Prim("f64"), A.Slice(A.Prim("u8"), "ref")]:
        for r in [A.ST, structs[1], A.Result(A.Prim("u8"), A.ST), A.Prim("u64")]:
            add("PR", [p], r, few=True)
    # ---- a DiplomatOption that is cloned on the Rust side before it travels back (Clone must keep the arm)
    for t in [A.Prim("u8"), A.Prim("u64"), A.Prim("f64"), A.Prim("bool")]:
        add("CL", [A.Opt(t, "diplomat")], A.NullableRet(t, "diplomat"))
    # ---- DiplomatWrite
    add("W", [], None)
    add("W", [A.Prim("u8")], None)
    add("W", [], A.Result(A.Unit(), A.Prim("u8")))
    add("W", [A.ST], A.Result(A.Unit(), A.Unit()))
    add("W", [A.Prim("u8")], A.NullableRet(A.Unit()))
    # ---- callbacks
    cbs = [([], None), ([A.Prim("u8")], None), ([A.Prim("i32"), A.Prim("f64")], A.Prim("u16")), ([A.EN], A.Prim("bool")), ([A.ST], A.Prim("u8")),
           ([A.Prim("u64"), A.Prim("u64"), A.Prim("u64"), A.Prim("u64"), A.Prim("u64"), A.Prim("u64"), A.Prim("u8")], A.Prim("i64")), ([A.Prim("f32")], A.Prim("f32"))]
    for ps, r in cbs:
        add("CB", ps, r)
    # a callback that owns state and is invoked three times in one call: every invocation must run on the SAME callable
    add("CB", [A.Prim("u8")], A.Prim("u16"), multi=True)
    # ---- namespaced and renamed types / methods (C++ renders namespaces and renames; C must be unaffected)
    nsst = A.Struct("NsSt", [("a", A.Prim("u8")), ("b", A.Prim("i64"))], attrs='    #[diplomat::attr(cpp, namespace = "nsx::inner")]\n', cpp_name="nsx::inner::NsSt")
    rnen = A.Enum("RnEn", [("A", 1), ("B", 3)], attrs='    #[diplomat::attr(cpp, rename = "RenamedEn")]\n', cpp_name="RenamedEn")
    structs.append(nsst)
    decl_enums.append(rnen)
    nsmethods = [dict(kind="P", params=[nsst], ret=None), dict(kind="R", params=[], ret=nsst), dict(kind="P", params=[rnen, A.Prim("u8")], ret=None),
                 dict(kind="R", params=[], ret=A.Result(rnen, nsst)), dict(kind="P", params=[A.Opt(nsst, "std")], ret=None),
                 dict(kind="P", params=[A.Prim("u16")], ret=None, cpp_name="renamed_method", attrs='#[diplomat::attr(cpp, rename = "renamed_method")] ')]
    # assign owners and names
    per = 120
    for i, m in enumerate(methods):
        m["i"] = i
        m["owner"] = "T%d" % (i // per)
        m["name"] = "%s%d" % (m["kind"].lower(), i)
    owners = sorted({m["owner"] for m in methods}, key=lambda s: int(s[1:]))
    for m in nsmethods:
        m["i"] = len(methods)
        m["owner"] = "TNs"
        m["name"] = "%s%d" % (m["kind"].lower(), m["i"])
        methods.append(m)
    owners.append("TNs")
    # ---- feature gating for backends with narrower profiles (the proc macro ignores these attributes)
    def uses(t, pred):
        if t is None:
            return False
        if pred(t):
            return True
        if isinstance(t, A.Struct):
            return any(uses(ft, pred) for _, ft in t.fields)
        if isinstance(t, (A.Opt, A.NullableRet)):
            return uses(t.inner, pred)
        if isinstance(t, A.Result):
            return uses(t.ok, pred) or uses(t.err, pred)
        return False
    is_opt = lambda t: isinstance(t, A.Opt) and not isinstance(t.inner, A.Slice)
    is_optslice = lambda t: isinstance(t, A.Opt) and isinstance(t.inner, A.Slice)
    for st in structs:
        if uses(st, is_opt):
            st.attrs += "    #[diplomat::attr(not(supports = option), disable)]\n"
    for m in methods:
        a = m.get("attrs", "")
        ts = list(m["params"]) + [m["ret"]]
        if any(uses(t, is_opt) for t in ts):
            a += "#[diplomat::attr(not(supports = option), disable)] "
        if any(uses(t, is_optslice) for t in ts):
            a += "#[diplomat::attr(any(dart, kotlin), disable)] "  # Option<&[T]> parameters crash these backends (reported by C15)
        if m["kind"] == "CB":
            a += "#[diplomat::attr(not(supports = callbacks), disable)] "
        if any(isinstance(x, (A.Enum, A.Struct, A.OpaqueBox, A.OpaqueRef)) for x in ([m["ret"].err] if isinstance(m["ret"], A.Result) else [])):
            a += "#[diplomat::attr(kotlin, disable)] "  # kotlin requires the `error` attribute on custom error types
        m["attrs"] = a
    types = dict(enums=decl_enums, structs=structs, owners=owners,
                 owner_attrs={"TNs": '    #[diplomat::attr(cpp, namespace = "nsx")]\n    #[diplomat::attr(cpp, rename = "RenT")]\n    #[diplomat::abi_rename = "ren_{0}"]\n'},
                 cpp_owner={"TNs": "nsx::RenT"})
    return types, methods


W_CHUNKS = [[], ["a"], ["ab", "", "c"], ["é€", "\U0001d11e"], ["0123456789" * 3, "x"], ["\0", "z"]]


def _fixed_sizes(ci):
    """buffer sizes handed to diplomat_simple_write for chunk list ci: exact fit (text + terminator), and one byte short"""
    n = len("".join(W_CHUNKS[ci]).encode("utf8"))
    return [("fx", n + 1)] + ([("fs", n)] if n >= 1 else [])


def _fixed_model(chunks, cap):
    """reference model of a fixed writer of capacity cap: whole chunks until the first one that does not fit; sticky afterwards"""
    got, failed = b"", 0
    for c in chunks:
        b = c.encode("utf8")
        if failed:
            continue
        if len(got) + len(b) > cap:
            failed = 1
            continue
        got += b
    return got, failed


def cases_for(m):
    """value tuples (one per param) + selector values for returns"""
    few = m.get("few")
    if m["kind"] in ("P", "PR", "W", "CB", "CL"):
        pvals = []
        for t in m["params"]:
            vs = t.values()
            if few:
                vs = vs[:1] + vs[-2:] if len(vs) > 3 else vs
            pvals.append(vs)
    if m["kind"] == "P":
        if not m["params"]:
            return [()]
        if len(m["params"]) == 1:
            return [(v,) for v in pvals[0]]
        # all params at base, each param's values in turn, then a diagonal
        base = [t.base() for t in m["params"]]
        out = [tuple(base)]
        for k, vs in enumerate(pvals):
            for v in vs:
                x = list(base)
                x[k] = v
                out.append(tuple(x))
        seen, res = set(), []
        for c in out:
            if repr(c) not in seen:
                seen.add(repr(c))
                res.append(c)
        return res
    if m["kind"] == "CL":
        return [(v,) for v in pvals[0]]
    if m["kind"] == "R":
        vals = m["ret"].values()
        seen, res = set(), []
        for v in vals:
            d = m["ret"].dump(v)
            if d not in seen:
                seen.add(d)
                res.append(v)
        return res
    if m["kind"] == "PR":
        rv = m["ret"].values()
        rv = rv[:2] + rv[-2:]
        return [(p, r) for p in pvals[0] for r in rv]
    if m["kind"] == "W":
        out = []
        for ci in range(len(W_CHUNKS)):
            for p in (itertools_product(pvals) if pvals else [()]):
                rets = m["ret"].values() if m["ret"] else [None]
                for r in rets:
                    out.append((ci, p, r))
        return out
    if m["kind"] == "CB" and m.get("multi"):
        return [((1,), 0)]
    if m["kind"] == "CB":
        # callback args come from Rust (selected value index), return value comes from C
        n = max([len(v) for v in pvals] + [1])
        rets = m["ret"].values() if m["ret"] else [None]
        out = []
        for k in range(max(n, len(rets))):
            out.append((tuple(v[k % len(v)] for v in pvals), rets[k % len(rets)]))
        return out
    raise ValueError(m["kind"])


def itertools_product(lists):
    import itertools
    return list(itertools.product(*lists))


# ---------------------------------------------------------------------------------------------
# Rust crate


def _ret_sig(t):
    return "" if t is None else " -> %s" % t.rust("ret")


def rust_method(m):
    i = m["i"]
    k = m["kind"]
    lt = any(t.lifetime for t in m["params"]) and False
    rlt = m["ret"] is not None and m["ret"].lifetime
    gen = "<'a>" if rlt else ""
    params = ["x%d: %s" % (j, t.rust("param")) for j, t in enumerate(m["params"])]
    if rlt:
        params = ["_src: &'a Op"] + params
    dumps = " s.push(';'); ".join(rust_dump_expr(t, "x%d" % j) for j, t in enumerate(m["params"]))
    if k == "P":
        flips = ""
        for j, t in enumerate(m["params"]):
            if isinstance(t, A.Slice) and t.kind == "mut":
                f = "!*e" if t.elem.name == "bool" else ("-*e" if t.elem.isfloat else "e.wrapping_add(1)")
                flips += " if let Some(e) = x%d.first_mut() { *e = %s; }" % (j, f)
        return "pub fn %s%s(%s) { log_call(%d, |s| { %s });%s }" % (m["name"], gen, ", ".join(params), i, dumps, flips)
    if k in ("R", "PR"):
        vals = cases_for(m) if k == "R" else None
        rv = vals if k == "R" else (lambda v: v[:2] + v[-2:])(m["ret"].values())
        arms = "\n".join("                %d => %s," % (j, m["ret"].rust_lit(v)) for j, v in enumerate(rv))
        return ("pub fn %s%s(%s)%s {\n            log_call(%d, |s| { %s });\n            match sel() {\n%s\n                _ => unreachable!(),\n            }\n        }"
                % (m["name"], gen, ", ".join(params), _ret_sig(m["ret"]), i, dumps, arms))
    if k == "CL":
        return "pub fn %s(%s)%s { log_call(%d, |s| { %s }); x0.clone() }" % (m["name"], ", ".join(params), _ret_sig(m["ret"]), i, dumps)
    if k == "W":
        params.append("w: &mut DiplomatWrite")
        chunks = "\n".join("                %d => { %s }" % (ci, " ".join("let _ = w.write_str(\"%s\");" % "".join("\\u{%x}" % ord(x) for x in c) for c in ch))
                           for ci, ch in enumerate(W_CHUNKS))
        tail = ""
        if m["ret"] is not None:
            rv = m["ret"].values()
            arms = "\n".join("                %d => %s," % (j, m["ret"].rust_lit(v)) for j, v in enumerate(rv))
            tail = "\n            match sel() / 16 {\n%s\n                _ => unreachable!(),\n            }" % arms
        return ("pub fn %s(%s)%s {\n            use core::fmt::Write;\n            log_call(%d, |s| { %s });\n            match sel() %% 16 {\n%s\n                _ => unreachable!(),\n            }%s\n        }"
                % (m["name"], ", ".join(params), _ret_sig(m["ret"]), i, dumps, chunks, tail))
    if k == "CB" and m.get("multi"):
        return ("pub fn %s(f: impl Fn(u8) -> u16) {\n            let (a, b, c) = (f(1), f(2), f(3));\n"
                "            log_call(%d, |s| { s.push_str(&format!(\"cbm({},{},{})\", a, b, c)); });\n        }" % (m["name"], i))
    if k == "CB":
        cs = cases_for(m)
        ptys = ", ".join(t.rust("param") for t in m["params"])
        r = m["ret"]
        arms = []
        for j, (args, _rv) in enumerate(cs):
            call = "f(%s)" % ", ".join(t.rust_lit(v) for t, v in zip(m["params"], args))
            if r is None:
                arms.append("                %d => { %s; log_call(%d, |s| { s.push_str(\"cbret()\"); }); }" % (j, call, i))
            else:
                arms.append("                %d => { let r = %s; log_call(%d, |s| { s.push_str(\"cbret(\"); %s s.push(')'); }); }" % (j, call, i, rust_dump_expr(r, "r")))
        return ("pub fn %s(f: impl Fn(%s)%s) {\n            match sel() {\n%s\n                _ => unreachable!(),\n            }\n        }"
                % (m["name"], ptys, "" if r is None else " -> " + r.rust("param"), "\n".join(arms)))
    raise ValueError(k)


def rust_dump_impl(t):
    if isinstance(t, A.Enum):
        return "impl Dump for ffi::%s { fn dump(&self, s: &mut String) { let _ = write!(s, \"e:{}\", *self as i32); } }" % t.name
    lt = "<'_>" if t.lifetime else ""
    body = ["s.push('{');"]
    for k, (n, ft) in enumerate(t.fields):
        body.append("s.push_str(\"%s%s=\");" % ("," if k else "", n))
        body.append(rust_dump_expr(ft, "self.%s" % n))
    body.append("s.push('}');")
    return "impl Dump for ffi::%s%s { fn dump(&self, s: &mut String) { %s } }" % (t.name, lt, " ".join(body))


def render_crate(types, methods):
    L = ["#![allow(unused, non_snake_case, clippy::all, improper_ctypes_definitions, mismatched_lifetime_syntaxes, unpredictable_function_pointer_comparisons)]",
         "pub mod verif_support {", SUPPORT_RS]
    L.append("use crate::ffi;")
    L.append("impl Dump for ffi::Op { fn dump(&self, s: &mut String) { let _ = write!(s, \"op#{}\", self.0); } }")
    for e in types["enums"]:
        L.append(rust_dump_impl(e))
    for st in types["structs"]:
        L.append(rust_dump_impl(st))
    L.append("#[no_mangle]\npub extern \"C\" fn verif_ret_size(i: u32) -> usize {\n    match i {")
    for m in methods:
        if m["kind"] == "R" and isinstance(m["ret"], (A.Result, A.NullableRet)):
            ft = A.rust_ffi_type(m["ret"])
            if ft:
                L.append("        %d => core::mem::size_of::<%s>()," % (m["i"], ft))
    L.append("        _ => 0,\n    }\n}")
    L.append("}")
    L.append("#[diplomat::bridge]\npub mod ffi {")
    L.append("    use crate::verif_support::{Dump, AsChar, log_call, sel};")
    L.append("    use diplomat_runtime::{DiplomatOption, DiplomatWrite, DiplomatChar, DiplomatByte, DiplomatStr, DiplomatStr16, DiplomatSlice, DiplomatSliceMut, DiplomatOwnedSlice, DiplomatStrSlice, DiplomatStr16Slice, DiplomatUtf8StrSlice};")
    L.append("    #[diplomat::opaque]\n    pub struct Op(pub u32);")
    L.append("    impl Op {\n        pub fn new(id: u32) -> Box<Op> { Box::new(Op(id)) }\n        pub fn id(&self) -> u32 { self.0 }\n"
             "        #[diplomat::attr(supports = comparators, comparison)]\n        pub fn compare(&self, other: &Op) -> core::cmp::Ordering { self.0.cmp(&other.0) }\n    }")
    # an iterable: C++ wraps the `next()` protocol in an input-iterator adapter (begin()/end(), operator++ / * / !=)
    L.append("    #[diplomat::opaque]\n    #[diplomat::attr(not(supports = iterators), disable)]\n    pub struct ItList(pub Vec<u32>);")
    L.append("    #[diplomat::opaque]\n    #[diplomat::attr(not(supports = iterators), disable)]\n    pub struct ItIter<'a>(pub core::slice::Iter<'a, u32>);")
    L.append("    impl ItList {\n        pub fn make(n: u32) -> Box<ItList> { Box::new(ItList((1..=n).map(|k| k * 10).collect())) }\n"
             "        #[diplomat::attr(auto, iterable)]\n        pub fn iter<'a>(&'a self) -> Box<ItIter<'a>> { Box::new(ItIter(self.0.iter())) }\n    }")
    L.append("    impl<'a> ItIter<'a> {\n        #[diplomat::attr(auto, iterator)]\n        pub fn next(&mut self) -> Option<u32> { self.0.next().copied() }\n    }")
    # arithmetic special methods on a non-opaque type: C++ derives the compound operators (`-=` ...) from them
    L.append("    #[diplomat::attr(not(supports = arithmetic), disable)]\n    pub struct Ar { pub x: i32, pub y: i32 }")
    L.append("    impl Ar {\n        #[diplomat::attr(auto, add)]\n        pub fn add(self, o: Self) -> Self { Ar { x: self.x + o.x, y: self.y + o.y } }\n"
             "        #[diplomat::attr(auto, sub)]\n        pub fn sub(self, o: Self) -> Self { Ar { x: self.x - o.x, y: self.y - o.y } }\n"
             "        #[diplomat::attr(auto, mul)]\n        pub fn mul(self, o: Self) -> Self { Ar { x: self.x * o.x, y: self.y * o.y } }\n"
             "        #[diplomat::attr(auto, div)]\n        pub fn div(self, o: Self) -> Self { Ar { x: self.x / o.x, y: self.y / o.y } }\n    }")
    for e in types["enums"]:
        L.append(e.decl())
    for st in types["structs"]:
        L.append(st.decl())
    # the method's own type spelled `Self` inside an Option inside a Result arm (the macro converts by looking at the spelling)
    L.append("    impl St {\n        #[diplomat::attr(not(supports = option), disable)]\n"
             "        pub fn opt_self(self, sel: u8) -> Result<Option<Self>, ()> { match sel { 0 => Ok(Some(self)), 1 => Ok(None), _ => Err(()) } }\n    }")
    for o in types["owners"]:
        L.append("%s    #[diplomat::opaque]\n    pub struct %s;" % (types.get("owner_attrs", {}).get(o, ""), o))
        L.append("    impl %s {" % o)
        for m in methods:
            if m["owner"] == o:
                L.append("        " + m.get("attrs", "") + rust_method(m))
        L.append("    }")
    L.append("}")
    return "\n".join(L) + "\n"


CARGO_TOML = """[package]
name = "ffix"
version = "0.0.0"
edition = "2021"
publish = false

[workspace]

[lib]
crate-type = ["staticlib", "rlib"]
path = "src/lib.rs"

[dependencies]
diplomat = { path = "%(repo)s/macro" }
diplomat-runtime = { path = "%(repo)s/runtime" }

[profile.dev]
opt-level = 0
debug = false
incremental = false
"""


def build_crate(name, src, tag=""):
    """writes and builds the crate under BUILD/ffix-<name>; returns (crate_dir, staticlib path)"""
    from vlib.common import _repo_tag
    d = os.path.join(BUILD, "ffix-%s%s%s" % (name, tag, _repo_tag()))
    os.makedirs(os.path.join(d, "src"), exist_ok=True)
    os.makedirs(os.path.join(d, ".cargo"), exist_ok=True)

    def put(p, s):
        if not os.path.exists(p) or open(p).read() != s:
            open(p, "w").write(s)
    put(os.path.join(d, "Cargo.toml"), CARGO_TOML % {"repo": REPO})
    put(os.path.join(d, ".cargo", "config.toml"), "[net]\noffline = true\n")
    put(os.path.join(d, "src", "lib.rs"), src)
    lock = os.path.join(d, "Cargo.lock")
    if not os.path.exists(lock):
        shutil.copy(os.path.join(REPO, "Cargo.lock"), lock)
    p = subprocess.run(["cargo", "build", "--offline"], cwd=d, env=cargo_env({"CARGO_TARGET_DIR": os.path.join(d, "target")}),
                       stdout=subprocess.PIPE, stderr=subprocess.PIPE, text=True)
    return d, os.path.join(d, "target", "debug", "libffix.a"), p


# ---------------------------------------------------------------------------------------------
# C driver


def _mut_dumps(m, ctx):
    """statements printing every caller-owned mutable array after the call (Rust flips the first element of each &mut slice)"""
    out = []
    sizes = [t.elem.bits // 8 for t in m["params"] if isinstance(t, A.Slice) and t.kind == "mut"]
    for (name, n), sz in zip(ctx.mut_arrays, sizes):
        out.append('printf(" m"); dump_slice((const unsigned char*)%s, %d, %d);' % (name, n, sz))
    return out


def _mut_expected(m, case):
    out = ""
    for t, v in zip(m["params"], case):
        if isinstance(t, A.Slice) and t.kind == "mut" and v != ("null",):
            vals = list(v)
            if vals:
                e = t.elem
                x = vals[0]
                if e.name == "bool":
                    x = 1 - x
                elif e.isfloat:
                    x = x ^ (1 << (e.bits - 1))
                else:
                    x = x + 1
                vals[0] = x
            out += " m[%d:%s]" % (len(vals), "".join(t.elem.le_bytes(q).hex() for q in vals))
    return out


def c_case(m, j, case):
    """C statements of one case; prints: `<K> <i> <j> | <C-side dump> | <rust log>`"""
    ctx = CCtx("c")
    i = m["i"]
    fn = "%s_%s" % (m["owner"], m["name"])
    k = m["kind"]
    body = []
    if k == "P":
        args = [t.c_lit(v, ctx) for t, v in zip(m["params"], case)]
        body.append("%s(%s);" % (fn, ", ".join(args)))
        body.append('printf("P %d %d | -");' % (i, j))
        body += _mut_dumps(m, ctx)
    elif k in ("R", "PR"):
        args = []
        if m["ret"].lifetime:
            args.append(ctx.opaque(1))
        if k == "PR":
            args += [m["params"][0].c_lit(case[0], ctx)]
            body.append("verif_sel(%d);" % case[2])
        else:
            body.append("verif_sel(%d);" % j)
        if isinstance(m["ret"], A.Unit):
            body.append("%s(%s);" % (fn, ", ".join(args)))
            body.append('printf("%s %d %d | ()");' % (k, i, j))
        else:
            body.append("__auto_type r = %s(%s);" % (fn, ", ".join(args)))
            body.append('printf("%s %d %d | ");' % (k, i, j))
            body.append(m["ret"].c_dump("r"))
    elif k == "CL":
        body.append("__auto_type r = %s(%s);" % (fn, m["params"][0].c_lit(case[0], ctx)))
        body.append('printf("CL %d %d | ");' % (i, j))
        body.append(m["ret"].c_dump("r"))
    elif k == "W":
        ci, pv, rv = case
        args = [t.c_lit(v, ctx) for t, v in zip(m["params"], pv)]
        sel = ci + 16 * (m["ret"].values().index(rv) if m["ret"] else 0)
        body.append("verif_sel(%d);" % sel)
        body.append("DiplomatWrite* w = diplomat_buffer_write_create(%d);" % (1 + (j % 5)))
        args.append("w")
        if m["ret"] is None:
            body.append("%s(%s);" % (fn, ", ".join(args)))
            body.append('printf("W %d %d | ");' % (i, j))
        else:
            body.append("__auto_type r = %s(%s);" % (fn, ", ".join(args)))
            body.append('printf("W %d %d | ");' % (i, j))
            body.append(m["ret"].c_dump("r"))
            body.append('printf(" ");')
        body.append("dump_slice((const unsigned char*)diplomat_buffer_write_get_bytes(w), diplomat_buffer_write_len(w), 1);")
        body.append("diplomat_buffer_write_destroy(w);")
        # the same call through caller-owned fixed writers: exact fit (text + NUL) and one byte short
        for tag, size in _fixed_sizes(ci):
            body.append("{ unsigned char fb[%d]; memset(fb, 0xAA, sizeof fb); DiplomatWrite fw = diplomat_simple_write((char*)fb + 4, %d);" % (size + 8, size))
            body.append("%s%s(%s);" % ("(void)" if m["ret"] is not None else "", fn, ", ".join(args[:-1] + ["&fw"])))
            body.append('printf(" %s f=%%d z=%%d g=%%d ", (int)fw.grow_failed, (int)fb[4 + fw.len], (int)(fb[3] == 0xAA && fb[%d] == 0xAA));' % (tag, size + 4))
            body.append("dump_slice(fb + 4, fw.len, 1); }")
    elif k == "CB":
        body.append("verif_sel(%d);" % j)
        body.append("CB_CASE = %d; CB_CALLS = 0; CB_DESTROYED = 0; CBM_ACC = 0;" % j)
        body.append("DiplomatCallback_%s_f cb = { .data = &CB_COOKIE, .run_callback = cbfn_%d, .destructor = cb_destroy };" % (fn, i))
        body.append("%s(cb);" % fn)
        body.append('printf("CB %d %d | calls=%%d destroyed=%%d", CB_CALLS, CB_DESTROYED);' % (i, j))
    stmts = ctx.pre + body + ctx.post + ["report_log();"]
    return "static void c_%d_%d(void) { %s }" % (i, j, " ".join(stmts))


def c_callback_fn(m):
    """the C function Rust calls back: prints what it received into a side buffer, returns the case's value"""
    i = m["i"]
    if m.get("multi"):
        return "static uint16_t cbfn_%d(const void* data, uint8_t x0) { (void)data; CB_CALLS++; CBM_ACC += x0; return (uint16_t)CBM_ACC; }" % i
    cs = cases_for(m)
    params = ", ".join(["const void* data"] + ["%s x%d" % (t.c_type(), j) for j, t in enumerate(m["params"])])
    rty = "void" if m["ret"] is None else m["ret"].c_type()
    dumps = ' printf(";"); '.join(t.c_dump("x%d" % j) for j, t in enumerate(m["params"]))
    body = ['CB_CALLS++; printf("CBARGS %d cookie=%%d:", (int)(data == &CB_COOKIE)); %s printf("\\n");' % (i, dumps)]
    if m["ret"] is not None:
        ctx = CCtx("c")
        sw = " ".join("case %d: return %s;" % (j, m["ret"].c_lit(rv, ctx)) for j, (_a, rv) in enumerate(cs))
        body.append("switch (CB_CASE) { %s default: abort(); }" % sw)
    return "static %s cbfn_%d(%s) { %s }" % (rty, i, params, " ".join(body))


def expected_line(m, j, case, fixed=True):
    """the oracle: what the driver must print for this case (computed from Rust source-level meaning only)"""
    i, k = m["i"], m["kind"]
    if k == "P":
        return "P %d %d | -%s | CALL %d:%s~" % (i, j, _mut_expected(m, case), i, ";".join(t.dump(v) for t, v in zip(m["params"], case)))
    if k == "CL":
        return "CL %d %d | %s | CALL %d:%s~" % (i, j, m["ret"].dump(case[0]), i, m["params"][0].dump(case[0]))
    if k == "R":
        return "R %d %d | %s | CALL %d:~" % (i, j, m["ret"].dump(case), i)
    if k == "PR":
        return "PR %d %d | %s | CALL %d:%s~" % (i, j, m["ret"].dump(case[1]), i, m["params"][0].dump(case[0]))
    if k == "W":
        ci, pv, rv = case
        text = "".join(W_CHUNKS[ci]).encode("utf8")
        w = "[%d:%s]" % (len(text), text.hex())
        pre = (m["ret"].dump(rv) + " ") if m["ret"] else ""
        call = "CALL %d:%s~" % (i, ";".join(t.dump(v) for t, v in zip(m["params"], pv)))
        sizes = _fixed_sizes(ci) if fixed else []
        ftext = ""
        for tag, size in sizes:
            got, failed = _fixed_model(W_CHUNKS[ci], size - 1)
            ftext += " %s f=%d z=0 g=1 [%d:%s]" % (tag, failed, len(got), got.hex())
        return "W %d %d | %s%s%s | %s" % (i, j, pre, w, ftext, call * (1 + len(sizes)))
    if k == "CB" and m.get("multi"):
        return "CB %d %d | calls=3 destroyed=1 | CALL %d:cbm(1,3,6)~" % (i, j, i)
    if k == "CB":
        args, rv = case
        r = "cbret()" if m["ret"] is None else "cbret(%s)" % m["ret"].dump(rv)
        return ["CBARGS %d cookie=1:%s" % (i, ";".join(t.dump(v) for t, v in zip(m["params"], args))),
                "CB %d %d | calls=1 destroyed=1 | CALL %d:%s~" % (i, j, i, r)]
    raise ValueError(k)


def expand_cases(methods):
    out = []
    for m in methods:
        cs = cases_for(m)
        if m["kind"] == "PR":
            rv = (lambda v: v[:2] + v[-2:])(m["ret"].values())
            cs2 = []
            for (p, r) in cs:
                cs2.append((p, r, rv.index(r)))
            cs = cs2
        for j, c in enumerate(cs):
            out.append((m, j, c))
    return out


def render_c_driver(types, methods, headers):
    L = [C_PRELUDE]
    for h in headers:
        L.append('#include "%s"' % h)
    L.append("static int CB_COOKIE, CB_CASE, CB_CALLS, CB_DESTROYED, CBM_ACC;")
    L.append("static void cb_destroy(const void* d) { if (d == &CB_COOKIE) CB_DESTROYED++; }")
    for m in methods:
        if m["kind"] == "CB":
            L.append(c_callback_fn(m))
    cases = expand_cases(methods)
    for (m, j, c) in cases:
        L.append(c_case(m, j, c))
    L.append("static void self_block(void) { for (uint8_t sel = 0; sel < 3; sel++) { St s = { .a = 7, .b = 0x01020304u }; St_opt_self_result r = St_opt_self(s, sel);"
             ' if (r.is_ok) { if (r.ok.is_ok) printf("XS %u ok(some(%u,%u))\\n", (unsigned)sel, (unsigned)r.ok.ok.a, (unsigned)r.ok.ok.b); else printf("XS %u ok(none)\\n", (unsigned)sel); }'
             ' else printf("XS %u err\\n", (unsigned)sel); } }')
    L.append("extern size_t verif_ret_size(uint32_t i);")
    L.append("int main(int argc, char** argv) {")
    L.append("    (void)argc; (void)argv;")
    for m in methods:
        if m["kind"] == "R" and isinstance(m["ret"], (A.Result, A.NullableRet)) and A.rust_ffi_type(m["ret"]):
            L.append('    printf("SZ %d %%llu %%llu\\n", (unsigned long long)sizeof(%s_%s()), (unsigned long long)verif_ret_size(%d));' % (m["i"], m["owner"], m["name"], m["i"]))
    for (m, j, c) in cases:
        L.append("    c_%d_%d();" % (m["i"], j))
    L.append("    self_block();")
    L.append('    printf("DONE\\n");\n    return 0;\n}')
    return "\n".join(L) + "\n", cases


# ---------------------------------------------------------------------------------------------
# C++ driver

CPP_PRELUDE = r"""
#include <cstdio>
#include <cstdlib>
#include <cstring>
#include <cstdint>
#include <memory>
#include <optional>
#include <string>
#include <string_view>
#include <functional>
extern "C" void verif_sel(size_t j);
extern "C" size_t verif_take_log(char* buf, size_t cap);
extern "C" void* diplomat_alloc(size_t size, size_t align);
static char LOGBUF[1 << 16];
static inline float f32_from_bits(unsigned long long b) { uint32_t u = (uint32_t)b; float f; memcpy(&f, &u, 4); return f; }
static inline double f64_from_bits(unsigned long long b) { uint64_t u = (uint64_t)b; double f; memcpy(&f, &u, 8); return f; }
static inline void dump_f32(float f) { uint32_t u; memcpy(&u, &f, 4); printf("f32:%08x", (unsigned)u); }
static inline void dump_f64(double f) { uint64_t u; memcpy(&u, &f, 8); printf("f64:%016llx", (unsigned long long)u); }
static inline void dump_slice(const unsigned char* p, size_t len, int elem) {
    printf("[%llu:", (unsigned long long)len);
    for (size_t i = 0; i < len * (size_t)elem; i++) printf("%02x", p[i]);
    printf("]");
}
static inline void report_log(void) {
    verif_take_log(LOGBUF, sizeof LOGBUF);
    for (char* c = LOGBUF; *c; c++) if (*c == '\n') *c = '~';
    printf(" | %s\n", LOGBUF);
    fflush(stdout);
}
// reference UTF-8 recogniser (Unicode Table 3-7), independent of the library under test
static inline bool ref_utf8(const unsigned char* b, size_t n) {
    size_t i = 0;
    while (i < n) {
        unsigned char c = b[i]; size_t len; unsigned lo = 0x80, hi = 0xBF;
        if (c <= 0x7F) { i++; continue; }
        else if (c >= 0xC2 && c <= 0xDF) len = 2;
        else if (c == 0xE0) { len = 3; lo = 0xA0; }
        else if ((c >= 0xE1 && c <= 0xEC) || c == 0xEE || c == 0xEF) len = 3;
        else if (c == 0xED) { len = 3; hi = 0x9F; }
        else if (c == 0xF0) { len = 4; lo = 0x90; }
        else if (c >= 0xF1 && c <= 0xF3) len = 4;
        else if (c == 0xF4) { len = 4; hi = 0x8F; }
        else return false;
        if (i + len > n) return false;
        if (b[i + 1] < lo || b[i + 1] > hi) return false;
        for (size_t k = 2; k < len; k++) if (b[i + k] < 0x80 || b[i + k] > 0xBF) return false;
        i += len;
    }
    return true;
}
"""


def has_utf8_param(m):
    return any(isinstance(t, A.Slice) and t.enc == "str" for t in m["params"])


def cpp_fn(types, m):
    owner = types.get("cpp_owner", {}).get(m["owner"], m["owner"])
    return "%s::%s" % (owner, m.get("cpp_name", m["name"]))


def cpp_case(types, m, j, case):
    ctx = CCtx("cpp")
    i = m["i"]
    fn = cpp_fn(types, m)
    k = m["kind"]
    body = []
    utf8 = has_utf8_param(m)
    if k == "P":
        args = [t.cpp_lit(v, ctx) for t, v in zip(m["params"], case)]
        if utf8:
            body.append("auto&& r = %s(%s);" % (fn, ", ".join(args)))
            body.append('printf("P %d %d | %%s", r.is_ok() ? "-" : "UTF8ERR");' % (i, j))
        else:
            body.append("%s(%s);" % (fn, ", ".join(args)))
            body.append('printf("P %d %d | -");' % (i, j))
            body += _mut_dumps(m, ctx)
    elif k in ("R", "PR"):
        args = []
        if m["ret"].lifetime:
            args.append("*" + ctx.opaque(1))
        if k == "PR":
            args += [m["params"][0].cpp_lit(case[0], ctx)]
            body.append("verif_sel(%d);" % case[2])
        else:
            body.append("verif_sel(%d);" % j)
        if isinstance(m["ret"], A.Unit):
            body.append("%s(%s);" % (fn, ", ".join(args)))
            body.append('printf("%s %d %d | ()");' % (k, i, j))
        else:
            body.append("auto&& r = %s(%s);" % (fn, ", ".join(args)))
            body.append('printf("%s %d %d | ");' % (k, i, j))
            body.append(m["ret"].cpp_dump("r"))
    elif k == "CL":
        body.append("auto&& r = %s(%s);" % (fn, m["params"][0].cpp_lit(case[0], ctx)))
        body.append('printf("CL %d %d | ");' % (i, j))
        body.append(m["ret"].cpp_dump("r"))
    elif k == "W":
        ci, pv, rv = case
        args = [t.cpp_lit(v, ctx) for t, v in zip(m["params"], pv)]
        sel = ci + 16 * (m["ret"].values().index(rv) if m["ret"] else 0)
        body.append("verif_sel(%d);" % sel)
        body.append("auto&& r = %s(%s);" % (fn, ", ".join(args)))
        body.append('printf("W %d %d | ");' % (i, j))
        if m["ret"] is None:
            body.append("dump_slice((const unsigned char*)r.data(), r.size(), 1);")
        elif isinstance(m["ret"], A.NullableRet):
            body.append('if (r.has_value()) { printf("some(()) "); dump_slice((const unsigned char*)r->data(), r->size(), 1); } else printf("none -");')
        else:
            errd = 'printf("()");' if isinstance(m["ret"].err, A.Unit) else "auto errv = std::move(r).err(); %s" % m["ret"].err.cpp_dump("(*errv)")
            body.append('if (r.is_ok()) { auto okv = std::move(r).ok(); printf("ok(()) "); dump_slice((const unsigned char*)okv->data(), okv->size(), 1); } '
                        'else { printf("err("); %s printf(") -"); }' % errd)
    elif k == "CB":
        args, rv = case
        body.append("verif_sel(%d);" % j)
        body.append("int calls = 0; auto tok = std::make_shared<int>(0);")
        params = ", ".join("%s x%d" % (t.cpp_type(), q) for q, t in enumerate(m["params"]))
        rty = "void" if m["ret"] is None else m["ret"].cpp_type()
        dumps = ' printf(";"); '.join(t.cpp_dump("x%d" % q) for q, t in enumerate(m["params"]))
        ret = "" if m["ret"] is None else "return %s;" % m["ret"].cpp_lit(rv, ctx)
        if m.get("multi"):
            # the state lives inside the callable (by-value capture of a mutable lambda)
            body.append("std::function<uint16_t(uint8_t)> f = [&calls, tok, acc = 0](uint8_t x0) mutable -> uint16_t { calls++; acc += x0; return (uint16_t)acc; };")
        else:
            body.append('std::function<%s(%s)> f = [&calls, tok](%s) -> %s { calls++; printf("CBARGS %d cookie=1:"); %s printf("\\n"); %s };'
                        % (rty, ", ".join(t.cpp_type() for t in m["params"]), params, rty, i, dumps, ret))
        body.append("%s(std::move(f)); f = nullptr;" % fn)
        body.append('printf("CB %d %d | calls=%%d destroyed=%%d", calls, (int)(tok.use_count() == 1));' % (i, j))
    stmts = ctx.pre + body + ctx.post + ["report_log();"]
    return "static void c_%d_%d(void) { %s }" % (i, j, " ".join(stmts))


def expected_line_cpp(m, j, case):
    e = expected_line(m, j, case, fixed=False)   # the C++ API has no caller-owned fixed writer
    if m["kind"] == "W" and isinstance(m["ret"], A.NullableRet):
        ci, pv, rv = case
        if rv is None:
            return "W %d %d | none - | CALL %d:%s~" % (m["i"], j, m["i"], ";".join(t.dump(v) for t, v in zip(m["params"], pv)))
        return e
    if m["kind"] == "W" and m["ret"] is not None and case[2][0] == "err":
        ci, pv, rv = case
        return "W %d %d | %s - | CALL %d:%s~" % (m["i"], j, m["ret"].dump(rv), m["i"], ";".join(t.dump(v) for t, v in zip(m["params"], pv)))
    if m["kind"] == "P" and has_utf8_param(m):
        bad = any(isinstance(t, A.Slice) and t.enc == "str" and v != ("null",) and not _py_utf8(bytes(v)) for t, v in zip(m["params"], case))
        if bad:
            return "P %d %d | UTF8ERR | " % (m["i"], j)
    return e


AR_PAIRS = [((20, 6), (6, 3)), ((7, -40), (-3, 9)), ((0, 100), (5, -7))]


def ar_expected():
    """binary and compound operators of the struct with arithmetic special methods (Rust i32 semantics: `/` truncates)"""
    out = []
    tr = lambda a, b: int(a / b)
    for (ax, ay), (bx, by) in AR_PAIRS:
        vals = []
        for f in (lambda a, b: a + b, lambda a, b: a - b, lambda a, b: a * b, tr):
            vals.append("%d,%d" % (f(ax, bx), f(ay, by)))
        out.append("AR %d,%d %d,%d add=%s sub=%s mul=%s div=%s addeq=%s subeq=%s muleq=%s diveq=%s" % ((ax, ay, bx, by) + tuple(vals) + tuple(vals)))
    return out


def it_expected():
    """every way of walking a 4-element iterable through the C++ adapter must see Rust's sequence 10, 20, 30, 40"""
    return ["IT rangefor=10,20,30,40,", "IT skipfirst=20,30,40,", "IT incr-then-deref=20", "IT incr2-then-deref=30", "IT look-then-step=10,20", "IT empty=0", "IT one=10,"]


def self_expected():
    return ["XS 0 ok(some(7,16909060))", "XS 1 ok(none)", "XS 2 err"]


def cmp_expected():
    out = []
    for x, y in ((1, 1), (1, 2), (2, 1), (0, 4000000000)):
        out.append("CMP %d %d eq=%d ne=%d lt=%d le=%d gt=%d ge=%d" % (x, y, x == y, x != y, x < y, x <= y, x > y, x >= y))
    return out


def _py_utf8(b):
    try:
        b.decode("utf8")
        return True
    except UnicodeDecodeError:
        return False


BOUNDARY = [0x00, 0x7F, 0x80, 0x8F, 0x90, 0x9F, 0xA0, 0xBF, 0xC0, 0xC1, 0xC2, 0xDF, 0xE0, 0xE1, 0xEC, 0xED, 0xEE, 0xEF, 0xF0, 0xF1, 0xF3, 0xF4, 0xF5, 0xFF]


def cpp_utf8_sweep(types, m, pos=0):
    """exhaustive: all byte strings of length <= 2, length 3 and 4 over the boundary alphabet, through the direct &str parameter number `pos`
    (the other parameters get fixed valid values)"""
    fn = cpp_fn(types, m)
    args = []
    for k, t in enumerate(m["params"]):
        if k == pos:
            args.append("std::string_view((const char*)buf, n)")
        elif isinstance(t, A.Slice):
            args.append('std::string_view("ok", 2)')
        else:
            args.append(t.cpp_lit(t.base(), CCtx("cpp")))
    return ("""static void utf8_%(i)d_%(pos)d(void) {
    static const unsigned char AL[] = { %(al)s };
    unsigned long long total = 0, accepted = 0, mism = 0, leaked = 0; unsigned char first[4] = {0,0,0,0}; size_t firstn = 0;
    unsigned char buf[4];
    auto one = [&](size_t n) {
        auto r = %(fn)s(%(args)s);
        size_t ln = verif_take_log(LOGBUF, sizeof LOGBUF);
        bool want = ref_utf8(buf, n);
        total++; if (r.is_ok()) accepted++;
        bool reached = ln > 0;
        if (r.is_ok() != want || reached != want) { if (!mism) { memcpy(first, buf, n); firstn = n; } mism++; }
        if (!want && reached) leaked++;
    };
    one(0);
    for (int a = 0; a < 256; a++) { buf[0] = (unsigned char)a; one(1); for (int b = 0; b < 256; b++) { buf[1] = (unsigned char)b; one(2); } }
    for (size_t a = 0; a < sizeof AL; a++) for (size_t b = 0; b < sizeof AL; b++) for (size_t c = 0; c < sizeof AL; c++) {
        buf[0] = AL[a]; buf[1] = AL[b]; buf[2] = AL[c]; one(3);
        for (size_t d = 0; d < sizeof AL; d++) { buf[3] = AL[d]; one(4); }
    }
    printf("UTF8 %(i)d total=%%llu accepted=%%llu mismatches=%%llu reached_rust_when_invalid=%%llu first=", total, accepted, mism, leaked);
    for (size_t q = 0; q < firstn; q++) printf("%%02x", first[q]);
    printf("\\n"); fflush(stdout);
}""" % dict(i=m["i"], pos=pos, fn=fn, args=", ".join(args), al=", ".join(str(x) for x in BOUNDARY)))


def utf8_sweep_expected():
    total = acc = 0

    def one(b):
        nonlocal total, acc
        total += 1
        if _py_utf8(bytes(b)):
            acc += 1
    one([])
    for a in range(256):
        one([a])
        for b in range(256):
            one([a, b])
    for a in BOUNDARY:
        for b in BOUNDARY:
            for c in BOUNDARY:
                one([a, b, c])
                for d in BOUNDARY:
                    one([a, b, c, d])
    return total, acc


def render_cpp_drivers(types, methods, headers, nshards=16):
    """returns ([source texts], cases, sweep methods): shard k holds every k-th method's cases"""
    cases = expand_cases(methods)
    sweeps = []
    for m in methods:
        if m["kind"] == "P" and all(not (isinstance(t, A.Slice) and t.kind != "ref") for t in m["params"]):
            for k, t in enumerate(m["params"]):
                if isinstance(t, A.Slice) and t.enc == "str" and (len(m["params"]) > 1 or True):
                    if len(m["params"]) == 1 or sum(1 for x in m["params"] if isinstance(x, A.Slice) and x.enc == "str") > 1:
                        sweeps.append((m, k))
    head = [CPP_PRELUDE] + ['#include "%s"' % h for h in headers]
    shards = []
    for k in range(nshards):
        L = list(head)
        mine = [(m, j, c) for (m, j, c) in cases if m["i"] % nshards == k]
        for (m, j, c) in mine:
            L.append(cpp_case(types, m, j, c))
        L.append("void run_shard_%d(void) {" % k)
        for (m, j, c) in mine:
            L.append("    c_%d_%d();" % (m["i"], j))
        L.append("}")
        shards.append("\n".join(L) + "\n")
    L = list(head)
    for (m, k) in sweeps:
        L.append(cpp_utf8_sweep(types, m, k))
    # the comparison special method: all six operators over ordered / equal / reversed pairs
    L.append("static void cmp_block() { for (auto [x, y] : {std::pair<uint32_t, uint32_t>{1, 1}, {1, 2}, {2, 1}, {0, 4000000000u}}) { auto a = Op::new_(x); auto b = Op::new_(y);"
             ' printf("CMP %u %u eq=%d ne=%d lt=%d le=%d gt=%d ge=%d\\n", x, y, (int)(*a == *b), (int)(*a != *b), (int)(*a < *b), (int)(*a <= *b), (int)(*a > *b), (int)(*a >= *b)); } }')
    L.append("static void it_block() {")
    L.append('    auto l = ItList::make(4); printf("IT rangefor="); for (auto v : *l) printf("%u,", v); printf("\\n");')
    L.append('    { auto it = l->begin(); ++it; printf("IT skipfirst="); for (; it != l->end(); ++it) printf("%u,", *it); printf("\\n"); }')
    L.append('    { auto it = l->begin(); ++it; printf("IT incr-then-deref=%u\\n", *it); }')
    L.append('    { auto it = l->begin(); ++it; ++it; printf("IT incr2-then-deref=%u\\n", *it); }')
    L.append('    { auto it = l->begin(); uint32_t a = *it; ++it; uint32_t b = *it; printf("IT look-then-step=%u,%u\\n", a, b); }')
    L.append('    { auto e = ItList::make(0); int n = 0; for (auto v : *e) { (void)v; n++; } printf("IT empty=%d\\n", n); }')
    L.append('    { auto o = ItList::make(1); printf("IT one="); for (auto v : *o) printf("%u,", v); printf("\\n"); }')
    L.append("}")
    L.append("static void ar_block() {")
    for (ax, ay), (bx, by) in AR_PAIRS:
        L.append("    { Ar a{%d, %d}; Ar b{%d, %d}; Ar s = a + b, d = a - b, m = a * b, q = a / b; Ar c1 = a; c1 += b; Ar c2 = a; c2 -= b; Ar c3 = a; c3 *= b; Ar c4 = a; c4 /= b;" % (ax, ay, bx, by))
        L.append('      printf("AR %d,%d %d,%d add=%d,%d sub=%d,%d mul=%d,%d div=%d,%d addeq=%d,%d subeq=%d,%d muleq=%d,%d diveq=%d,%d\\n", a.x, a.y, b.x, b.y, s.x, s.y, d.x, d.y, m.x, m.y, q.x, q.y, '
                 'c1.x, c1.y, c2.x, c2.y, c3.x, c3.y, c4.x, c4.y); }')
    L.append("}")
    for k in range(nshards):
        L.append("void run_shard_%d(void);" % k)
    L.append("int main() {")
    for k in range(nshards):
        L.append("    run_shard_%d();" % k)
    for (m, k) in sweeps:
        L.append("    utf8_%d_%d();" % (m["i"], k))
    L.append("    cmp_block();")
    L.append("    ar_block();")
    L.append("    it_block();")
    L.append('    printf("DONE\\n");\n    return 0;\n}')
    shards.append("\n".join(L) + "\n")
    order = []
    for k in range(nshards):
        order += [(m, j, c) for (m, j, c) in cases if m["i"] % nshards == k]
    return shards, order, sweeps
