"""Shared machinery for all checks: paths, builds, subprocess pool, evidence, verdict protocol."""
import concurrent.futures as cf
import hashlib
import json
import os
import shutil
import subprocess
import sys
import time

VERIF = os.path.dirname(os.path.dirname(os.path.dirname(os.path.abspath(__file__))))
REPO = os.environ.get("VERIF_REPO", "/repo")
BUILD = os.path.join(VERIF, ".build")
NCPU = min(16, os.cpu_count() or 4)
BACKENDS = ["c", "cpp", "js", "dart", "kotlin", "nanobind", "demo_gen"]


class MachineryError(Exception):
    """Raised for problems of the checking machinery itself (exit 2, never a verdict)."""


def cargo_env(extra=None):
    env = dict(os.environ)
    env["CARGO_NET_OFFLINE"] = "true"
    env.setdefault("CARGO_TERM_COLOR", "never")
    env.pop("RUSTFLAGS", None)
    if extra:
        env.update(extra)
    return env


def _repo_tag():
    return "" if REPO == "/repo" else "-" + hashlib.sha1(REPO.encode()).hexdigest()[:8]


def sh(cmd, cwd=None, env=None, timeout=None, check=True, input=None):
    p = subprocess.run(cmd, cwd=cwd, env=env, timeout=timeout, input=input,
                       stdout=subprocess.PIPE, stderr=subprocess.PIPE, text=True)
    if check and p.returncode != 0:
        raise MachineryError("command failed (%d): %s\n%s\n%s" % (
            p.returncode, cmd if isinstance(cmd, str) else " ".join(cmd), p.stdout[-4000:], p.stderr[-6000:]))
    return p


_tool_path = None


def build_tool():
    """Build diplomat-tool (release) from REPO's working tree; returns path of the binary."""
    global _tool_path
    if _tool_path:
        return _tool_path
    tdir = os.path.join(BUILD, "tool" + _repo_tag())
    os.makedirs(tdir, exist_ok=True)
    sh(["cargo", "build", "--offline", "--release", "-p", "diplomat-tool", "--manifest-path",
        os.path.join(REPO, "Cargo.toml")], env=cargo_env({"CARGO_TARGET_DIR": tdir}), timeout=1800)
    _tool_path = os.path.join(tdir, "release", "diplomat-tool")
    return _tool_path


def harness_src(name):
    """Harness crates have path deps on /repo; when VERIF_REPO overrides, a rewritten copy is used."""
    src = os.path.join(VERIF, "harness", name)
    if REPO == "/repo":
        return src
    dst = os.path.join(BUILD, "hx" + _repo_tag(), name)
    if os.path.exists(dst):
        shutil.rmtree(dst)
    shutil.copytree(src, dst, ignore=shutil.ignore_patterns("target"))
    for root, _, files in os.walk(dst):
        for f in files:
            if f == "Cargo.toml":
                p = os.path.join(root, f)
                s = open(p).read().replace('"/repo/', '"%s/' % REPO)
                open(p, "w").write(s)
    return dst


def build_harness(name, bins=None, profile="release", features=None):
    """cargo build a harness crate under /verif/harness/<name>; returns dir holding the binaries."""
    src = harness_src(name)
    lock = os.path.join(src, "Cargo.lock")
    if not os.path.exists(lock):
        shutil.copy(os.path.join(REPO, "Cargo.lock"), lock)
    tdir = os.path.join(BUILD, name + _repo_tag())
    os.makedirs(tdir, exist_ok=True)
    cmd = ["cargo", "build", "--offline"]
    if profile == "release":
        cmd.append("--release")
    if features:
        cmd += ["--features", ",".join(features)]
    for b in bins or []:
        cmd += ["--bin", b]
    sh(cmd, cwd=src, env=cargo_env({"CARGO_TARGET_DIR": tdir}), timeout=3600)
    return os.path.join(tdir, profile if profile == "release" else "debug")


def workdir(check_id, fresh=True):
    d = os.path.join(BUILD, "work" + _repo_tag(), check_id)
    if fresh and os.path.exists(d):
        shutil.rmtree(d, ignore_errors=True)
    os.makedirs(d, exist_ok=True)
    return d


def pmap(fn, items, workers=NCPU):
    items = list(items)
    if not items:
        return []
    with cf.ThreadPoolExecutor(max_workers=workers) as ex:
        return list(ex.map(fn, items))


def run_tool(backend, entry, out, config_file=None, configs=(), cwd=None, timeout=120, extra_args=()):
    """Run the real diplomat-tool binary. Returns CompletedProcess (never raises on exit status)."""
    tool = build_tool()
    cmd = [tool, backend, out, "--entry", entry, "-s"]
    # the default config file is ./config.toml relative to cwd: always point somewhere explicit
    cmd += ["--config-file", config_file or os.path.join(BUILD, "nonexistent-config.toml")]
    for c in configs:
        cmd += ["--config", c]
    cmd += list(extra_args)
    env = dict(os.environ)
    env["RUST_BACKTRACE"] = "0"
    env["NO_COLOR"] = "1"
    try:
        return subprocess.run(cmd, cwd=cwd, env=env, timeout=timeout, stdout=subprocess.PIPE,
                              stderr=subprocess.PIPE, text=True, errors="replace")
    except subprocess.TimeoutExpired as e:
        return subprocess.CompletedProcess(cmd, -999, e.stdout or "", "TIMEOUT")


def default_configs(backend):
    """Minimal required config for backends that cannot run without it."""
    if backend == "nanobind":
        return ["lib_name=somelib"]
    if backend == "kotlin":
        return ["lib_name=somelib", "kotlin.domain=dev.verif"]
    return []


def read_tree(d):
    out = {}
    for root, _, files in os.walk(d):
        for f in files:
            p = os.path.join(root, f)
            with open(p, "rb") as fh:
                out[os.path.relpath(p, d)] = fh.read()
    return out


def sha(s):
    if isinstance(s, str):
        s = s.encode()
    return hashlib.sha1(s).hexdigest()[:12]


# ---------------------------------------------------------------------------------------------
# verdict protocol


def load_known(prop):
    p = os.path.join(VERIF, "known_findings.json")
    if not os.path.exists(p):
        return []
    data = json.load(open(p))
    return [f for f in data.get("findings", []) if f["property"] == prop and f.get("status", "open") == "open"]


def _safe(s):
    """text that can always be printed (a witness may hold lone surrogates on purpose)"""
    return str(s).encode("utf-8", "backslashreplace").decode("utf-8")


class Reporter:
    """Collects violations, maps them onto known findings, writes replay files and evidence."""

    def __init__(self, prop, tier, level):
        self.prop = prop
        self.tier = tier
        self.level = level
        self.seed = int(os.environ.get("VERIF_SEED", "0") or 0)
        self.t0 = time.time()
        self.known = load_known(prop)
        self.known_hit = {}
        self.violations = []
        self.cov = {}
        self.assumptions = []
        self.notes = []

    def violation(self, key, witness, what=None):
        """key: stable string identifying the failing input class / call site."""
        for k in self.known:
            if k["key"] == key:
                if key not in self.known_hit:
                    self.known_hit[key] = 0
                    print(_safe("KNOWN-FINDING: property=%s %s" % (self.prop, k.get("summary", key))))
                self.known_hit[key] += 1
                return False
        for v in self.violations:
            if v["key"] == key:
                v["count"] += 1
                return True
        rdir = os.path.join(VERIF, "replays", self.prop) if REPO == "/repo" else os.path.join(BUILD, "replays" + _repo_tag(), self.prop)
        os.makedirs(rdir, exist_ok=True)
        path = os.path.join(rdir, "%s.json" % sha(key))
        with open(path, "w") as fh:
            json.dump({"property": self.prop, "key": key, "what": what, "witness": witness,
                       "replay_cmd": "./check %s --replay %s" % (self.prop, path)}, fh, indent=1, default=str)
        self.violations.append({"key": key, "path": path, "count": 1})
        print("VIOLATION property=%s replay=%s" % (self.prop, path))
        if what:
            print(_safe("  what: %s" % what))
        print(_safe("  key: %s" % key))
        sys.stdout.flush()
        return True

    def finish(self, coverage, assumptions=None):
        cov = dict(coverage)
        cov["known_findings_hit"] = sorted(self.known_hit)
        samples = cov.get("samples") or []
        if samples and self.seed:
            r = self.seed % len(samples)
            samples = samples[r:] + samples[:r]
        cov["samples"] = samples[:8]
        ev = {
            "property_id": self.prop,
            "tier": self.tier,
            "seed": self.seed,
            "level": self.level,
            "coverage": cov,
            "assumptions": list(assumptions or []) + self.assumptions,
            "wall_s": round(time.time() - self.t0, 2),
            "violations": len(self.violations),
        }
        # runs against another checkout (VERIF_REPO, used for mutants) must not overwrite the evidence of /repo
        evdir = os.path.join(VERIF, "evidence") if REPO == "/repo" else os.path.join(BUILD, "evidence" + _repo_tag())
        os.makedirs(evdir, exist_ok=True)
        with open(os.path.join(evdir, "%s.json" % self.prop), "w") as fh:
            json.dump(ev, fh, indent=1, default=str)
        do = cov.get("distinct_outcomes")
        summary = {k: v for k, v in cov.items() if isinstance(v, (int, float, bool))}
        print("%s %s: %s wall=%.1fs violations=%d known=%d" % (
            self.prop, self.tier, json.dumps(summary), ev["wall_s"], len(self.violations), len(self.known_hit)))
        if self.violations:
            return 1
        if do is not None and do < 2:
            print("MACHINERY: vacuous exploration (distinct_outcomes=%s)" % do)
            return 2
        return 0
