"""C08 support: struct universe over a field alphabet, bridge source, rustc layout-oracle crate, expected bytes,
reference argument flattening (legacy per docs/wasm_abi_quirks.md, spec per the wasm C ABI)."""
import itertools
import struct

# scalar kinds: (size, align, js typed array) on wasm32
SCALARS = {
    "u8": (1, 1), "i16": (2, 2), "u32": (4, 4), "u64": (8, 8), "f32": (4, 4), "f64": (8, 8), "bool": (1, 1),
    "char": (4, 4), "usize": (4, 4), "en": (4, 4), "ptr": (4, 4), "i8": (1, 1), "u16": (2, 2), "i32": (4, 4), "i64": (8, 8), "isize": (4, 4),
}

ENUM = [("A", 0), ("B", 5), ("C", -6)]


class U8Str(str):
    """a value of a UTF-8 string slice (plain str values are UTF-16 slices)"""


def utf8_of_js_string(v):
    """what a JS string becomes as UTF-8 (TextEncoder semantics: an unpaired surrogate is written as U+FFFD)"""
    return v.encode("utf-16-le", "surrogatepass").decode("utf-16-le", "replace").encode("utf-8")


class PSlice(list):
    """a value of a primitive slice with an element kind other than u8"""

    def __init__(self, elem, xs):
        list.__init__(self, xs)
        self.elem = elem


def slice_enc(v):
    """-> (content bytes, element size) of a slice value"""
    if isinstance(v, PSlice):
        return b"".join(enc_scalar(v.elem, x) for x in v), SCALARS[v.elem][0]
    if isinstance(v, U8Str):
        return utf8_of_js_string(v), 1
    if isinstance(v, str):
        return v.encode("utf-16-le", "surrogatepass"), 2
    return bytes(v), 1


def slice_len(v):
    b, e = slice_enc(v)
    return len(b) // e


class FT:
    """field type"""

    def __init__(self, key, bridge, oracle, kind, vals, inner=None):
        self.key = key
        self.bridge = bridge    # Rust spelling in the bridge struct
        self.oracle = oracle    # Rust spelling in the host layout oracle (pointers/usize -> u32)
        self.kind = kind        # scalar kind | 'slice' | 'struct' | 'option'
        self.vals = vals
        self.inner = inner      # for struct: [(name, FT)], for option: FT
        self.lifetime = "'a" in bridge


def _s(key, bridge, oracle, vals):
    return FT(key, bridge, oracle, key if key in SCALARS else None, vals)


U8 = FT("u8", "u8", "u8", "u8", [0, 1, 255, 0xA5])
I16 = FT("i16", "i16", "i16", "i16", [0, -1, 32767, -32768, 0x0102])
U16 = FT("u16", "u16", "u16", "u16", [0, 65535, 0x0102])
U32 = FT("u32", "u32", "u32", "u32", [0, 1, 0xFFFFFFFF, 0xA5A5A5A5, 0x01020304])
U64 = FT("u64", "u64", "u64", "u64", [0, 1, 0xFFFFFFFFFFFFFFFF, 0x0102030405060708])
F32 = FT("f32", "f32", "f32", "f32", [0.0, 1.5, -2.25, float("inf")])
F64 = FT("f64", "f64", "f64", "f64", [0.0, 1.5, -2.25e100, float("-inf")])
BOOL = FT("bool", "bool", "bool", "bool", [False, True])
CHAR = FT("char", "DiplomatChar", "u32", "char", [0, 0x41, 0x10FFFF, 0x20AC])
USIZE = FT("usize", "usize", "u32", "usize", [0, 1, 0xFFFFFFFF])
EN = FT("en", "En", "En", "en", [0, 1, 2])  # variant index
OP = FT("op", "&'a Op", "u32", "ptr", [0x1000, 0xFFFFFFF0])
OOP = FT("oop", "Option<&'a Op>", "u32", "ptr", [None, 0x2000])
SL8 = FT("sl8", "DiplomatSlice<'a, u8>", "[u32; 2]", "slice", [[], [1, 2, 3]])
# primitive slices of every element width / signedness class (the JS side picks a typed-array kind and an element size per type)
def _ps(key, rust, elem, xs):
    return FT(key, "DiplomatSlice<'a, %s>" % rust, "[u32; 2]", "slice", [PSlice(elem, []), PSlice(elem, xs)])


SLI8 = _ps("sli8", "i8", "i8", [-1, 127, -128])
SLU16 = _ps("slu16", "u16", "u16", [1, 0xFFFF, 0x0102])
SLI32 = _ps("sli32", "i32", "i32", [-1, 0x7FFFFFFF, -0x80000000])
SLISZ = _ps("slisz", "isize", "isize", [-1, 0x7FFFFFFF, -0x80000000])
SLUSZ = _ps("slusz", "usize", "usize", [1, 0xFFFFFFFF])
SLI64 = _ps("sli64", "i64", "i64", [-1, 1 << 40, -(1 << 63)])
SLU64 = _ps("slu64", "u64", "u64", [1, (1 << 64) - 1])
SLF32 = _ps("slf32", "f32", "f32", [1.5, -2.25])
SLF64 = _ps("slf64", "f64", "f64", [1.5, -2.25e100])
SLCH = _ps("slch", "DiplomatChar", "char", [0x41, 0x20AC, 0x10FFFF])
SLBOOL = _ps("slbool", "bool", "bool", [True, False, True])
TYPED_SLICES = [SLI8, SLU16, SLI32, SLISZ, SLUSZ, SLI64, SLU64, SLF32, SLF64, SLCH, SLBOOL]
# UTF-16 views are unvalidated: an unpaired surrogate and a leading U+FEFF are ordinary code units and must survive
# UTF-8 string slice: the JS side measures the UTF-8 length itself (lone surrogates become U+FFFD, 3 bytes)
ST8 = FT("st8", "DiplomatStrSlice<'a>", "[u32; 2]", "slice", [U8Str(""), U8Str("a\u00e9\u20ac\U0001d11e"), U8Str("a\ud800"), U8Str("\ud800\u00e9"), U8Str("\udc00z")])
S16 = FT("s16", "DiplomatStr16Slice<'a>", "[u32; 2]", "slice", ["", "aé€", "\ufeffab", "a\ud800", "\udc00\ud83d", "x\U0001f600y\U00010000"])
IN1 = FT("in1", "In1", "In1", "struct", None, inner=[("x", U8)])
IN2 = FT("in2", "In2", "In2", "struct", None, inner=[("a", U8), ("b", U32)])
IN3 = FT("in3", "In3", "In3", "struct", None, inner=[("p", U64), ("q", U8), ("r", U16)])
for _t in (IN1, IN2, IN3):
    _b = tuple(f.vals[1] for _, f in _t.inner)
    _c = tuple(f.vals[-1] for _, f in _t.inner)
    _t.vals = [_b, _c]
# Some(falsy JS value) - 0, false, 0n - must stay Some
OU8 = FT("ou8", "DiplomatOption<u8>", "DiplomatOption<u8>", "option", [None, 0, 0xA5], inner=U8)
OBOOL = FT("obool", "DiplomatOption<bool>", "DiplomatOption<bool>", "option", [None, False, True], inner=BOOL)
OU16 = FT("ou16", "DiplomatOption<u16>", "DiplomatOption<u16>", "option", [None, 0, 0x0102], inner=U16)
OU64 = FT("ou64", "DiplomatOption<u64>", "DiplomatOption<u64>", "option", [None, 0, 0x0102030405060708], inner=U64)
OEN = FT("oen", "DiplomatOption<En>", "DiplomatOption<En>", "option", [None, 2], inner=EN)
OIN2 = FT("oin2", "DiplomatOption<In2>", "DiplomatOption<In2>", "option", [None, (7, 0xDEADBEEF)], inner=IN2)

ALPHABET = [U8, I16, U32, U64, F32, F64, BOOL, CHAR, USIZE, EN, OP, OOP, SL8, S16, ST8, IN1, IN2, IN3, OU8, OU16, OU64, OEN, OIN2, OBOOL]
ALPHA12 = [U8, I16, U32, U64, F64, BOOL, EN, OP, SL8, IN2, OU16, OIN2]
ALPHA6 = [U8, I16, U32, U64, IN2, OU8]
# #[diplomat::out] structs nested in each other down to one scalar: a returned aggregate that holds a single scalar, however deep,
# travels as that scalar
OIN1 = FT("oin1", "OIn1", "OIn1", "struct", None, inner=[("x", U32)])
OIN1.vals = [(f.vals[1],) for _, f in OIN1.inner] + [(f.vals[-1],) for _, f in OIN1.inner]
OIN1B = FT("oin1b", "OIn1b", "OIn1b", "struct", None, inner=[("y", OIN1)])
OIN1B.vals = [(OIN1.vals[0],), (OIN1.vals[1],)]
NESTED = {"In1": IN1, "In2": IN2, "In3": IN3, "OIn1": OIN1, "OIn1b": OIN1B}


class StructDef:
    def __init__(self, name, fields, out=False):
        self.name = name
        self.fields = fields  # [(fname, FT)]
        self.lifetime = any(f.lifetime for _, f in fields)
        self.out = out        # #[diplomat::out]: only ever returned

    def values(self):
        """each field's alphabet with the others at their second value + all-last"""
        base = [f.vals[1 % len(f.vals)] for _, f in self.fields]
        out, seen = [], set()

        def add(v):
            if repr(v) not in seen:
                seen.add(repr(v))
                out.append(list(v))
        add(base)
        for i, (_, f) in enumerate(self.fields):
            for v in f.vals:
                x = list(base)
                x[i] = v
                add(x)
        add([f.vals[-1] for _, f in self.fields])
        add([f.vals[0] for _, f in self.fields])
        return out


def universe(tier):
    out = []
    k = 0
    for n in (1, 2):
        for combo in itertools.product(ALPHABET, repeat=n):
            out.append(StructDef("S%d" % k, [("f%d" % i, t) for i, t in enumerate(combo)]))
            k += 1
    for combo in ((OIN1,), (OIN1B,), (U32,), (OIN1, U8), (U8, OIN1B), (IN1,)):
        out.append(StructDef("S%d" % k, [("f%d" % i, x) for i, x in enumerate(combo)], out=True))
        k += 1
    for t in TYPED_SLICES:
        for combo in ((t,), (U8, t), (t, U8), (U64, t), (t, t)):
            out.append(StructDef("S%d" % k, [("f%d" % i, x) for i, x in enumerate(combo)]))
            k += 1
    if tier == "thorough":
        for combo in itertools.product(ALPHA12, repeat=3):
            out.append(StructDef("S%d" % k, [("f%d" % i, t) for i, t in enumerate(combo)]))
            k += 1
        for combo in itertools.product(ALPHA6, repeat=4):
            out.append(StructDef("S%d" % k, [("f%d" % i, t) for i, t in enumerate(combo)]))
            k += 1
    return out


# result / option wrappers around a struct return: name -> (ok type, err type); '@' is the struct. 'o' is Option<@>.
# (primitive error types are left out: the JS backend panics on them, which is a C15 finding)
WRAPPERS = {"r": ("()", "@"), "k": ("@", "()"), "o": ("@", "()"), "u": ("u8", "@"), "w": ("u64", "@"), "e": ("@", "En"), "z": ("Zs", "@"), "v": ("@", "Zs"), "y": ("()", "Zs")}
# (Zs is a field-less struct: like unit it occupies no payload bytes)
ARM_BYTES = {"()": b"", "u8": bytes([0x7B]), "u64": bytes([8, 7, 6, 5, 4, 3, 2, 1]), "En": bytes([5, 0, 0, 0]), "Zs": b""}


def bridge_source(structs, per_owner=60):
    L = ["#[diplomat::bridge]\nmod ffi {",
         "    #[diplomat::opaque]\n    pub struct Op(pub u32);",
         "    pub enum En { A = 0, B = 5, C = -6 }",
         "    pub struct In1 { pub x: u8 }", "    pub struct In2 { pub a: u8, pub b: u32 }", "    pub struct In3 { pub p: u64, pub q: u8, pub r: u16 }",
         "    #[diplomat::out]\n    pub struct OIn1 { pub x: u32 }", "    #[diplomat::out]\n    pub struct OIn1b { pub y: OIn1 }", "    pub struct Zs {}"]
    for s in structs:
        lt = "<'a>" if s.lifetime else ""
        L.append("    %spub struct %s%s { %s }" % ("#[diplomat::out]\n    " if s.out else "", s.name, lt, ", ".join("pub %s: %s" % (n, f.bridge) for n, f in s.fields)))
    owners = []
    for k in range(0, len(structs), per_owner):
        o = "H%d" % (k // per_owner)
        owners.append(o)
        L.append("    #[diplomat::opaque]\n    pub struct %s;" % o)
        L.append("    impl %s {" % o)
        for s in structs[k:k + per_owner]:
            s.owner = o
            if not s.out:
                L.append("        pub fn take_%s(x: %s) { unimplemented!() }" % (s.name.lower(), s.name))
            if s.lifetime:
                L.append("        pub fn give_%s<'a>(x: &'a Op) -> %s<'a> { unimplemented!() }" % (s.name.lower(), s.name))
            else:
                L.append("        pub fn give_%s() -> %s { unimplemented!() }" % (s.name.lower(), s.name))
                for w, (okt, errt) in WRAPPERS.items():
                    rt = "Option<%s>" % s.name if w == "o" else "Result<%s, %s>" % (okt.replace("@", s.name), errt.replace("@", s.name))
                    L.append("        pub fn give_%s_%s() -> %s { unimplemented!() }" % (w, s.name.lower(), rt))
        L.append("    }")
    L.append("}")
    return "\n".join(L) + "\n"


def oracle_source(structs):
    """host program printing the repr(C) layout (32-bit pointers substituted) as JSON.  One small function per struct and two
    generic printers: a single huge main() with one println! per line took rustc the better part of an hour on the thorough universe"""
    L = ["#![allow(dead_code, non_snake_case)]", "use diplomat_runtime::{DiplomatOption, DiplomatResult};", "use core::mem::{size_of, align_of, offset_of};",
         "#[repr(C)] #[derive(Clone, Copy)] pub enum En { A = 0, B = 5, C = -6 }",
         "#[repr(C)] pub struct In1 { pub x: u8 }", "#[repr(C)] pub struct In2 { pub a: u8, pub b: u32 }", "#[repr(C)] pub struct In3 { pub p: u64, pub q: u8, pub r: u16 }",
         "#[repr(C)] pub struct OIn1 { pub x: u32 }", "#[repr(C)] pub struct OIn1b { pub y: OIn1 }", "#[repr(C)] pub struct Zs {}",
         "#[inline(never)] fn st<T>(name: &str, offs: &[usize]) { println!(\"\\\"{}\\\": {{\\\"size\\\": {}, \\\"align\\\": {}, \\\"offsets\\\": {:?}}},\", name, size_of::<T>(), align_of::<T>(), offs); }",
         "#[inline(never)] fn fl<T>(name: &str, flag: usize) { println!(\"\\\"{}\\\": {{\\\"size\\\": {}, \\\"align\\\": {}, \\\"flag\\\": {}}},\", name, size_of::<T>(), align_of::<T>(), flag); }"]
    for s in structs:
        L.append("#[repr(C)] pub struct %s { %s }" % (s.name, ", ".join("pub %s: %s" % (n, f.oracle) for n, f in s.fields)))
    calls = []
    for t in ("In1", "In2", "In3", "OIn1", "OIn1b"):
        fs = NESTED[t].inner
        calls.append('st::<%s>("%s", &[%s]);' % (t, t, ", ".join("offset_of!(%s, %s)" % (t, n) for n, _ in fs)))
    for o in (OU8, OU16, OU64, OEN, OIN2, OBOOL):
        calls.append('fl::<%s>("%s", offset_of!(%s, is_ok));' % (o.oracle, o.oracle, o.oracle))
    L.append("fn p_fixed() { %s }" % " ".join(calls))
    for s in structs:
        body = ['st::<%s>("%s", &[%s]);' % (s.name, s.name, ", ".join("offset_of!(%s, %s)" % (s.name, n) for n, _ in s.fields))]
        if not s.lifetime:
            for w, (okt, errt) in WRAPPERS.items():
                t = "DiplomatResult<%s, %s>" % (okt.replace("@", s.name), errt.replace("@", s.name))
                body.append('fl::<%s>("%s|%s", offset_of!(%s, is_ok));' % (t, s.name, w, t))
        L.append("fn p_%s() { %s }" % (s.name, " ".join(body)))
    L.append("fn main() {")
    L.append('    println!("{{");')
    L.append("    p_fixed();")
    for s in structs:
        L.append("    p_%s();" % s.name)
    L.append('    println!("\\"_end\\": 0}}");')
    L.append("}")
    return "\n".join(L) + "\n"


# ---------------------------------------------------------------------------------------------
# expected bytes


def enc_scalar(kind, v):
    if kind in ("u8", "bool"):
        return bytes([int(v) & 0xFF])
    if kind == "i8":
        return struct.pack("<b", v)
    if kind == "i16":
        return struct.pack("<h", v)
    if kind == "u16":
        return struct.pack("<H", v)
    if kind in ("u32", "char", "usize"):
        return struct.pack("<I", v)
    if kind == "ptr":
        return struct.pack("<I", 0 if v is None else v)
    if kind == "en":
        return struct.pack("<i", ENUM[v][1])
    if kind == "u64":
        return struct.pack("<Q", v)
    if kind == "i64":
        return struct.pack("<q", v)
    if kind in ("i32", "isize"):
        return struct.pack("<i", v)
    if kind == "f32":
        return struct.pack("<f", v)
    if kind == "f64":
        return struct.pack("<d", v)
    raise ValueError(kind)


def place(ft, v, off, lay, out, slices):
    """out: {offset: byte} of *defined* bytes; slices: list of (offset_of_ptr_len, ft, value)"""
    if ft.kind in SCALARS:
        for i, b in enumerate(enc_scalar(ft.kind, v)):
            out[off + i] = b
    elif ft.kind == "slice":
        slices.append((off, ft, v))
        n = slice_len(v)
        for i, b in enumerate(struct.pack("<I", n)):
            out[off + 4 + i] = b
    elif ft.kind == "struct":
        l = lay[ft.oracle]
        for (fn, ff), o, x in zip(ft.inner, l["offsets"], v):
            place(ff, x, off + o, lay, out, slices)
    elif ft.kind == "option":
        l = lay[ft.oracle]
        out[off + l["flag"]] = 0 if v is None else 1
        if v is not None:
            place(ft.inner, v, off, lay, out, slices)
    else:
        raise ValueError(ft.kind)


def expected_bytes(s, vals, lay):
    out, slices = {}, []
    for (fn, ft), o, v in zip(s.fields, lay[s.name]["offsets"], vals):
        place(ft, v, o, lay, out, slices)
    return out, slices


def size_align(ft, lay):
    if ft.kind in SCALARS:
        return SCALARS[ft.kind]
    if ft.kind == "slice":
        return (8, 4)
    return (lay[ft.oracle]["size"], lay[ft.oracle]["align"])


# ---------------------------------------------------------------------------------------------
# reference flattening


def scalars_of(ft, v, base, lay, acc):
    """transitive scalar list [(offset, size, align, kind, value)]; unions appear as ('union', ...)"""
    if ft.kind in SCALARS:
        sz, al = SCALARS[ft.kind]
        acc.append((base, sz, al, ft.kind, v))
    elif ft.kind == "slice":
        acc.append((base, 4, 4, "sliceptr", v))
        n = slice_len(v)
        acc.append((base + 4, 4, 4, "u32", n))
    elif ft.kind == "struct":
        l = lay[ft.oracle]
        for (fn, ff), o, x in zip(ft.inner, l["offsets"], v):
            scalars_of(ff, x, base + o, lay, acc)
    elif ft.kind == "option":
        l = lay[ft.oracle]
        isz, ial = size_align(ft.inner, lay)
        acc.append((base, isz, ial, "union", (ft, v)))
        acc.append((base + l["flag"], 1, 1, "bool", v is not None))


def js_arg(kind, v):
    """the JS value expected in an argument slot for a scalar"""
    if kind == "en":
        return ENUM[v][1]
    if kind == "ptr":
        return 0 if v is None else v
    if kind == "bool":
        return bool(v)
    if kind == "u64":
        return {"big": str(v)}
    if kind in ("f32", "f64"):
        return {"f": repr(float(v))}
    return v


def _slots(ft, v, lay):
    """padded-direct slots of one field (including the internal and trailing padding of nested aggregates)"""
    if ft.kind in SCALARS:
        return [{"v": js_arg(ft.kind, v), "k": ft.kind}]
    if ft.kind == "slice":
        n = slice_len(v)
        return [{"sliceptr": v}, {"v": n, "k": "u32"}]
    if ft.kind == "struct":
        l = lay[ft.oracle]
        return _struct_slots(ft.inner, l["offsets"], l["size"], v, lay)
    if ft.kind == "option":
        l = lay[ft.oracle]
        isz, ial = size_align(ft.inner, lay)
        n = max(1, isz // ial)
        out = []
        if v is None:
            out += [{"unionslot": None}] * n
        else:
            o2, sl2 = {}, []
            place(ft.inner, v, 0, lay, o2, sl2)
            for i in range(n):
                chunk = bytes(o2.get(i * ial + j, 0) for j in range(ial))
                out.append({"unionslot": chunk.hex(), "mask": [(i * ial + j) in o2 for j in range(ial)], "w": ial})
        out.append({"v": v is not None, "k": "bool"})
        out += [{"pad": 1}] * (l["size"] - l["flag"] - 1)
        return out
    raise ValueError(ft.kind)


def _struct_slots(fields, offsets, size, vals, lay):
    out = []
    pos, prev_al = 0, 1
    for (fn, ft), off, v in zip(fields, offsets, vals):
        if off > pos:
            out += [{"pad": 1}] * ((off - pos) // prev_al)
        out += _slots(ft, v, lay)
        sz, al = size_align(ft, lay)
        pos, prev_al = off + sz, al
    if size > pos:
        out += [{"pad": 1}] * ((size - pos) // prev_al)
    return out


def flatten_legacy(s, vals, lay):
    """docs/wasm_abi_quirks.md: <= 2 transitive scalars and no union: direct (scalars only); otherwise padded direct: every scalar plus
    padding slots typed by the alignment of the preceding field; unions as size/align slots of `align` bytes, then the flag, then i8 padding."""
    acc = []
    for (fn, ft), o, v in zip(s.fields, lay[s.name]["offsets"], vals):
        scalars_of(ft, v, o, lay, acc)
    has_union = any(k == "union" for (_, _, _, k, _) in acc)
    if not has_union and len(acc) <= 2:
        out = []
        for (off, sz, al, kind, v) in acc:
            out.append({"sliceptr": v} if kind == "sliceptr" else {"v": js_arg(kind, v), "k": kind})
        return out
    return _struct_slots(s.fields, lay[s.name]["offsets"], lay[s.name]["size"], vals, lay)


def flatten_spec(s, vals, lay):
    """wasm C ABI (tool conventions): aggregates containing exactly one scalar transitively are passed as that scalar, all others by
    pointer to a buffer holding the struct"""
    acc = []
    for (fn, ft), o, v in zip(s.fields, lay[s.name]["offsets"], vals):
        scalars_of(ft, v, o, lay, acc)
    if len(acc) == 1 and acc[0][3] not in ("union",):
        (off, sz, al, kind, v) = acc[0]
        return [{"v": js_arg(kind, v), "k": kind}]
    return [{"buffer": True}]
