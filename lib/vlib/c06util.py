"""C06 helpers: reference naming model (written from book/src/abi.md + rustdoc of ast::Attrs), bridge-module emitter,
and the per-backend extractors of *referenced native symbols*.  Pure functions only (no subprocesses)."""
import itertools
import re

from vlib.common import MachineryError

LEVELS = ("mod", "type", "impl", "method")
STATES = ("-", "P", "L")
STATE_NAME = {"-": "-", "P": "pattern", "L": "literal"}
OWNERS = ("opaque", "openum", "struct", "enum")  # openum = #[diplomat::opaque] enum (has a destructor like an opaque struct)
OPAQUE_OWNERS = ("opaque", "openum")
METHODS = ("sm", "im", "wm")  # static method, self method, write-out method (the macro emits it through a separate branch)
ALL_BACKENDS = ("c", "cpp", "js", "dart", "kotlin", "nanobind", "demo_gen")

# `{0}` as prefix+suffix, suffix only, prefix only, infix: all must produce identifiers
ABI_PATTERN = {"mod": "zmo_{0}_mv1", "type": "{0}_zty", "impl": "zim_{0}", "method": "zme_{0}_x"}
# both documented spellings of the attribute (core/src/ast/attrs.rs test_rename)
ABI_SPELLING = {"mod": "eq", "type": "list", "impl": "eq", "method": "list"}


# "historical" fixed symbol names (abi_rename without `{0}`) that are reserved words of one of the target languages but ordinary
# identifiers for rustc and the linker: a binding must still refer to exactly that symbol.  word -> module index (filled by
# register_words); three words per module: static method, self method, destructor.
WORDS = ("import export delete new function var with void instanceof debugger class extends switch case default finally throw catch "
         "null undefined this "                                                             # JS
         "def lambda pass from global is not or and del elif except raise assert nonlocal "  # Python
         "late required dynamic covariant external factory library part show hide mixin operator "  # Dart
         "fun val object when package typealias interface companion "                         # Kotlin
         "namespace template typename friend xor register inline").split()                    # C / C++
WORD_OWNER = {}


def word_triples():
    return [dict(zip(("sm", "im", "type"), WORDS[i:i + 3])) for i in range(0, len(WORDS) - 2, 3)]


def register_words(m):
    for w in (m.get("words") or {}).values():
        if WORD_OWNER.setdefault(w, m["k"]) != m["k"]:
            raise MachineryError("word %r used by two modules" % w)


def abi_value(level, state, k, meth=None, words=None):
    if state == "-":
        return None
    if state == "P":
        return ABI_PATTERN[level]
    if words and level in ("method", "type"):
        return words[meth if level == "method" else "type"]
    tag = {"mod": "mo", "type": "ty", "impl": "ip", "method": "me"}[level]
    return "zq6l%dx_%s%s" % (k, tag, "_" + meth if level == "method" else "")


def placement_text(pl):
    return ",".join("%s:%s" % (lv, STATE_NAME[s]) for lv, s in zip(LEVELS, pl))


def all_placements():
    """3^4 placements in a fixed order: number of attributes ascending, then lexicographic ('-' < P < L)."""
    ps = list(itertools.product(STATES, repeat=4))
    ps.sort(key=lambda p: (sum(s != "-" for s in p), [STATES.index(s) for s in p]))
    return ps


# ------------------------------------------------------------------------------------------------
# reference model


def apply_pattern(pat, name):
    """book/src/abi.md + RenameAttr docs: at most one `{0}`, replaced by the name; no `{0}` = pure rename."""
    i = pat.find("{0}")
    if i < 0:
        return pat
    return pat[:i] + name + pat[i + 3:]


def chain_names(chain, default):
    """chain: abi_rename values outer -> inner (None = absent).
    A = innermost attribute wins and receives the *default* name (pinned where at most one attribute is present or the innermost is a
        literal: abi.md examples, feature_tests/src/attrs.rs `namespace_{0}` + `renamed_on_abi_only`);
    B = nested application inner(outer(default)); differs from A only when the innermost attribute is a pattern and an outer
        attribute exists - no document says which of the two is meant, so both are admissible there."""
    present = [p for p in chain if p is not None]
    a = apply_pattern(present[-1], default) if present else default
    b = default
    for p in present:
        b = apply_pattern(p, b)
    return {"A": a, "B": b}


def module_functions(m):
    """Reference model of what the proc macro exports for one module descriptor.
    methods inherit abi_rename from module -> impl -> method; the destructor (opaque types only) from module -> type
    (rustdoc of diplomat_core::ast::Attrs::abi_rename: 'Affects method names when inherited onto methods. Affects destructor names
    when inherited onto types.')"""
    k, pl = m["k"], m["placement"]
    st = dict(zip(LEVELS, pl))
    ty = "Zq%dT" % k
    out = []
    for meth in m.get("methods", METHODS):
        chain = [abi_value("mod", st["mod"], k), abi_value("impl", st["impl"], k), abi_value("method", st["method"], k, meth, m.get("words"))]
        out.append({"role": "method", "item": meth, "default": "%s_%s" % (ty, meth), "chain": chain,
                    "names": chain_names(chain, "%s_%s" % (ty, meth))})
    if m["owner"] in OPAQUE_OWNERS:
        chain = [abi_value("mod", st["mod"], k), abi_value("type", st["type"], k, None, m.get("words"))]
        out.append({"role": "dtor", "item": "destroy", "default": "%s_destroy" % ty, "chain": chain,
                    "names": chain_names(chain, "%s_destroy" % ty)})
    # extra types of the same module: nothing written on the first type, its impl or its methods may reach them
    extra = m.get("extra")
    if extra == "sibling":
        # a second opaque type declared (with its impl) AFTER the first impl block: inherits the module level only
        for role, item, suffix in (("method", "U.sm", "sm"), ("dtor", "U.destroy", "destroy")):
            chain = [abi_value("mod", st["mod"], k)]
            out.append({"role": role, "item": item, "default": "Zq%dU_%s" % (k, suffix), "chain": chain, "names": chain_names(chain, "Zq%dU_%s" % (k, suffix))})
    elif extra == "nested":
        # a bridge module nested inside this one is expanded by its own macro invocation: it inherits nothing from the outer module
        for role, item, suffix in (("method", "V.sm", "sm"), ("dtor", "V.destroy", "destroy")):
            out.append({"role": role, "item": item, "default": "Zq%dV_%s" % (k, suffix), "chain": [], "names": chain_names([], "Zq%dV_%s" % (k, suffix))})
    for f in out:
        f["renamed"] = any(c is not None for c in f["chain"])
        f["pinned"] = f["names"]["A"] == f["names"]["B"]
        src = [(lv, c) for lv, c in zip(("mod", "impl", "method") if f["role"] == "method" else ("mod", "type"), f["chain"]) if c is not None]
        if "." in f["item"]:
            f["shape"] = "%s-type:%s" % (extra, "default" if not src else "mod:" + ("pattern" if "{0}" in src[-1][1] else "literal"))
            continue
        f["shape"] = "default" if not src else "%s:%s%s" % (src[-1][0], "pattern" if "{0}" in src[-1][1] else "literal", "+outer" if len(src) > 1 else "")
    return out


def collides(m):
    names = [f["names"]["A"] for f in module_functions(m)]
    return len(set(names)) != len(names)


# ------------------------------------------------------------------------------------------------
# rename / disable attribute variants

CONDS = ("*",) + ALL_BACKENDS


def attr_variants():
    out = [("none", None, None)]
    for lv in LEVELS:
        out.append(("rename", lv, "*"))
    for lv in LEVELS:
        for c in ("cpp", "js"):
            out.append(("rename", lv, c))
    for lv in LEVELS:
        for c in CONDS:
            out.append(("disable", lv, c))
    return out


def attr_text(a):
    return "none" if a[0] == "none" else "%s@%s:%s" % (a[0], a[1], a[2])


def attr_line(a, level, k):
    if a[0] == "none" or a[1] != level:
        return None
    if a[0] == "disable":
        return "#[diplomat::attr(%s, disable)]" % a[2]
    val = {"mod": "Rq%dN{0}", "type": "Rq%dNT", "impl": "rq%dn_{0}", "method": "rq%dn_im"}[level] % k
    return '#[diplomat::attr(%s, rename = "%s")]' % (a[2], val)


def cond_holds(cond, backend):
    """demo_gen's referenced symbols live in its bundled js/ folder, produced by a nested run of the *js* backend
    (tool/src/lib.rs), i.e. under the js validator: it answers to `js` only."""
    name = "js" if backend == "demo_gen" else backend
    return cond == "*" or cond == name


def enabled_items(m, backend):
    """set of items ('sm','im','destroy') the backend must reference."""
    meths = set(m.get("methods", METHODS))
    items = meths | ({"destroy"} if m["owner"] in OPAQUE_OWNERS else set())
    a = m["attr"]
    extra_items = {"sibling": {"U.sm", "U.destroy"}, "nested": {"V.sm", "V.destroy"}}.get(m.get("extra"), set())
    if a[0] != "disable" or not cond_holds(a[2], backend):
        return items | extra_items
    if m.get("extra") == "sibling" and a[1] != "mod":
        # attributes on the first type / its impl / its method do not concern the sibling type
        items_sib = extra_items
    else:
        items_sib = set()
    if m.get("extra") == "nested":
        raise ValueError("nested modules are only generated without disable attributes")
    if a[1] in ("mod", "type"):
        return set() | items_sib
    if a[1] == "impl":
        return (items - meths) | items_sib
    return (items - {"im"}) | items_sib
    if a[1] in ("mod", "type"):
        return set()
    if a[1] == "impl":
        return items - meths
    return items - {"im"}


# ------------------------------------------------------------------------------------------------
# emitter


def _abi_line(level, state, k, meth=None, words=None):
    v = abi_value(level, state, k, meth, words)
    if v is None:
        return None
    return '#[diplomat::abi_rename = "%s"]' % v if ABI_SPELLING[level] == "eq" else '#[diplomat::abi_rename("%s")]' % v


def module_src(m):
    k, pl, owner, a = m["k"], m["placement"], m["owner"], m["attr"]
    st = dict(zip(LEVELS, pl))
    L = ["#[diplomat::bridge]"]

    def put(ind, *lines):
        for ln in lines:
            if ln is not None:
                L.append(ind + ln)
    put("", _abi_line("mod", st["mod"], k), attr_line(a, "mod", k))
    L.append("pub mod m%d {" % k)
    if owner in OPAQUE_OWNERS:
        L.append("    #[diplomat::opaque]")
    put("    ", _abi_line("type", st["type"], k, None, m.get("words")), attr_line(a, "type", k))
    ty = "Zq%dT" % k
    if owner == "opaque":
        L.append("    pub struct %s;" % ty)
        slf = "&self"
    elif owner == "openum":
        L.append("    pub enum %s { A, B }" % ty)
        slf = "&self"
    elif owner == "struct":
        L.append("    pub struct %s { pub a: u8 }" % ty)
        slf = "self"
    else:
        L.append("    pub enum %s { A, B }" % ty)
        slf = "self"
    put("    ", _abi_line("impl", st["impl"], k), attr_line(a, "impl", k))
    L.append("    impl %s {" % ty)
    if "sm" in m.get("methods", METHODS):
        put("        ", _abi_line("method", st["method"], k, "sm", m.get("words")))
        L.append("        pub fn sm(x: u8) -> u8 { x }")
    put("        ", _abi_line("method", st["method"], k, "im", m.get("words")), attr_line(a, "method", k))
    L.append("        pub fn im(%s) -> u8 { 7 }" % slf)
    if "wm" in m.get("methods", METHODS):
        put("        ", _abi_line("method", st["method"], k, "wm", m.get("words")))
        L.append("        pub fn wm(x: u8, w: &mut DiplomatWrite) { let _ = (x, w); }")
    L.append("    }")
    if m.get("extra") == "sibling":
        L += ["    #[diplomat::opaque]", "    pub struct Zq%dU;" % k, "    impl Zq%dU {" % k, "        pub fn sm(x: u8) -> u8 { x }", "    }"]
    elif m.get("extra") == "nested":
        L += ["    #[diplomat::bridge]", "    pub mod n%d {" % k, "        #[diplomat::opaque]", "        pub struct Zq%dV;" % k, "        impl Zq%dV {" % k,
              "            pub fn sm(x: u8) -> u8 { x }", "        }", "    }"]
    L.append("}")
    return "\n".join(L) + "\n"


CRATE_HEAD = "#![allow(unused, non_snake_case, non_camel_case_types, clippy::all)]\n// generated by /verif/checks/c06.py\n"

TOKEN = re.compile(r"(?:Zq(\d+)[TUV]|zq6l(\d+)x|[Rr]q(\d+)[Nn])")


def module_of(sym):
    """module index a symbol belongs to (every name generated for module k carries k), or None."""
    if sym in WORD_OWNER:
        return WORD_OWNER[sym]
    ks = set(int(g) for mt in TOKEN.finditer(sym) for g in mt.groups() if g is not None)
    return ks.pop() if len(ks) == 1 else None


# ------------------------------------------------------------------------------------------------
# extractors: referenced native symbols per backend.  Every extractor returns {form: set(names)}.

RUNTIME_OK = {"create_rust_jvm_cookie", "destroy_rust_jvm_cookie"}  # runtime/src/callback.rs (feature jvm-callback-support)
IDENT = re.compile(r"[A-Za-z_][A-Za-z0-9_]*")
# static runtime templates (macro-heavy; declare runtime symbols only): not parsed for declarations, still covered by the
# whole-output identifier guard and by the call-site extraction
RUNTIME_FILES = {"diplomat_runtime.h", "diplomat_runtime.hpp"}


def is_runtime(sym):
    return sym.startswith("diplomat_") or sym in RUNTIME_OK


def _strip_comments(s):
    s = re.sub(r"/\*.*?\*/", " ", s, flags=re.S)
    return re.sub(r"//[^\n]*", "", s)


def _drop_bodies(s, where):
    """remove every {...} body (nested), keeping `extern "C" {` blocks transparent."""
    out, depth, stack, i = [], 0, [], 0
    ext = [(mt.end() - 1) for mt in re.finditer(r'extern\s+"C"\s*\{', s)]
    ext = set(ext)
    for i, ch in enumerate(s):
        if ch == "{":
            transparent = i in ext and depth == 0
            stack.append(transparent)
            if not transparent:
                depth += 1
            else:
                out.append(";")
            continue
        if ch == "}":
            if not stack:
                raise MachineryError("UNDECIDED: unbalanced braces in %s" % where)
            if stack.pop():
                out.append(";")
            else:
                depth -= 1
            continue
        if depth == 0:
            out.append(ch)
    if stack:
        raise MachineryError("UNDECIDED: unbalanced braces in %s" % where)
    return "".join(out)


PROTO = re.compile(r"^(?P<ret>[\w\s\*:<>,&]+?[\s\*&])(?P<name>\w+)\s*\((?P<args>[^()]*)\)$")


def _prototypes(text, where):
    names = set()
    for stmt in text.split(";"):
        st = " ".join(stmt.split())
        if not st or "(" not in st:
            continue
        if st.startswith(("typedef ", "using ", "static_assert", "template")):
            continue
        mt = PROTO.match(st)
        if not mt or mt.group("ret").split()[0] in ("return", "typedef"):
            raise MachineryError("UNDECIDED: cannot interpret declaration %r in %s" % (st[:160], where))
        names.add(mt.group("name"))
    return names


def extract_c(tree):
    decl = set()
    for path, b in sorted(tree.items()):
        if not path.endswith(".h") or path.split("/")[-1] in RUNTIME_FILES:
            continue
        s = _strip_comments(b.decode("utf8", "replace"))
        s = "\n".join(ln for ln in s.split("\n") if not ln.lstrip().startswith("#"))
        decl |= _prototypes(_drop_bodies(s, "c:" + path), "c:" + path)
    return {"decl": decl}


def extract_cpp(tree, sub=""):
    decl, call = set(), set()
    for path, b in sorted(tree.items()):
        if not path.endswith(".hpp") or not path.startswith(sub):
            continue
        s = _strip_comments(b.decode("utf8", "replace"))
        call |= set(re.findall(r"\bcapi::(\w+)\s*\(", s))
        if path.split("/")[-1] in RUNTIME_FILES:
            continue
        for mt in re.finditer(r'extern\s+"C"\s*\{', s):
            depth, j = 1, mt.end()
            while j < len(s) and depth:
                depth += {"{": 1, "}": -1}.get(s[j], 0)
                j += 1
            if depth:
                raise MachineryError("UNDECIDED: unterminated extern \"C\" block in cpp:%s" % path)
            block = s[mt.end():j - 1]
            block = "\n".join(ln for ln in block.split("\n") if not ln.lstrip().startswith("#"))
            decl |= _prototypes(_drop_bodies(block, "cpp:" + path), "cpp:" + path)
    return {"decl": decl, "call": call}


def extract_js(tree, sub=""):
    call = set()
    for path, b in sorted(tree.items()):
        if path.endswith(".mjs") and path.startswith(sub):
            call |= set(re.findall(r"\bwasm\.(\w+)\s*\(", _strip_comments(b.decode("utf8", "replace"))))
    return {"call": call}


def extract_dart(tree):
    use, symbol, ext, call = set(), set(), set(), set()
    for path, b in sorted(tree.items()):
        if not path.endswith(".dart"):
            continue
        s = b.decode("utf8", "replace")
        use |= set(re.findall(r"@_DiplomatFfiUse\(\s*'(\w+)'\s*\)", s))
        symbol |= set(re.findall(r"\bsymbol:\s*'(\w+)'", s))
        rest = []
        for ln in _strip_comments(s).split("\n"):
            t = ln.strip()
            if t.startswith("external ") and "(" not in t:
                continue  # field of an ffi.Struct
            if t.startswith("external "):
                mt =re.match(r"external\s+[^;(]*?\b_(\w+)\s*\(", t)
                if not mt:
                    raise MachineryError("UNDECIDED: cannot interpret %r in dart:%s" % (t[:160], path))
                ext.add(mt.group(1))
            elif not t.startswith("@"):
                rest.append(ln)
        call |= set(x[1:] for x in IDENT.findall("\n".join(rest)) if x.startswith("_") and len(x) > 1)
    return {"use": use, "symbol": symbol, "external": ext, "call": call & (use | symbol | ext)}


def extract_kotlin(tree):
    decl, call = set(), set()
    for path, b in sorted(tree.items()):
        if not path.endswith(".kt"):
            continue
        s = _strip_comments(b.decode("utf8", "replace"))
        call |= set(re.findall(r"\blib\.(\w+)\s*\(", s))
        for mt in re.finditer(r"\binterface\s+\w+\s*:\s*Library\s*\{", s):
            depth, j = 1, mt.end()
            while j < len(s) and depth:
                depth += {"{": 1, "}": -1}.get(s[j], 0)
                j += 1
            if depth:
                raise MachineryError("UNDECIDED: unterminated Library interface in kotlin:%s" % path)
            decl |= set(re.findall(r"\bfun\s+(\w+)\s*\(", s[mt.end():j - 1]))
    return {"decl": decl, "call": call}


def extract(backend, tree):
    if backend == "c":
        return extract_c(tree)
    if backend == "cpp":
        return extract_cpp(tree)
    if backend == "nanobind":
        r = extract_cpp(tree, "include/")
        if not any(p.startswith("include/") and p.endswith(".hpp") for p in tree):
            raise MachineryError("UNDECIDED: nanobind output carries no bundled include/*.hpp")
        return r
    if backend == "js":
        return extract_js(tree)
    if backend == "demo_gen":
        if not any(p.startswith("js/") and p.endswith(".mjs") for p in tree):
            raise MachineryError("UNDECIDED: demo_gen output carries no bundled js/ folder")
        own = extract_js({p: b for p, b in tree.items() if not p.startswith("js/")})
        r = extract_js(tree, "js/")
        r["own_files_call"] = own["call"]
        return r
    if backend == "dart":
        return extract_dart(tree)
    if backend == "kotlin":
        return extract_kotlin(tree)
    raise MachineryError("no extractor for backend %s" % backend)


# forms that must agree with each other inside one backend (a declared-but-never-called native function is a missing binding,
# a called-but-undeclared one does not compile)
FORM_PAIRS = {"cpp": [("decl", "call")], "nanobind": [("decl", "call")], "kotlin": [("decl", "call")],
              "dart": [("use", "symbol"), ("symbol", "external"), ("external", "call")]}


def idents_of(tree):
    ids = set()
    for path, b in tree.items():
        ids |= set(IDENT.findall(b.decode("utf8", "replace")))
    return ids
