//! In-process probe of diplomat_core's HIR: lowering gate verdicts (C05) and borrow analysis (C04).
//!
//! usage: hirx <mode> <input.jsonl> <output.jsonl>
//!   input lines : {"id": "...", "src": "<rust source of a whole file>", "support": {...optional flags...},
//!                  "backend": "name", "cfg_refs_in_callbacks": bool}
//!   output lines: {"id", "status": "ok"|"rejected"|"panic"|"parse_error", "errors": [[ctx,msg]], "panic": {...},
//!                  "methods": {"Type::method": {"false": {lt: [edge...]}, "true": {...}}}}   (mode borrow)
use diplomat_core::hir::borrowing_param::{LifetimeEdge, LifetimeEdgeKind, ParamBorrowInfo};
use diplomat_core::hir::{BackendAttrSupport, BasicAttributeValidator, LoweringConfig, TypeContext};
use serde_json::{json, Value};
use std::io::{BufRead, Write};
use std::panic::{catch_unwind, AssertUnwindSafe};
use std::sync::atomic::{AtomicUsize, Ordering};
use std::sync::Mutex;

thread_local! { static LAST_PANIC: std::cell::RefCell<Option<(String, String)>> = const { std::cell::RefCell::new(None) }; }

fn support_from(v: Option<&Value>) -> BackendAttrSupport {
    let mut s = BackendAttrSupport::default();
    let get = |k: &str, d: bool| v.and_then(|v| v.get(k)).and_then(|b| b.as_bool()).unwrap_or(d);
    // default profile: everything that widens the accepted language is on
    s.namespacing = get("namespacing", true);
    s.memory_sharing = get("memory_sharing", true);
    s.non_exhaustive_structs = get("non_exhaustive_structs", true);
    s.method_overloading = get("method_overloading", true);
    s.utf8_strings = get("utf8_strings", true);
    s.utf16_strings = get("utf16_strings", true);
    s.static_slices = get("static_slices", true);
    s.constructors = get("constructors", true);
    s.named_constructors = get("named_constructors", true);
    s.fallible_constructors = get("fallible_constructors", true);
    s.accessors = get("accessors", true);
    s.static_accessors = get("static_accessors", true);
    s.stringifiers = get("stringifiers", true);
    s.comparators = get("comparators", true);
    s.iterators = get("iterators", true);
    s.iterables = get("iterables", true);
    s.indexing = get("indexing", true);
    s.arithmetic = get("arithmetic", true);
    s.option = get("option", true);
    s.callbacks = get("callbacks", true);
    s.traits = get("traits", true);
    s.custom_errors = get("custom_errors", true);
    s.traits_are_send = get("traits_are_send", true);
    s.traits_are_sync = get("traits_are_sync", true);
    s
}

fn edge_json(e: &LifetimeEdge) -> Value {
    match e.kind {
        LifetimeEdgeKind::OpaqueParam => json!({"param": e.param_name, "kind": "opaque"}),
        LifetimeEdgeKind::SliceParam => json!({"param": e.param_name, "kind": "slice"}),
        LifetimeEdgeKind::StructLifetime(env, lt, opt) => json!({"param": e.param_name, "kind": "struct", "def_lt": env.fmt_lifetime(lt).to_string(), "optional": opt}),
        _ => json!({"param": e.param_name, "kind": "unknown"}),
    }
}

fn borrow_dump(tcx: &TypeContext) -> Value {
    let mut out = serde_json::Map::new();
    for (_id, ty) in tcx.all_types() {
        for m in ty.methods() {
            let key = format!("{}::{}", ty.name(), m.name.as_str());
            let mut per = serde_json::Map::new();
            for force in [false, true] {
                let r = catch_unwind(AssertUnwindSafe(|| {
                    let mut v = m.borrowing_param_visitor(tcx, force);
                    let mut infos = serde_json::Map::new();
                    let mut smaps = serde_json::Map::new();
                    if let Some(s) = m.param_self.as_ref() {
                        let info = v.visit_param(&s.ty.clone().into(), "this");
                        infos.insert("this".into(), json!(info_name(&info)));
                        if let Some(sm) = struct_map(&info, m) { smaps.insert("this".into(), sm); }
                    }
                    for p in &m.params {
                        let info = v.visit_param(&p.ty, p.name.as_str());
                        infos.insert(p.name.as_str().into(), json!(info_name(&info)));
                        if let Some(sm) = struct_map(&info, m) { smaps.insert(p.name.as_str().into(), sm); }
                    }
                    let mut lts = serde_json::Map::new();
                    for (lt, info) in v.borrow_map() {
                        let name = m.lifetime_env.fmt_lifetime(lt).to_string();
                        let edges: Vec<Value> = info.incoming_edges.iter().map(edge_json).collect();
                        lts.insert(name, json!(edges));
                    }
                    json!({"edges": lts, "infos": infos, "struct_maps": smaps})
                }));
                match r {
                    Ok(v) => {
                        per.insert(force.to_string(), v);
                    }
                    Err(_) => {
                        let p = LAST_PANIC.with(|p| p.borrow_mut().take());
                        per.insert(force.to_string(), json!({"panic": p.map(|(m, l)| json!({"msg": m, "loc": l}))}));
                    }
                }
            }
            out.insert(key, Value::Object(per));
        }
    }
    out.insert("$field_maps".into(), field_maps(tcx));
    Value::Object(out)
}

/// StructBorrowInfo::compute_for_struct_field for every struct-typed field of every struct definition:
/// {outer struct: {field: {inner-definition lifetime: [outer-definition lifetimes]} | null | {"panic": ..}}}
fn field_maps(tcx: &TypeContext) -> Value {
    use diplomat_core::hir::borrowing_param::StructBorrowInfo;
    use diplomat_core::hir::{Type, TypeDef};
    let mut out = serde_json::Map::new();
    for (_id, ty) in tcx.all_types() {
        let mut per = serde_json::Map::new();
        if let TypeDef::Struct(sd) = ty {
            for f in &sd.fields {
                if let Type::Struct(path) = &f.ty {
                    let r = catch_unwind(AssertUnwindSafe(|| {
                        StructBorrowInfo::compute_for_struct_field(sd, path, tcx).map(|info| {
                            let mut o = serde_json::Map::new();
                            for (def_lt, set) in &info.borrowed_struct_lifetime_map {
                                let names: Vec<String> = set.iter().map(|l| sd.lifetimes.fmt_lifetime(*l).to_string()).collect();
                                o.insert(info.env.fmt_lifetime(*def_lt).to_string(), json!(names));
                            }
                            Value::Object(o)
                        })
                    }));
                    per.insert(
                        f.name.as_str().into(),
                        match r {
                            Ok(Some(v)) => v,
                            Ok(None) => Value::Null,
                            Err(_) => {
                                let p = LAST_PANIC.with(|p| p.borrow_mut().take());
                                json!({"panic": p.map(|(m, l)| json!({"msg": m, "loc": l}))})
                            }
                        },
                    );
                }
            }
        }
        if !per.is_empty() {
            out.insert(ty.name().to_string(), Value::Object(per));
        }
    }
    Value::Object(out)
}

/// StructBorrowInfo::borrowed_struct_lifetime_map as {struct-definition lifetime: [method lifetimes]}
fn struct_map(i: &ParamBorrowInfo, m: &diplomat_core::hir::Method) -> Option<Value> {
    if let ParamBorrowInfo::Struct(info) = i {
        let mut o = serde_json::Map::new();
        for (def_lt, set) in &info.borrowed_struct_lifetime_map {
            let names: Vec<String> = set.iter().map(|l| m.lifetime_env.fmt_lifetime(*l).to_string()).collect();
            o.insert(info.env.fmt_lifetime(*def_lt).to_string(), json!(names));
        }
        Some(Value::Object(o))
    } else {
        None
    }
}

fn info_name(i: &ParamBorrowInfo) -> &'static str {
    match i {
        ParamBorrowInfo::NotBorrowed => "NotBorrowed",
        ParamBorrowInfo::TemporarySlice => "TemporarySlice",
        ParamBorrowInfo::BorrowedSlice => "BorrowedSlice",
        ParamBorrowInfo::Struct(_) => "Struct",
        ParamBorrowInfo::BorrowedOpaque => "BorrowedOpaque",
        _ => "Unknown",
    }
}

fn process(mode: &str, item: &Value, prelude: &str) -> Value {
    let id = item["id"].clone();
    let composed;
    let src = if let Some(m) = item.get("method").and_then(|m| m.as_str()) {
        let imp = item.get("impl").and_then(|m| m.as_str()).unwrap_or("impl Op");
        composed = format!("#[diplomat::bridge]\nmod ffi {{\n{}\n    {} {{\n        {}\n    }}\n}}\n", prelude, imp, m);
        composed.as_str()
    } else {
        item["src"].as_str().unwrap_or("")
    };
    let file = match syn::parse_file(src) {
        Ok(f) => f,
        Err(e) => return json!({"id": id, "status": "parse_error", "errors": [["syn", e.to_string()]]}),
    };
    let backend = item.get("backend").and_then(|b| b.as_str()).unwrap_or("verif");
    let mut validator = BasicAttributeValidator::new(backend);
    validator.support = support_from(item.get("support"));
    let mut cfg = LoweringConfig::default();
    cfg.unsafe_references_in_callbacks = item.get("cfg_refs_in_callbacks").and_then(|b| b.as_bool()).unwrap_or(false);
    let r = catch_unwind(AssertUnwindSafe(|| TypeContext::from_syn(&file, cfg, validator)));
    match r {
        Err(_) => {
            let p = LAST_PANIC.with(|p| p.borrow_mut().take());
            json!({"id": id, "status": "panic", "panic": p.map(|(m, l)| json!({"msg": m, "loc": l}))})
        }
        Ok(Err(errs)) => {
            let es: Vec<Value> = errs.iter().map(|(c, e)| json!([c.to_string(), e.to_string()])).collect();
            json!({"id": id, "status": "rejected", "errors": es})
        }
        Ok(Ok(tcx)) => {
            if mode == "borrow" {
                json!({"id": id, "status": "ok", "methods": borrow_dump(&tcx)})
            } else {
                json!({"id": id, "status": "ok"})
            }
        }
    }
}

fn main() {
    let args: Vec<String> = std::env::args().collect();
    if args.len() < 4 {
        eprintln!("usage: hirx gate|borrow <in.jsonl> <out.jsonl>");
        std::process::exit(2);
    }
    std::panic::set_hook(Box::new(|info| {
        let msg = if let Some(s) = info.payload().downcast_ref::<&str>() {
            s.to_string()
        } else if let Some(s) = info.payload().downcast_ref::<String>() {
            s.clone()
        } else {
            "?".into()
        };
        let loc = info.location().map(|l| format!("{}:{}", l.file(), l.line())).unwrap_or_default();
        LAST_PANIC.with(|p| *p.borrow_mut() = Some((msg, loc)));
    }));
    let mode = args[1].clone();
    let inp = std::io::BufReader::new(std::fs::File::open(&args[2]).expect("open input"));
    let mut lines: Vec<String> = inp.lines().map(|l| l.unwrap()).filter(|l| !l.trim().is_empty()).collect();
    let mut prelude = String::new();
    if let Some(first) = lines.first() {
        if first.starts_with("{\"prelude\"") {
            let v: Value = serde_json::from_str(first).expect("prelude line");
            prelude = v["prelude"].as_str().unwrap_or("").to_string();
            lines.remove(0);
        }
    }
    let prelude = &prelude;
    let n = lines.len();
    let results: Vec<Mutex<Option<String>>> = (0..n).map(|_| Mutex::new(None)).collect();
    let next = AtomicUsize::new(0);
    let threads = std::env::var("HIRX_THREADS").ok().and_then(|s| s.parse().ok()).unwrap_or(16usize);
    std::thread::scope(|sc| {
        for _ in 0..threads {
            sc.spawn(|| loop {
                let k = next.fetch_add(1, Ordering::Relaxed);
                if k >= n {
                    break;
                }
                let item: Value = match serde_json::from_str(&lines[k]) {
                    Ok(v) => v,
                    Err(e) => {
                        *results[k].lock().unwrap() = Some(json!({"status": "bad_input", "errors": [["json", e.to_string()]]}).to_string());
                        continue;
                    }
                };
                let out = process(&mode, &item, prelude);
                *results[k].lock().unwrap() = Some(out.to_string());
            });
        }
    });
    let mut out = std::io::BufWriter::new(std::fs::File::create(&args[3]).expect("create output"));
    for r in results {
        writeln!(out, "{}", r.into_inner().unwrap().unwrap()).unwrap();
    }
}
