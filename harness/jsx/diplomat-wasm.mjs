// Stub wasm module for C08: a real WebAssembly.Memory, a bump allocator honouring alignment, and a recording Proxy for every export.
const memory = new WebAssembly.Memory({ initial: 64 });
const state = { next: 0x10000, allocs: [], calls: [], ret: {}, hooks: {} };
function diplomat_alloc(size, align) {
    align = Math.max(1, align);
    let p = Math.ceil(state.next / align) * align;
    state.next = p + Math.max(1, size);
    new Uint8Array(memory.buffer, p, Math.max(1, size)).fill(0);
    state.allocs.push({ ptr: p, size, align });
    return p;
}
function diplomat_free(ptr, size, align) { }
const base = { memory, diplomat_alloc, diplomat_free, __verif: state };
const wasm = new Proxy(base, {
    get(t, name) {
        if (name in t) return t[name];
        if (typeof name !== "string") return undefined;
        return (...args) => { state.calls.push({ name, args }); if (state.hooks[name]) return state.hooks[name](args); return state.ret[name]; };
    },
    has(t, name) { return true; }
});
export default wasm;
