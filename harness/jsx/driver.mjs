// C08 driver: node driver.mjs <job.json> ; writes results JSON to stdout.
import fs from "fs";
import path from "path";
import { pathToFileURL } from "url";
const job = JSON.parse(fs.readFileSync(process.argv[2], "utf8"));
const dir = job.outdir;
const imp = (f) => import(pathToFileURL(path.join(dir, f)).href);
const wasm = (await imp("diplomat-wasm.mjs")).default;
const rt = await imp("diplomat-runtime.mjs");
const st = wasm.__verif;
const mods = {};
async function mod(name) { if (!mods[name]) mods[name] = (await imp(name + ".mjs"))[name]; return mods[name]; }
const Op = await mod("Op"), En = await mod("En");
const hex = (p, n) => Buffer.from(new Uint8Array(wasm.memory.buffer, p, n)).toString("hex");
const EN_NAMES = ["A", "B", "C"];
function build(ft, v) {
    switch (ft.kind) {
        case "u64": return BigInt(v.big);
        case "f32": case "f64": return v.f === "inf" ? Infinity : v.f === "-inf" ? -Infinity : Number(v.f);
        case "en": return En[EN_NAMES[v]];
        case "ptr": return v === null ? null : new Op(rt.internalConstructor, v, []);
        case "slice": return (v !== null && typeof v === "object" && v.ps) ? v.v.map((x) => (v.ps === "i64" || v.ps === "u64") ? BigInt(x.big) : (v.ps === "f32" || v.ps === "f64") ? Number(x.f) : x) : v;
        case "struct": { const o = {}; ft.inner.forEach((f, i) => { o[f.name] = build(f.ft, v[i]); }); return o; }
        case "option": return v === null ? null : build(ft.inner, v);
        default: return v;
    }
}
function canon(ft, x) {
    if (x === null || x === undefined) return null;
    switch (ft.kind) {
        case "u64": return { big: x.toString() };
        case "f32": case "f64": return { f: x === Infinity ? "inf" : x === -Infinity ? "-inf" : String(x) };
        case "en": return { en: x.ffiValue };
        case "ptr": return { ptr: x.ffiValue };
        case "slice": return typeof x === "string" ? x : Array.from(x).map((e) => typeof e === "bigint" ? { big: e.toString() } : (typeof e === "number" && !Number.isInteger(e)) ? { f: String(e) } : e);
        case "struct": return ft.inner.map((f) => canon(f.ft, x[f.name]));
        case "option": return canon(ft.inner, x);
        default: return x;
    }
}
function canonArg(a) {
    if (typeof a === "bigint") return { big: a.toString() };
    if (typeof a === "number") return Object.is(a, -0) ? { f: "-0" } : (Number.isInteger(a) ? a : { f: a === Infinity ? "inf" : a === -Infinity ? "-inf" : String(a) });
    if (typeof a === "boolean") return a;
    if (a === undefined) return { undef: 1 };
    if (a === null) return null;
    return { other: String(a) };
}
const P = 0x8000, P2 = 0x9000;
const results = [];
for (const s of job.structs) {
    const S = await mod(s.name);
    const H = await mod(s.owner);
    const res = { name: s.name, cases: [], recv: null, errors: [] };
    const amap = s.lifetime ? { aAppendArray: [] } : {};
    for (const c of s.cases) {
        const out = {};
        // ---- write path
        if (!s.out) try {
            new Uint8Array(wasm.memory.buffer, P, 256).fill(0xAA);
            const obj = {}; s.fields.forEach((f, i) => { obj[f.name] = build(f.ft, c.vals[i]); });
            const inst = S.fromFields(obj);
            const arena = new rt.CleanupArena();
            st.allocs.length = 0;
            inst._writeToArrayBuffer(wasm.memory.buffer, P, arena, amap);
            out.written = hex(P, s.size);
            out.slices = c.slices.map((sl) => { const dv = new DataView(wasm.memory.buffer); const ptr = dv.getUint32(P + sl.off, true), len = dv.getUint32(P + sl.off + 4, true);
                const al = st.allocs.find((a) => a.ptr === ptr);
                return { off: sl.off, ptr, len, alloc: al ? { size: al.size, align: al.align } : null, content: (len * sl.elem) < 4096 && ptr + len * sl.elem < wasm.memory.buffer.byteLength ? hex(ptr, len * sl.elem) : "?" }; });
        } catch (e) { out.write_error = String(e).slice(0, 200); }
        // ---- read path
        try {
            const buf = Buffer.from(c.read_bytes, "hex");
            new Uint8Array(wasm.memory.buffer, P2, buf.length).set(buf);
            for (const pre of c.read_pre) { const b = Buffer.from(pre.hex, "hex"); new Uint8Array(wasm.memory.buffer, pre.at, b.length).set(b); }
            const edges = s.lifetime ? [[]] : [];
            // a struct that transitively holds exactly one scalar crosses FFI as that scalar (no memory involved)
            let src = P2;
            if (s.single_scalar) { let ft = s.fields[0].ft, v = c.vals[0]; while (ft.kind === "struct") { v = v[0]; ft = ft.inner[0].ft; }
                src = ft.kind === "en" ? [0, 5, -6][v] : ft.kind === "ptr" ? v : ft.kind === "bool" ? (v ? 1 : 0) : build(ft, v); }
            const back = S._fromFFI(rt.internalConstructor, src, ...edges);
            out.read = s.fields.map((f) => canon(f.ft, back[f.name]));
        } catch (e) { out.read_error = String(e).slice(0, 200); }
        // ---- call flattening
        if (!s.out) try {
            st.calls.length = 0; st.allocs.length = 0;
            const obj = {}; s.fields.forEach((f, i) => { obj[f.name] = build(f.ft, c.vals[i]); });
            H["take" + s.name](obj);
            const call = st.calls.find((k) => k.name === s.owner + "_take_" + s.name.toLowerCase());
            if (!call) { out.take_error = "no call recorded: " + st.calls.map((k) => k.name).join(","); }
            else {
                out.args = call.args.map(canonArg);
                // candidate pointer args: dump memory behind them (spec ABI passes a pointer to the struct; slices pass ptr,len)
                out.mem = call.args.map((a) => (typeof a === "number" && Number.isInteger(a) && a >= 0x10000 && a + 64 < wasm.memory.buffer.byteLength) ? hex(a, Math.max(s.size, 64)) : null);
            }
        } catch (e) { out.take_error = String(e).slice(0, 200); }
        res.cases.push(out);
    }
    // ---- receive buffer of a method returning S
    try {
        st.calls.length = 0; st.allocs.length = 0;
        const args = s.lifetime ? [new Op(rt.internalConstructor, 0x1000, [])] : [];
        try { H["give" + s.name](...args); } catch (e) { res.give_exc = String(e).slice(0, 120); }
        const call = st.calls.find((k) => k.name === s.owner + "_give_" + s.name.toLowerCase());
        res.recv = { allocs: st.allocs.slice(), args: call ? call.args.map(canonArg) : null };
    } catch (e) { res.errors.push("recv: " + String(e).slice(0, 200)); }
    // ---- Result / Option wrapped returns: the export (played by a hook) writes payload and flag where Rust's repr(C) puts them
    res.wrapped = [];
    for (const w of (s.wrappers || [])) {
        for (const flag of [1, 0]) {
            const rec = { w: w.w, flag };
            const fname = s.owner + "_give_" + w.w + "_" + s.name.toLowerCase();
            try {
                st.calls.length = 0; st.allocs.length = 0;
                st.hooks[fname] = (args) => {
                    if (w.direct) return flag;
                    const p = args[0];
                    // for the first struct of a job the callee also grows the wasm memory (as an allocation inside Rust may):
                    // every view taken before the call is detached, the bindings have to look at wasm.memory.buffer afresh
                    if (s === job.structs[0]) { wasm.memory.grow(1); rec.grew = true; }
                    rec.ptr_is_alloc = st.allocs.some((a) => a.ptr === p);
                    const pay = Buffer.from(flag ? w.ok_hex : w.err_hex, "hex");
                    new Uint8Array(wasm.memory.buffer, p, pay.length).set(pay);
                    new Uint8Array(wasm.memory.buffer, p + w.flag_off, 1)[0] = flag;
                    return undefined;
                };
                const cname = "give" + w.w.toUpperCase() + s.name;
                let ret, thrown = null;
                try { ret = H[cname](); } catch (e) { thrown = e; }
                rec.allocs = st.allocs.slice();
                rec.called = st.calls.some((k) => k.name === fname);
                const arm = flag ? w.ok_kind : w.err_kind;
                const dec = (x) => arm === "struct" ? (x === null || x === undefined ? null : s.fields.map((f) => canon(f.ft, x[f.name])))
                    : arm === "en" ? (x === null || x === undefined ? null : { en: x.ffiValue }) : arm === "unit" ? (x === undefined || x === null ? "unit" : { other: String(x) }) : arm === "zst" ? (x === undefined || x === null ? null : "zst") : canonArg(x);
                if (thrown) { rec.thrown = true; rec.cause = thrown.cause === undefined ? { nocause: String(thrown).slice(0, 120) } : dec(thrown.cause); }
                else { rec.thrown = false; rec.ret = (ret === null) ? null : dec(ret); }
            } catch (e) { rec.error = String(e).slice(0, 200); }
            delete st.hooks[fname];
            res.wrapped.push(rec);
        }
    }
    results.push(res);
}
// ---- runtime probe: DiplomatBuf.slice / strs for every view kind, the allocation placed so that it ends 64 bytes before the end
// of the wasm memory (a list that fits must be accepted wherever the allocator puts it)
{
    const KINDS = [["u8", 1, (i) => i & 0xff], ["i8", 1, (i) => (i & 0x7f) - 64], ["boolean", 1, (i) => (i & 1) === 1], ["u16", 2, (i) => i], ["i16", 2, (i) => -i],
        ["u32", 4, (i) => i * 65537], ["i32", 4, (i) => -i * 65537], ["u64", 8, (i) => BigInt(i) << 33n], ["i64", 8, (i) => -(BigInt(i) << 33n)],
        ["f32", 4, (i) => i + 0.5], ["f64", 8, (i) => i + 0.25]];
    const probe = [];
    const n = 1000;
    for (const [ty, size, mk] of KINDS) {
        const rec = { ty, n, elem: size };
        const save = st.next;
        try {
            const list = Array.from({ length: n }, (_, i) => mk(i));
            st.allocs.length = 0;
            st.next = (wasm.memory.buffer.byteLength - n * size - 64) & ~7;
            const b = rt.DiplomatBuf.slice(wasm, list, ty);
            rec.ptr = b.ptr; rec.len = b.size; rec.alloc = st.allocs.length ? { size: st.allocs[0].size, align: st.allocs[0].align, ptr: st.allocs[0].ptr } : null;
            rec.last = hex(b.ptr + (n - 1) * size, size);
            new Uint32Array(wasm.memory.buffer, 0x8000, 2).set([b.ptr, n]);
            const back = new rt.DiplomatSlicePrimitive(wasm, 0x8000, ty, []).getValue();
            rec.back_len = back.length; rec.back_last = String(ty === "boolean" ? Boolean(back[n - 1]) : back[n - 1]); rec.want_last = String(mk(n - 1));
        } catch (e) { rec.error = String(e).slice(0, 200); }
        st.next = save;
        probe.push(rec);
    }
    for (const enc of ["string8", "string16"]) {
        const rec = { ty: "strs:" + enc, n: 100, elem: 8 };
        const save = st.next;
        try {
            st.allocs.length = 0;
            st.next = (wasm.memory.buffer.byteLength - 100 * 8 - 64 - 400) & ~7;
            const b = rt.DiplomatBuf.strs(wasm, Array.from({ length: 100 }, (_, i) => "s" + (i % 10)), enc);
            rec.ptr = b.ptr; rec.len = b.size; rec.alloc = { size: st.allocs[0].size, align: st.allocs[0].align, ptr: st.allocs[0].ptr };
        } catch (e) { rec.error = String(e).slice(0, 200); }
        st.next = save;
        probe.push(rec);
    }
    // a nested allocation that grows the wasm memory (as an allocation inside Rust may): every view created before it is detached
    for (const enc of ["string8", "string16"]) {
        const rec = { ty: "strs-grow:" + enc, n: 3, elem: 8 };
        const realAlloc = wasm.diplomat_alloc;
        try {
            st.allocs.length = 0;
            let k = 0;
            wasm.diplomat_alloc = (size, align) => { k += 1; if (k === 2) wasm.memory.grow(1); return realAlloc(size, align); };
            const b = rt.DiplomatBuf.strs(wasm, ["ab", "cde", "f"], enc);
            rec.ptr = b.ptr; rec.len = b.size; rec.alloc = { size: st.allocs[0].size, align: st.allocs[0].align, ptr: st.allocs[0].ptr };
            rec.pairs = Array.from(new Uint32Array(wasm.memory.buffer, b.ptr, 6));
            rec.want_pairs = [st.allocs[1].ptr, 2, st.allocs[2].ptr, 3, st.allocs[3].ptr, 1];
        } catch (e) { rec.error = String(e).slice(0, 200); }
        wasm.diplomat_alloc = realAlloc;
        probe.push(rec);
    }
    results.push({ name: "$runtime_probe", probe });
}
process.stdout.write(JSON.stringify(results));
