mod alloctrack;
mod c03;
mod c12;
mod c16;

#[global_allocator]
static ALLOC: alloctrack::Tracking = alloctrack::Tracking;

fn arg(n: usize, d: usize) -> usize {
    std::env::args().nth(n).and_then(|s| s.parse().ok()).unwrap_or(d)
}

fn main() {
    let cmd = std::env::args().nth(1).unwrap_or_default();
    let threads = std::env::var("RTX_THREADS").ok().and_then(|s| s.parse().ok()).unwrap_or(16);
    match cmd.as_str() {
        "c12" => {
            // c12 <depth> <max_cap> <max_fail>
            println!("{}", c12::run(arg(2, 4), arg(3, 4), arg(4, 2), threads));
        }
        "c12-dfs" => {
            let (n, v) = c12::dfs_all(arg(2, 2), arg(3, 2), arg(4, 1));
            println!("{{\"transitions\":{},\"violation\":{}}}", n, match v { None => "null".to_string(), Some(x) => format!("{:?}", x) });
        }
        "c03" => {
            // c03 <depth> <max_cells>
            let (d, c) = (arg(2, 4), arg(3, 2));
            let mut out = vec![];
            out.push(c03::run_family::<c03::Counter>(d, c, threads));
            // heap-owning families only if the heap-free family is clean (a double drop of a Box would abort)
            if !out[0].contains("\"why\"") {
                out.push(c03::run_family::<c03::Boxed>(d, c, threads));
                out.push(c03::run_family::<c03::VecHolder>(d, c, threads));
                out.push(c03::run_family::<c03::Plain>(d, c, threads));
            }
            println!("[{}]", out.join(","));
        }
        "c03-alloc" => {
            let (n, v) = c03::alloc_histories(arg(2, 31));
            println!("{{\"histories\":{},\"violation\":{}}}", n, match v { None => "null".to_string(), Some(f) => format!("{:?}", f) });
        }
        "c03-dfs" => {
            let (d, c) = (arg(2, 2), arg(3, 2));
            let mut total = 0;
            let mut viol = None;
            let (n, v) = c03::dfs_family::<c03::Counter>(d, c);
            total += n;
            viol = viol.or(v);
            if viol.is_none() {
                let (n, v) = c03::dfs_family::<c03::Boxed>(d, c);
                total += n;
                viol = viol.or(v);
                let (n, v) = c03::dfs_family::<c03::VecHolder>(d, c);
                total += n;
                viol = viol.or(v);
            }
            println!("{{\"transitions\":{},\"violation\":{}}}", total, match viol { None => "null".to_string(), Some(v) => format!("{:?}", v) });
        }
        "c16-utf8" => {
            let thorough = std::env::args().nth(2).as_deref() == Some("thorough");
            let r = c16::utf8(thorough, threads);
            let blocks: Vec<String> = r.blocks.iter().map(|(n, e, v)| format!("{{\"block\":{:?},\"evaluated\":{},\"valid\":{}}}", n, e, v)).collect();
            println!(
                "{{\"evaluated\":{},\"valid\":{},\"mismatch\":{},\"blocks\":[{}]}}",
                r.evaluated,
                r.valid,
                match r.mismatch {
                    None => "null".to_string(),
                    Some(m) => format!("{:?}", m),
                },
                blocks.join(",")
            );
        }
        "c16-views" => {
            let r = c16::views(arg(2, 8));
            println!(
                "{{\"cases\":{},\"distinct\":{},\"failure\":{},\"samples\":{:?}}}",
                r.cases,
                r.distinct,
                match r.failure {
                    None => "null".to_string(),
                    Some(f) => format!("{:?}", f),
                },
                r.samples
            );
        }
        _ => {
            eprintln!("usage: rtx c12|c12-dfs|c03|c03-dfs|c16-utf8|c16-views ...");
            std::process::exit(2);
        }
    }
}
