//! C12 — DiplomatWrite explored as a state machine with the real runtime code on every transition.
//!
//! State  = history of ops (re-executed from scratch on the real code for every transition).
//! Dedup  = (depth, kind, initial capacity, content, cap, failed, flushed) — the implementation
//!          holds no other state (context/buf pointers are owned by the harness).
//! Oracle = reference model (Vec<u8> content, bool failed, usize cap) stepped side by side.
use diplomat_runtime::DiplomatWrite;
use stateright::{Checker, Model, Property};
use std::ffi::c_void;
use std::fmt::Write as _;
use std::hash::{Hash, Hasher};
use std::sync::atomic::{AtomicU64, Ordering};

/// Mirror of `diplomat_runtime::DiplomatWrite` (the layout is the published FFI contract,
/// see tool/templates/c/runtime.h / capi headers).
#[repr(C)]
pub struct WriteMirror {
    pub context: *mut c_void,
    pub buf: *mut u8,
    pub len: usize,
    pub cap: usize,
    pub grow_failed: bool,
    pub flush: extern "C" fn(*mut DiplomatWrite),
    pub grow: extern "C" fn(*mut DiplomatWrite, usize) -> bool,
}
const _: () = assert!(std::mem::size_of::<WriteMirror>() == std::mem::size_of::<DiplomatWrite>());
const _: () = assert!(std::mem::align_of::<WriteMirror>() == std::mem::align_of::<DiplomatWrite>());

extern "C" {
    fn diplomat_simple_write(buf: *mut u8, buf_size: usize) -> DiplomatWrite;
    fn diplomat_buffer_write_create(cap: usize) -> *mut DiplomatWrite;
    fn diplomat_buffer_write_get_bytes(this: *const DiplomatWrite) -> *mut u8;
    fn diplomat_buffer_write_len(this: *const DiplomatWrite) -> usize;
    fn diplomat_buffer_write_destroy(this: *mut DiplomatWrite);
}
// make sure the symbols are linked from the rlib
#[allow(dead_code)]
fn _link() {
    let _ = diplomat_runtime::diplomat_buffer_write_create as usize;
}

const CHAR_BYTES: [&[u8]; 2] = [b"x", "\u{e9}".as_bytes()];
pub const CHUNKS: [&str; 7] = ["", "a", "bc", "\u{e9}", "\u{20ac}", "\u{1d11e}", "123456789"];
const GUARD: usize = 32;
const CANARY: u8 = 0xC5;
const FILL: u8 = 0xEE;

#[derive(Clone, Copy, Debug, PartialEq, Eq, Hash)]
pub enum Ans {
    Exact,
    Slack,
    Fail,
}
#[derive(Clone, Copy, Debug, PartialEq, Eq, Hash)]
pub enum Kind {
    /// caller-supplied writer: harness-owned grow/flush and exactly sized, canary-guarded buffers
    Caller,
    /// diplomat_buffer_write_create; `Fail` answers are injected by swapping the grow pointer
    RustOwned,
    /// diplomat_simple_write over a caller buffer of `cap0` bytes
    Fixed,
}
#[derive(Clone, Copy, Debug, PartialEq, Eq, Hash)]
pub enum Op {
    Write(u8, Ans),
    /// write!() with two chunks in one formatting call: "{}{}"
    Fmt2(u8, u8, Ans),
    /// a single char through fmt::Write::write_char (what `{}` of a char, fill characters and Formatter::write_char use)
    Char(u8, Ans),
    Flush,
}
pub const CHARS: [char; 2] = ['x', '\u{e9}'];

/// Guarded allocation: [GUARD canary][n bytes FILL][GUARD canary]
struct Guarded {
    raw: Vec<u8>,
    n: usize,
}
impl Guarded {
    fn new(n: usize) -> Self {
        let mut raw = vec![CANARY; n + 2 * GUARD];
        for b in &mut raw[GUARD..GUARD + n] {
            *b = FILL;
        }
        Guarded { raw, n }
    }
    fn ptr(&mut self) -> *mut u8 {
        unsafe { self.raw.as_mut_ptr().add(GUARD) }
    }
    fn intact(&self) -> bool {
        self.raw[..GUARD].iter().all(|&b| b == CANARY) && self.raw[GUARD + self.n..].iter().all(|&b| b == CANARY)
    }
    fn data(&self) -> &[u8] {
        &self.raw[GUARD..GUARD + self.n]
    }
}

struct Env {
    bufs: Vec<Guarded>, // every buffer ever handed out stays alive: stale writes hit a checked canary/region
    next_answer: Ans,
    grow_calls: usize,
    grow_requests: Vec<usize>,
    grow_results: Vec<Option<usize>>,
    flush_calls: usize,
    orig_grow: Option<extern "C" fn(*mut DiplomatWrite, usize) -> bool>,
}

extern "C" fn env_flush(this: *mut DiplomatWrite) {
    unsafe {
        let m = this as *mut WriteMirror;
        let env = &mut *((*m).context as *mut Env);
        env.flush_calls += 1;
    }
}
extern "C" fn env_grow(this: *mut DiplomatWrite, want: usize) -> bool {
    unsafe {
        let m = this as *mut WriteMirror;
        let env = &mut *((*m).context as *mut Env);
        env.grow_calls += 1;
        env.grow_requests.push(want);
        match env.next_answer {
            Ans::Fail => {
                env.grow_results.push(None);
                false
            }
            a => {
                let n = if a == Ans::Exact { want } else { want + 3 };
                env.grow_results.push(Some(n));
                let mut g = Guarded::new(n);
                let keep = (*m).len.min(n);
                std::ptr::copy_nonoverlapping((*m).buf, g.ptr(), keep);
                (*m).buf = g.ptr();
                (*m).cap = n;
                env.bufs.push(g);
                true
            }
        }
    }
}
// grow used for the Rust-owned writer: context stays null there, so the env is a thread local
thread_local! { static RO_ENV: std::cell::RefCell<Option<*mut Env>> = const { std::cell::RefCell::new(None) }; }
extern "C" fn ro_grow(this: *mut DiplomatWrite, want: usize) -> bool {
    let envp = RO_ENV.with(|e| e.borrow().unwrap());
    let env = unsafe { &mut *envp };
    env.grow_calls += 1;
    env.grow_requests.push(want);
    match env.next_answer {
        Ans::Fail => {
            env.grow_results.push(None);
            false
        }
        _ => {
            let ok = crate::alloctrack::scope(|| (env.orig_grow.unwrap())(this, want));
            let cap = unsafe { (*(this as *mut WriteMirror)).cap };
            env.grow_results.push(if ok { Some(cap) } else { None });
            ok
        }
    }
}

#[derive(Clone, Debug, PartialEq, Eq, Hash, Default)]
pub struct RefModel {
    pub content: Vec<u8>,
    pub failed: bool,
    pub cap: usize,
    pub flushes: usize,
}

#[derive(Clone, Debug)]
pub struct St {
    pub kind: Kind,
    pub cap0: usize,
    pub hist: Vec<Op>,
    pub model: RefModel,
    pub nfail: usize,
    pub violation: Option<String>,
}
impl PartialEq for St {
    fn eq(&self, o: &Self) -> bool {
        self.key() == o.key()
    }
}
impl Eq for St {}
impl St {
    fn key(&self) -> (usize, Kind, usize, &RefModel, usize, bool) {
        (self.hist.len(), self.kind, self.cap0, &self.model, self.nfail, self.violation.is_some())
    }
}
impl Hash for St {
    fn hash<H: Hasher>(&self, h: &mut H) {
        self.key().hash(h)
    }
}

/// Run the real code over `hist`; compare with the reference model after every op.
/// Returns (final model, violation).
pub fn execute(kind: Kind, cap0: usize, hist: &[Op]) -> (RefModel, Option<String>) {
    let mut env = Box::new(Env {
        bufs: vec![],
        next_answer: Ans::Exact,
        grow_calls: 0,
        grow_requests: vec![],
        grow_results: vec![],
        flush_calls: 0,
        orig_grow: None,
    });
    let envp: *mut Env = Box::into_raw(env);
    macro_rules! env { () => { unsafe { &mut *envp } }; }
    let mut model = RefModel { content: vec![], failed: false, cap: cap0, flushes: 0 };
    // construct
    let mut owned: Option<*mut DiplomatWrite> = None;
    let mut local: Option<DiplomatWrite> = None;
    match kind {
        Kind::Caller => {
            let mut g = Guarded::new(cap0);
            let m = WriteMirror {
                context: envp as *mut c_void,
                buf: g.ptr(),
                len: 0,
                cap: cap0,
                grow_failed: false,
                flush: env_flush,
                grow: env_grow,
            };
            env!().bufs.push(g);
            local = Some(unsafe { std::mem::transmute::<WriteMirror, DiplomatWrite>(m) });
        }
        Kind::RustOwned => {
            crate::alloctrack::begin();
            let w = crate::alloctrack::scope(|| unsafe { diplomat_buffer_write_create(cap0) });
            let m = w as *mut WriteMirror;
            unsafe {
                env!().orig_grow = Some((*m).grow);
                (*m).grow = ro_grow;
            }
            RO_ENV.with(|e| *e.borrow_mut() = Some(envp));
            owned = Some(w);
        }
        Kind::Fixed => {
            // caller buffer of cap0 bytes; usable capacity cap0-1
            let mut g = Guarded::new(cap0);
            let w = unsafe { diplomat_simple_write(g.ptr(), cap0) };
            env!().bufs.push(g);
            model.cap = cap0 - 1;
            local = Some(w);
        }
    }
    let wp: *mut DiplomatWrite = match owned {
        Some(p) => p,
        None => local.as_mut().unwrap() as *mut DiplomatWrite,
    };
    let mut violation = None;
    for (i, op) in hist.iter().enumerate() {
        let w = unsafe { &mut *wp };
        let grows_before = env!().grow_calls;
        let flushes_before = env!().flush_calls;
        // ---- real step (the environment's grow answers are recorded), then the reference model
        // consumes exactly those answers
        let mut chunks: Vec<&[u8]> = vec![];
        match *op {
            Op::Write(c, ans) => {
                env!().next_answer = ans;
                let s = CHUNKS[c as usize];
                chunks.push(s.as_bytes());
                if w.write_str(s).is_err() {
                    violation = Some(format!("op {i}: write_str returned Err"));
                }
            }
            Op::Fmt2(a, b, ans) => {
                env!().next_answer = ans;
                let (sa, sb) = (CHUNKS[a as usize], CHUNKS[b as usize]);
                chunks.push(sa.as_bytes());
                chunks.push(sb.as_bytes());
                if write!(w, "{}{}", sa, sb).is_err() {
                    violation = Some(format!("op {i}: write! returned Err"));
                }
            }
            Op::Char(c, ans) => {
                env!().next_answer = ans;
                let ch = CHARS[c as usize];
                chunks.push(CHAR_BYTES[c as usize]);
                if w.write_char(ch).is_err() {
                    violation = Some(format!("op {i}: write_char returned Err"));
                }
            }
            Op::Flush => {
                model.flushes += 1;
                w.flush();
            }
        }
        let mut answers: std::collections::VecDeque<(usize, Option<usize>)> = env!().grow_requests[grows_before..]
            .iter()
            .cloned()
            .zip(env!().grow_results[grows_before..].iter().cloned())
            .collect();
        let mut model_err: Option<String> = None;
        for c in chunks {
            if model.failed {
                continue;
            }
            let need = model.content.len() + c.len();
            if need > model.cap {
                if kind == Kind::Fixed {
                    model.failed = true;
                    continue;
                }
                match answers.pop_front() {
                    None => {
                        model_err = Some(format!("growth to {need} needed (cap {}) but grow was not called", model.cap));
                        break;
                    }
                    Some((want, _)) if want < need => {
                        model_err = Some(format!("grow asked for {want} < needed {need}"));
                        break;
                    }
                    Some((_, None)) => {
                        model.failed = true;
                        continue;
                    }
                    Some((_, Some(newcap))) => model.cap = newcap,
                }
            }
            model.content.extend_from_slice(c);
        }
        if model_err.is_none() && !answers.is_empty() {
            model_err = Some(format!("grow called when not needed: {:?}", answers));
        }
        // ---- observe the real writer
        let m = unsafe { &*(wp as *const WriteMirror) };
        let mut bad = |s: String| {
            if violation.is_none() {
                violation = Some(format!("op {i} {:?}: {s}", op));
            }
        };
        if !env!().bufs.iter().all(|g| g.intact()) {
            bad("canary overwritten: write outside a buffer handed to the writer".into());
        }
        // buffers the writer no longer owns (replaced by grow) must not be written any more: skip, the
        // contract lets grow free them; we only keep them alive so stale writes are memory-safe.
        if m.grow_failed != model.failed {
            bad(format!("grow_failed={} model.failed={}", m.grow_failed, model.failed));
        }
        if m.len != model.content.len() {
            bad(format!("len={} model.len={}", m.len, model.content.len()));
        }
        if let Some(e) = model_err {
            bad(e);
        }
        match kind {
            Kind::Caller => {
                if m.cap != model.cap {
                    bad(format!("cap={} model.cap={}", m.cap, model.cap));
                }
                let cur = env!().bufs.last().unwrap();
                if m.buf as *const u8 != cur.raw[GUARD..].as_ptr() {
                    bad("buf pointer is not the buffer the environment handed out".into());
                } else if m.len <= cur.n && cur.data()[..m.len] != model.content[..] {
                    bad(format!("content {:?} != model {:?}", &cur.data()[..m.len], model.content));
                } else if m.len > cur.n {
                    bad(format!("len {} > buffer size {}", m.len, cur.n));
                }
                let want_flush = if matches!(op, Op::Flush) { 1 } else { 0 };
                if env!().flush_calls - flushes_before != want_flush {
                    bad(format!("flush callback ran {} times, expected {want_flush}", env!().flush_calls - flushes_before));
                }
            }
            Kind::RustOwned => {
                let (p, n) = unsafe { (diplomat_buffer_write_get_bytes(wp), diplomat_buffer_write_len(wp)) };
                if model.failed {
                    if !p.is_null() || n != 0 {
                        bad(format!("accessors after failure: ptr null={} len={n}, want null/0", p.is_null()));
                    }
                } else {
                    if p.is_null() {
                        bad("get_bytes returned null without failure".into());
                    } else if n != model.content.len() {
                        bad(format!("len accessor {n} != {}", model.content.len()));
                    } else {
                        let got = unsafe { std::slice::from_raw_parts(p, n) };
                        if got != &model.content[..] {
                            bad(format!("content {:?} != model {:?}", got, model.content));
                        }
                    }
                    if m.cap < model.content.len() {
                        bad(format!("cap {} < len {}", m.cap, model.content.len()));
                    }
                }
            }
            Kind::Fixed => {
                let g = &env!().bufs[0];
                if m.cap != cap0 - 1 {
                    bad(format!("cap={} want {}", m.cap, cap0 - 1));
                }
                if m.len < cap0 && g.data()[..m.len] != model.content[..] {
                    bad(format!("content {:?} != model {:?}", &g.data()[..m.len.min(cap0)], model.content));
                }
                if m.len > cap0 - 1 {
                    bad(format!("len {} > cap0-1 {}", m.len, cap0 - 1));
                } else if matches!(op, Op::Flush) && g.data()[m.len] != 0 {
                    bad(format!("after flush buf[len]={:#x}, want NUL", g.data()[m.len]));
                }
            }
        }
        if violation.is_some() {
            break;
        }
    }
    if let Some(w) = owned {
        unsafe {
            // restore the original grow before destroy (destroy does not call it, but be tidy)
            (*(w as *mut WriteMirror)).grow = env!().orig_grow.unwrap();
            crate::alloctrack::scope(|| diplomat_buffer_write_destroy(w));
        }
        RO_ENV.with(|e| *e.borrow_mut() = None);
        // every block the writer obtained is gone now, and each was released with the layout it was obtained with
        let problems = crate::alloctrack::end();
        if violation.is_none() && !problems.is_empty() {
            violation = Some(format!("allocator: {}", problems.join("; ")));
        }
    }
    drop(local);
    drop(unsafe { Box::from_raw(envp) });
    (model, violation)
}

pub struct WriteModel {
    pub depth: usize,
    pub max_cap: usize,
    pub max_fail: usize,
    pub fmt2: bool,
    pub transitions: &'static AtomicU64,
}

impl Model for WriteModel {
    type State = St;
    type Action = Op;
    fn init_states(&self) -> Vec<St> {
        let mut v = vec![];
        for kind in [Kind::Caller, Kind::RustOwned, Kind::Fixed] {
            for cap0 in (if kind == Kind::RustOwned { 0 } else { 1 })..=self.max_cap {
                let mut model = RefModel { cap: cap0, ..Default::default() };
                if kind == Kind::Fixed {
                    model.cap = cap0 - 1;
                }
                v.push(St { kind, cap0, hist: vec![], model, nfail: 0, violation: None });
            }
        }
        v
    }
    fn actions(&self, s: &St, out: &mut Vec<Op>) {
        if s.hist.len() >= self.depth || s.violation.is_some() {
            return;
        }
        let answers: &[Ans] = match s.kind {
            Kind::Caller => &[Ans::Exact, Ans::Slack, Ans::Fail],
            Kind::RustOwned => &[Ans::Exact, Ans::Fail],
            Kind::Fixed => &[Ans::Exact],
        };
        for c in 0..CHUNKS.len() as u8 {
            for &a in answers {
                if a == Ans::Fail && s.nfail >= self.max_fail {
                    continue;
                }
                out.push(Op::Write(c, a));
            }
        }
        for c in 0..CHARS.len() as u8 {
            for &a in answers {
                if a == Ans::Fail && s.nfail >= self.max_fail {
                    continue;
                }
                out.push(Op::Char(c, a));
            }
        }
        if self.fmt2 {
            for (a, b) in [(1u8, 2u8), (3, 6), (6, 1), (0, 5)] {
                for &ans in answers {
                    if ans == Ans::Fail && s.nfail >= self.max_fail {
                        continue;
                    }
                    out.push(Op::Fmt2(a, b, ans));
                }
            }
        }
        out.push(Op::Flush);
    }
    fn next_state(&self, s: &St, op: Op) -> Option<St> {
        let mut hist = s.hist.clone();
        hist.push(op);
        self.transitions.fetch_add(1, Ordering::Relaxed);
        let (model, violation) = execute(s.kind, s.cap0, &hist);
        // a Fail answer counts as a deviation only if it was consumed (growth was requested)
        let consumed_fail = model.failed && !s.model.failed;
        Some(St { kind: s.kind, cap0: s.cap0, hist, model, nfail: s.nfail + consumed_fail as usize, violation })
    }
    fn properties(&self) -> Vec<Property<Self>> {
        vec![Property::<Self>::always("conforms to reference writer", |_, s| s.violation.is_none())]
    }
}

pub static TRANSITIONS: AtomicU64 = AtomicU64::new(0);

/// object-safe view of a finished stateright checker
trait DynChecker {
    fn uniq(&self) -> usize;
    fn gen(&self) -> usize;
    fn depth(&self) -> usize;
    fn last_bad(&self) -> Option<St>;
}
impl<C: Checker<WriteModel>> DynChecker for C {
    fn uniq(&self) -> usize {
        self.unique_state_count()
    }
    fn gen(&self) -> usize {
        self.state_count()
    }
    fn depth(&self) -> usize {
        self.max_depth()
    }
    fn last_bad(&self) -> Option<St> {
        self.discoveries().get("conforms to reference writer").map(|p| p.last_state().clone())
    }
}

pub fn run(depth: usize, max_cap: usize, max_fail: usize, threads: usize) -> String {
    TRANSITIONS.store(0, Ordering::Relaxed);
    let m = WriteModel { depth, max_cap, max_fail, fmt2: true, transitions: &TRANSITIONS };
    let dfs = std::env::var("RTX_SEARCH").map(|v| v == "dfs").unwrap_or(false);
    let checker: Box<dyn DynChecker> = if dfs { Box::new(m.checker().threads(threads).spawn_dfs().join()) } else { Box::new(m.checker().threads(threads).spawn_bfs().join()) };
    let mut out = String::new();
    let mut viol = String::from("null");
    if let Some(last) = checker.last_bad() {
        viol = format!(
            "{{\"kind\":\"{:?}\",\"cap0\":{},\"hist\":\"{:?}\",\"why\":{:?}}}",
            last.kind,
            last.cap0,
            last.hist,
            last.violation.clone().unwrap_or_default()
        );
    }
    // samples: a few histories written out
    let samples = [
        (Kind::Caller, 1usize, vec![Op::Write(2, Ans::Exact), Op::Write(4, Ans::Fail), Op::Write(1, Ans::Exact), Op::Flush]),
        (Kind::Fixed, 3, vec![Op::Write(1, Ans::Exact), Op::Write(2, Ans::Exact), Op::Write(1, Ans::Exact), Op::Flush]),
        (Kind::RustOwned, 2, vec![Op::Fmt2(3, 6, Ans::Exact), Op::Write(5, Ans::Fail), Op::Flush]),
    ];
    let mut ss = vec![];
    for (k, c, h) in samples.iter() {
        let (m, v) = execute(*k, *c, h);
        ss.push(format!(
            "{{\"kind\":\"{:?}\",\"cap0\":{},\"ops\":\"{:?}\",\"final_content\":{:?},\"failed\":{},\"violation\":{}}}",
            k,
            c,
            h,
            String::from_utf8_lossy(&m.content),
            m.failed,
            v.is_some()
        ));
    }
    write!(
        out,
        "{{\"states\":{},\"generated\":{},\"transitions\":{},\"max_depth\":{},\"violation\":{},\"samples\":[{}]}}",
        checker.uniq(),
        checker.gen(),
        TRANSITIONS.load(Ordering::Relaxed),
        checker.depth(),
        viol,
        ss.join(",")
    )
    .unwrap();
    out
}

/// Sequential DFS of the same space without stateright (used under miri and for replay).
pub fn dfs_all(depth: usize, max_cap: usize, max_fail: usize) -> (u64, Option<String>) {
    let m = WriteModel { depth, max_cap, max_fail, fmt2: false, transitions: &TRANSITIONS };
    let mut n = 0u64;
    let mut stack = m.init_states();
    while let Some(s) = stack.pop() {
        let mut acts = vec![];
        m.actions(&s, &mut acts);
        for a in acts {
            let ns = m.next_state(&s, a).unwrap();
            n += 1;
            if let Some(v) = &ns.violation {
                return (n, Some(format!("{:?} cap0={} {:?}: {}", ns.kind, ns.cap0, ns.hist, v)));
            }
            stack.push(ns);
        }
    }
    (n, None)
}
