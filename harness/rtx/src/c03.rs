//! C03 (runtime half) — exactly-once destruction of payloads held by the runtime's FFI-safe
//! result / option / owned-slice / callback types, explored as a state machine over histories
//! of create / borrow / convert / clone / drop operations with the real runtime code on every
//! transition.
use diplomat_runtime::{DiplomatCallback, DiplomatOption, DiplomatOwnedSlice, DiplomatOwnedUTF8StrSlice, DiplomatResult};
use stateright::{Checker, Model, Property};
use std::cell::RefCell;
use std::ffi::c_void;
use std::hash::{Hash, Hasher};
use std::sync::atomic::{AtomicU64, Ordering};

thread_local! {
    static NEXT_ID: RefCell<u32> = const { RefCell::new(0) };
    static DROPS: RefCell<Vec<u32>> = const { RefCell::new(Vec::new()) };
    static CB_DESTROYED: RefCell<Vec<u32>> = const { RefCell::new(Vec::new()) };
}
fn fresh_id() -> u32 {
    NEXT_ID.with(|n| {
        let mut n = n.borrow_mut();
        *n += 1;
        *n
    })
}
fn log_drop(id: u32) {
    DROPS.with(|d| d.borrow_mut().push(id));
}
fn reset_logs() {
    NEXT_ID.with(|n| *n.borrow_mut() = 0);
    DROPS.with(|d| d.borrow_mut().clear());
    CB_DESTROYED.with(|d| d.borrow_mut().clear());
}

/// A payload family: how the payload owns its identity.
pub trait Payload: Clone + 'static {
    const NAME: &'static str;
    const TRACKED: bool;
    fn new() -> Self;
    /// ids owned by this payload (each must be dropped exactly once); for untracked: the value
    fn ids(&self) -> Vec<u32>;
}

/// plain drop-glue payload, no heap
pub struct Counter(u32);
impl Drop for Counter {
    fn drop(&mut self) {
        log_drop(self.0)
    }
}
impl Clone for Counter {
    fn clone(&self) -> Self {
        Counter(fresh_id())
    }
}
impl Payload for Counter {
    const NAME: &'static str = "Counter";
    const TRACKED: bool = true;
    fn new() -> Self {
        Counter(fresh_id())
    }
    fn ids(&self) -> Vec<u32> {
        vec![self.0]
    }
}
#[derive(Clone)]
pub struct Boxed(Box<Counter>);
impl Payload for Boxed {
    const NAME: &'static str = "Box<Counter>";
    const TRACKED: bool = true;
    fn new() -> Self {
        Boxed(Box::new(Counter::new()))
    }
    fn ids(&self) -> Vec<u32> {
        vec![self.0 .0]
    }
}
#[derive(Clone)]
pub struct VecHolder {
    v: Vec<Counter>,
    tag: u8,
}
impl Payload for VecHolder {
    const NAME: &'static str = "struct{Vec<Counter>,u8}";
    const TRACKED: bool = true;
    fn new() -> Self {
        VecHolder { v: vec![Counter::new(), Counter::new()], tag: 7 }
    }
    fn ids(&self) -> Vec<u32> {
        assert_eq!(self.tag, 7);
        self.v.iter().map(|c| c.0).collect()
    }
}
/// Copy payload: nothing to drop, values must survive conversions
#[derive(Clone, Copy)]
pub struct Plain(u32);
impl Payload for Plain {
    const NAME: &'static str = "u32 (Copy)";
    const TRACKED: bool = false;
    fn new() -> Self {
        Plain(0xA5A50000 | fresh_id())
    }
    fn ids(&self) -> Vec<u32> {
        vec![self.0]
    }
}

pub struct Wrapper<P>(P);
impl<P> From<P> for Wrapper<P> {
    fn from(p: P) -> Self {
        Wrapper(p)
    }
}

unsafe extern "C" fn cb_run_fixed(_d: *mut c_void) {}
fn cb_run() -> unsafe extern "C" fn(*mut c_void, ...) {
    // never invoked by the harness; only its identity is stored
    unsafe { std::mem::transmute::<unsafe extern "C" fn(*mut c_void), unsafe extern "C" fn(*mut c_void, ...)>(cb_run_fixed) }
}
unsafe extern "C" fn cb_destroy(d: *mut c_void) {
    CB_DESTROYED.with(|v| v.borrow_mut().push(d as usize as u32));
}
/// payload value of the plain (no drop glue) arm of a mixed result
const PLAIN_ARM: u32 = 0x5A5A_0001;

#[repr(C)]
struct OwnedMirror<T> {
    ptr: *mut T,
    len: usize,
}

pub enum Cell<P: Payload> {
    R(DiplomatResult<P, P>),
    O(DiplomatOption<P>),
    StdR(Result<P, P>),
    StdO(Option<P>),
    S(DiplomatOwnedSlice<P>),
    BoxS(Box<[P]>),
    U(DiplomatOwnedUTF8StrSlice, &'static str),
    BoxStr(Box<str>, &'static str),
    Cb(DiplomatCallback<()>, u32, bool),
    /// Ok type without drop glue, Err type = payload
    RPlainOk(DiplomatResult<u32, P>),
    /// Ok type = payload, Err type without drop glue
    RPlainErr(DiplomatResult<P, u32>),
    /// unit Ok type, Err type = payload (the common `Result<(), Box<Error>>` shape)
    RUnitOk(DiplomatResult<(), P>),
    StdRPlainOk(Result<u32, P>),
    StdRPlainErr(Result<P, u32>),
    StdRUnitOk(Result<(), P>),
}

#[derive(Clone, Copy, Debug, PartialEq, Eq, Hash)]
pub enum Op {
    /// mixed results: (kind 0: <u32, P>, 1: <P, u32>, 2: <(), P>), arm
    MakeMix(u8, bool),
    /// stateless callback: data == NULL, destructor present or not
    MakeCbNull(bool),
    MakeOk,
    MakeErr,
    MakeSome,
    MakeNone,
    MakeSlice(u8),
    MakeNullSlice,
    MakeStr(u8),
    MakeNullStr,
    MakeCb(bool),
    IntoStd(u8),
    IntoConv(u8),
    FromStd(u8),
    Observe(u8),
    Mutate(u8),
    Clone(u8),
    /// `cells[dst].clone_from(&cells[src])` between two cells of the same runtime type (any arms)
    CloneFrom(u8, u8),
    Drop(u8),
}
const STRS: [&str; 3] = ["", "ab", "\u{20ac}x"];

/// abstract (property-relevant) view of a cell; two concrete cells with the same abstract view
/// have the same futures because the runtime types hold nothing but flag + payload
#[derive(Clone, Debug, PartialEq, Eq, Hash)]
pub enum Abs {
    R(bool),
    O(bool),
    StdR(bool),
    StdO(bool),
    S(usize, bool),
    BoxS(usize),
    U(usize, bool),
    BoxStr(usize),
    Cb(bool),
    Mix(u8, bool),
    StdMix(u8, bool),
}

fn abs_of<P: Payload>(c: &Cell<P>) -> Abs {
    match c {
        Cell::R(r) => Abs::R(r.is_ok),
        Cell::O(o) => Abs::O(o.is_ok),
        Cell::StdR(r) => Abs::StdR(r.is_ok()),
        Cell::StdO(o) => Abs::StdO(o.is_some()),
        Cell::S(s) => {
            let m = unsafe { &*(s as *const DiplomatOwnedSlice<P> as *const OwnedMirror<P>) };
            Abs::S(m.len, m.ptr.is_null())
        }
        Cell::BoxS(b) => Abs::BoxS(b.len()),
        Cell::U(u, _) => {
            let m = unsafe { &*(u as *const DiplomatOwnedUTF8StrSlice as *const OwnedMirror<u8>) };
            Abs::U(m.len, m.ptr.is_null())
        }
        Cell::BoxStr(b, _) => Abs::BoxStr(b.len()),
        Cell::Cb(_, _, d) => Abs::Cb(*d),
        Cell::RPlainOk(r) => Abs::Mix(0, r.is_ok),
        Cell::RPlainErr(r) => Abs::Mix(1, r.is_ok),
        Cell::RUnitOk(r) => Abs::Mix(2, r.is_ok),
        Cell::StdRPlainOk(r) => Abs::StdMix(0, r.is_ok()),
        Cell::StdRPlainErr(r) => Abs::StdMix(1, r.is_ok()),
        Cell::StdRUnitOk(r) => Abs::StdMix(2, r.is_ok()),
    }
}

/// the payload a result/option cell currently owns (None: the arm without drop glue)
fn payload_of<P: Payload>(c: &Cell<P>) -> Option<&P> {
    match c {
        Cell::R(r) => match r.as_ref() {
            Ok(p) | Err(p) => Some(p),
        },
        Cell::O(o) => o.as_ref().ok(),
        Cell::RPlainOk(r) => r.as_ref().err(),
        Cell::RPlainErr(r) => r.as_ref().ok(),
        Cell::RUnitOk(r) => r.as_ref().err(),
        _ => None,
    }
}

pub struct Outcome {
    pub abs: Vec<Abs>,
    pub violation: Option<String>,
    pub created: usize,
}

/// ids each live cell is expected to own, tracked by the reference model
type Owned = Vec<Vec<u32>>;

/// Execute `hist` on the real runtime types, checking after every op; finally drop everything
/// (quiescence) and demand exactly-once.
pub fn execute<P: Payload>(hist: &[Op], max_cells: usize) -> Outcome {
    reset_logs();
    let mut cells: Vec<Cell<P>> = vec![];
    let mut owned: Owned = vec![]; // reference model: which ids each cell must still own
    let mut expect_dropped: Vec<u32> = vec![]; // reference model: ids that must have been dropped by now
    let mut cb_expect: Vec<u32> = vec![];
    let mut next_cb = 100u32;
    let mut violation: Option<String> = None;
    let mut all_ids: Vec<u32> = vec![];
    let track = |p: &P, all: &mut Vec<u32>| -> Vec<u32> {
        let ids = p.ids();
        if P::TRACKED {
            all.extend(ids.iter().cloned());
        }
        ids
    };
    for (step, op) in hist.iter().enumerate() {
        let mut bad = |s: String| {
            if violation.is_none() {
                violation = Some(format!("step {step} {:?}: {s}", op));
            }
        };
        match *op {
            Op::MakeOk | Op::MakeErr | Op::MakeSome | Op::MakeNone | Op::MakeSlice(_) | Op::MakeNullSlice | Op::MakeStr(_) | Op::MakeNullStr | Op::MakeCb(_)
            | Op::MakeMix(..) | Op::MakeCbNull(_)
                if cells.len() >= max_cells =>
            {
                continue
            }
            Op::MakeOk => {
                let p = P::new();
                owned.push(track(&p, &mut all_ids));
                cells.push(Cell::R(Ok(p).into()));
            }
            Op::MakeErr => {
                let p = P::new();
                owned.push(track(&p, &mut all_ids));
                cells.push(Cell::R(Err(p).into()));
            }
            Op::MakeSome => {
                let p = P::new();
                owned.push(track(&p, &mut all_ids));
                cells.push(Cell::O(Some(p).into()));
            }
            Op::MakeNone => {
                owned.push(vec![]);
                cells.push(Cell::O(None.into()));
            }
            Op::MakeSlice(n) => {
                let v: Vec<P> = (0..n).map(|_| P::new()).collect();
                let mut ids = vec![];
                for p in &v {
                    ids.extend(track(p, &mut all_ids));
                }
                owned.push(ids);
                cells.push(Cell::S(v.into_boxed_slice().into()));
            }
            Op::MakeNullSlice => {
                let m = OwnedMirror::<P> { ptr: std::ptr::null_mut(), len: 0 };
                owned.push(vec![]);
                cells.push(Cell::S(unsafe { std::mem::transmute::<OwnedMirror<P>, DiplomatOwnedSlice<P>>(m) }));
            }
            Op::MakeStr(i) => {
                let s = STRS[i as usize];
                owned.push(vec![]);
                cells.push(Cell::U(Box::<str>::from(s).into(), s));
            }
            Op::MakeNullStr => {
                let m = OwnedMirror::<u8> { ptr: std::ptr::null_mut(), len: 0 };
                owned.push(vec![]);
                cells.push(Cell::U(unsafe { std::mem::transmute::<OwnedMirror<u8>, DiplomatOwnedUTF8StrSlice>(m) }, ""));
            }
            Op::MakeCb(with_dtor) => {
                next_cb += 1;
                let cb = DiplomatCallback::<()> {
                    data: next_cb as usize as *mut c_void,
                    run_callback: cb_run(),
                    destructor: if with_dtor { Some(cb_destroy) } else { None },
                };
                owned.push(vec![]);
                cells.push(Cell::Cb(cb, next_cb, with_dtor));
            }
            Op::MakeMix(kind, ok) => {
                // the arm whose type has drop glue owns a payload; the other arm owns nothing
                let (cell, ids) = match (kind, ok) {
                    (0, true) => (Cell::RPlainOk(Ok(PLAIN_ARM).into()), vec![]),
                    (0, false) => {
                        let p = P::new();
                        let ids = track(&p, &mut all_ids);
                        (Cell::RPlainOk(Err(p).into()), ids)
                    }
                    (1, true) => {
                        let p = P::new();
                        let ids = track(&p, &mut all_ids);
                        (Cell::RPlainErr(Ok(p).into()), ids)
                    }
                    (1, false) => (Cell::RPlainErr(Err(PLAIN_ARM).into()), vec![]),
                    (_, true) => (Cell::RUnitOk(Ok(()).into()), vec![]),
                    (_, false) => {
                        let p = P::new();
                        let ids = track(&p, &mut all_ids);
                        (Cell::RUnitOk(Err(p).into()), ids)
                    }
                };
                owned.push(ids);
                cells.push(cell);
            }
            Op::MakeCbNull(with_dtor) => {
                let cb = DiplomatCallback::<()> {
                    data: std::ptr::null_mut(),
                    run_callback: cb_run(),
                    destructor: if with_dtor { Some(cb_destroy) } else { None },
                };
                owned.push(vec![]);
                cells.push(Cell::Cb(cb, 0, with_dtor));
            }
            Op::IntoStd(i) | Op::IntoConv(i) | Op::FromStd(i) | Op::Observe(i) | Op::Mutate(i) | Op::Clone(i) | Op::Drop(i) if (i as usize) >= cells.len() => continue,
            Op::CloneFrom(d, sidx) => {
                let (d, sidx) = (d as usize, sidx as usize);
                if d == sidx || d >= cells.len() || sidx >= cells.len() {
                    continue;
                }
                let (dst, src): (&mut Cell<P>, &Cell<P>) = if d < sidx {
                    let (x, y) = cells.split_at_mut(sidx);
                    (&mut x[d], &y[0])
                } else {
                    let (x, y) = cells.split_at_mut(d);
                    (&mut y[0], &x[sidx])
                };
                let done = match (dst, src) {
                    (Cell::R(x), Cell::R(y)) => {
                        x.clone_from(y);
                        true
                    }
                    (Cell::O(x), Cell::O(y)) => {
                        x.clone_from(y);
                        true
                    }
                    (Cell::RPlainOk(x), Cell::RPlainOk(y)) => {
                        x.clone_from(y);
                        true
                    }
                    (Cell::RPlainErr(x), Cell::RPlainErr(y)) => {
                        x.clone_from(y);
                        true
                    }
                    (Cell::RUnitOk(x), Cell::RUnitOk(y)) => {
                        x.clone_from(y);
                        true
                    }
                    _ => false,
                };
                if done {
                    // reference model: the destination's previous payload is gone (dropped exactly
                    // once, now), the destination owns a fresh clone of the source's payload
                    if P::TRACKED {
                        expect_dropped.extend(owned[d].iter().cloned());
                    }
                    let ids = match payload_of(&cells[d]) {
                        Some(p) => track(p, &mut all_ids),
                        None => vec![],
                    };
                    if abs_of(&cells[d]) != abs_of(&cells[sidx]) {
                        bad("clone_from left the destination in a different arm than the source".into());
                    }
                    if ids.len() != owned[sidx].len() {
                        bad("clone_from destination owns a different number of payloads than the source".into());
                    }
                    if P::TRACKED && ids.iter().any(|x| owned[sidx].contains(x) || owned[d].contains(x)) {
                        bad("clone_from destination shares payload identity with the source or its own previous payload".into());
                    }
                    if !P::TRACKED && ids != owned[sidx] {
                        bad("clone_from changed a Copy payload value".into());
                    }
                    match (&cells[d], &cells[sidx]) {
                        (Cell::RPlainOk(x), Cell::RPlainOk(y)) => {
                            if let (Ok(a), Ok(b)) = (x.as_ref(), y.as_ref()) {
                                if a != b {
                                    bad("clone_from changed the plain arm's value".into());
                                }
                            }
                        }
                        (Cell::RPlainErr(x), Cell::RPlainErr(y)) => {
                            if let (Err(a), Err(b)) = (x.as_ref(), y.as_ref()) {
                                if a != b {
                                    bad("clone_from changed the plain arm's value".into());
                                }
                            }
                        }
                        _ => {}
                    }
                    owned[d] = ids;
                }
            }
            Op::IntoStd(i) => {
                let i = i as usize;
                let c = cells.remove(i);
                let o = owned.remove(i);
                let n = match c {
                    Cell::R(r) => Cell::StdR(r.into()),
                    Cell::O(o) => Cell::StdO(o.into_option()),
                    Cell::S(s) => Cell::BoxS(s.into()),
                    Cell::U(u, s) => Cell::BoxStr(u.into(), s),
                    Cell::RPlainOk(r) => Cell::StdRPlainOk(r.into()),
                    Cell::RPlainErr(r) => Cell::StdRPlainErr(r.into()),
                    Cell::RUnitOk(r) => Cell::StdRUnitOk(r.into()),
                    other => other,
                };
                cells.insert(i, n);
                owned.insert(i, o);
            }
            Op::IntoConv(i) => {
                let i = i as usize;
                let c = cells.remove(i);
                let o = owned.remove(i);
                let n = match c {
                    Cell::O(o) => Cell::StdO(o.into_converted_option::<Wrapper<P>>().map(|w| w.0)),
                    other => other,
                };
                cells.insert(i, n);
                owned.insert(i, o);
            }
            Op::FromStd(i) => {
                let i = i as usize;
                let c = cells.remove(i);
                let o = owned.remove(i);
                let n = match c {
                    Cell::StdR(r) => Cell::R(r.into()),
                    Cell::StdO(o) => Cell::O(o.into()),
                    Cell::BoxS(b) => Cell::S(b.into()),
                    Cell::BoxStr(b, s) => Cell::U(b.into(), s),
                    Cell::StdRPlainOk(r) => Cell::RPlainOk(r.into()),
                    Cell::StdRPlainErr(r) => Cell::RPlainErr(r.into()),
                    Cell::StdRUnitOk(r) => Cell::RUnitOk(r.into()),
                    other => other,
                };
                cells.insert(i, n);
                owned.insert(i, o);
            }
            Op::Observe(i) => {
                // borrow: as_ref / deref; what is seen must be what the model says the cell owns
                let i = i as usize;
                let seen: Vec<u32> = match &cells[i] {
                    Cell::R(r) => match r.as_ref() {
                        Ok(p) | Err(p) => p.ids(),
                    },
                    Cell::O(o) => match o.as_ref() {
                        Ok(p) => p.ids(),
                        Err(()) => vec![],
                    },
                    Cell::StdR(Ok(p)) | Cell::StdR(Err(p)) => p.ids(),
                    Cell::StdO(Some(p)) => p.ids(),
                    Cell::StdO(None) => vec![],
                    Cell::S(s) => s.iter().flat_map(|p| p.ids()).collect(),
                    Cell::BoxS(b) => b.iter().flat_map(|p| p.ids()).collect(),
                    Cell::U(u, s) => {
                        if &**u != *s {
                            bad(format!("owned str derefs to {:?}, want {:?}", &**u, s));
                        }
                        vec![]
                    }
                    Cell::BoxStr(b, s) => {
                        if &**b != *s {
                            bad(format!("boxed str is {:?}, want {:?}", &**b, s));
                        }
                        vec![]
                    }
                    Cell::Cb(cb, d, _) => {
                        if cb.data as usize as u32 != *d {
                            bad("callback data changed".into());
                        }
                        vec![]
                    }
                    Cell::RPlainOk(r) => match r.as_ref() {
                        Ok(v) => {
                            if *v != PLAIN_ARM {
                                bad(format!("plain Ok arm reads {:#x}", v));
                            }
                            vec![]
                        }
                        Err(p) => p.ids(),
                    },
                    Cell::RPlainErr(r) => match r.as_ref() {
                        Ok(p) => p.ids(),
                        Err(v) => {
                            if *v != PLAIN_ARM {
                                bad(format!("plain Err arm reads {:#x}", v));
                            }
                            vec![]
                        }
                    },
                    Cell::RUnitOk(r) => match r.as_ref() {
                        Ok(()) => vec![],
                        Err(p) => p.ids(),
                    },
                    Cell::StdRPlainOk(Ok(v)) | Cell::StdRPlainErr(Err(v)) => {
                        if *v != PLAIN_ARM {
                            bad(format!("plain arm reads {:#x} after conversion", v));
                        }
                        vec![]
                    }
                    Cell::StdRPlainOk(Err(p)) | Cell::StdRPlainErr(Ok(p)) | Cell::StdRUnitOk(Err(p)) => p.ids(),
                    Cell::StdRUnitOk(Ok(())) => vec![],
                };
                if seen != owned[i] {
                    bad(format!("cell {i} shows ids {:?}, reference model says {:?}", seen, owned[i]));
                }
            }
            Op::Mutate(i) => {
                let i = i as usize;
                match &mut cells[i] {
                    Cell::S(s) => {
                        let sl: &mut [P] = &mut *s;
                        if sl.len() >= 2 {
                            sl.swap(0, sl.len() - 1);
                            // model: same permutation of ids (each payload owns a fixed number of ids)
                            let per = owned[i].len() / sl.len();
                            let n = sl.len();
                            for k in 0..per {
                                owned[i].swap(k, (n - 1) * per + k);
                            }
                        }
                    }
                    _ => {}
                }
            }
            Op::Clone(i) => {
                if cells.len() >= max_cells {
                    continue;
                }
                let i = i as usize;
                let n = match &cells[i] {
                    Cell::R(r) => Some(Cell::R(r.clone())),
                    Cell::O(o) => Some(Cell::O(o.clone())),
                    Cell::RPlainOk(r) => Some(Cell::RPlainOk(r.clone())),
                    Cell::RPlainErr(r) => Some(Cell::RPlainErr(r.clone())),
                    Cell::RUnitOk(r) => Some(Cell::RUnitOk(r.clone())),
                    _ => None,
                };
                if let Some(n) = n {
                    let ids: Vec<u32> = match &n {
                        Cell::R(r) => match r.as_ref() {
                            Ok(p) | Err(p) => track(p, &mut all_ids),
                        },
                        Cell::O(o) => match o.as_ref() {
                            Ok(p) => track(p, &mut all_ids),
                            Err(()) => vec![],
                        },
                        Cell::RPlainOk(r) => match r.as_ref() {
                            Ok(_) => vec![],
                            Err(p) => track(p, &mut all_ids),
                        },
                        Cell::RPlainErr(r) => match r.as_ref() {
                            Ok(p) => track(p, &mut all_ids),
                            Err(_) => vec![],
                        },
                        Cell::RUnitOk(r) => match r.as_ref() {
                            Ok(()) => vec![],
                            Err(p) => track(p, &mut all_ids),
                        },
                        _ => vec![],
                    };
                    if abs_of(&n) != abs_of(&cells[i]) {
                        bad("clone changed the arm".into());
                    }
                    if ids.len() != owned[i].len() {
                        bad("clone owns a different number of payloads".into());
                    }
                    if P::TRACKED && ids.iter().any(|x| owned[i].contains(x)) {
                        bad("clone shares payload identity with the original".into());
                    }
                    if !P::TRACKED && ids != owned[i] {
                        bad("clone changed a Copy payload value".into());
                    }
                    cells.push(n);
                    owned.push(ids);
                }
            }
            Op::Drop(i) => {
                let i = i as usize;
                let c = cells.remove(i);
                let o = owned.remove(i);
                if let Cell::Cb(_, d, true) = &c {
                    cb_expect.push(*d);
                }
                drop(c);
                if P::TRACKED {
                    expect_dropped.extend(o);
                }
            }
        }
        // ---- invariant after every op: the drop log equals what the reference model says
        let mut got = DROPS.with(|d| d.borrow().clone());
        got.sort();
        let mut want = expect_dropped.clone();
        want.sort();
        if got != want {
            let mut bad = |s: String| {
                if violation.is_none() {
                    violation = Some(format!("step {step} {:?}: {s}", op));
                }
            };
            bad(format!("dropped ids {:?}, reference model expects {:?}", got, want));
        }
        let mut gotcb = CB_DESTROYED.with(|d| d.borrow().clone());
        gotcb.sort();
        let mut wantcb = cb_expect.clone();
        wantcb.sort();
        if gotcb != wantcb && violation.is_none() {
            violation = Some(format!("step {step} {:?}: callback destructors run for {:?}, expected {:?}", op, gotcb, wantcb));
        }
        if violation.is_some() {
            break;
        }
    }
    let abs: Vec<Abs> = cells.iter().map(abs_of).collect();
    // ---- quiescence: observe every remaining cell once more, then drop all, demand exactly-once
    if violation.is_none() {
        for c in &cells {
            if let Cell::Cb(_, d, true) = c {
                cb_expect.push(*d);
            }
        }
        drop(cells);
        let mut got = DROPS.with(|d| d.borrow().clone());
        got.sort();
        let mut want = all_ids.clone();
        want.sort();
        if P::TRACKED && got != want {
            violation = Some(format!("at quiescence dropped ids {:?}, created {:?} (each must appear exactly once)", got, want));
        }
        let mut gotcb = CB_DESTROYED.with(|d| d.borrow().clone());
        gotcb.sort();
        cb_expect.sort();
        if gotcb != cb_expect && violation.is_none() {
            violation = Some(format!("at quiescence callback destructors {:?}, expected {:?}", gotcb, cb_expect));
        }
    } else {
        // do not run further real code on a state already known bad (a double drop of heap
        // payloads would abort the process): leak deliberately
        std::mem::forget(cells);
    }
    Outcome { abs, violation, created: all_ids.len() }
}

#[derive(Clone, Debug)]
pub struct St {
    pub hist: Vec<Op>,
    pub abs: Vec<Abs>,
    pub violation: Option<String>,
}
impl PartialEq for St {
    fn eq(&self, o: &Self) -> bool {
        self.hist.len() == o.hist.len() && self.abs == o.abs && self.violation.is_some() == o.violation.is_some()
    }
}
impl Eq for St {}
impl Hash for St {
    fn hash<H: Hasher>(&self, h: &mut H) {
        self.hist.len().hash(h);
        self.abs.hash(h);
        self.violation.is_some().hash(h);
    }
}

pub struct DropModel<P: Payload> {
    pub depth: usize,
    pub max_cells: usize,
    pub _p: std::marker::PhantomData<fn() -> P>,
}
pub static TRANSITIONS: AtomicU64 = AtomicU64::new(0);

impl<P: Payload> Model for DropModel<P> {
    type State = St;
    type Action = Op;
    fn init_states(&self) -> Vec<St> {
        vec![St { hist: vec![], abs: vec![], violation: None }]
    }
    fn actions(&self, s: &St, out: &mut Vec<Op>) {
        if s.hist.len() >= self.depth || s.violation.is_some() {
            return;
        }
        if s.abs.len() < self.max_cells {
            out.extend([Op::MakeOk, Op::MakeErr, Op::MakeSome, Op::MakeNone, Op::MakeSlice(0), Op::MakeSlice(1), Op::MakeSlice(3), Op::MakeNullSlice]);
            out.extend([Op::MakeStr(0), Op::MakeStr(1), Op::MakeStr(2), Op::MakeNullStr, Op::MakeCb(true), Op::MakeCb(false)]);
            out.extend([Op::MakeCbNull(true), Op::MakeCbNull(false)]);
            for kind in 0..3u8 {
                out.extend([Op::MakeMix(kind, true), Op::MakeMix(kind, false)]);
            }
        }
        for (i, a) in s.abs.iter().enumerate() {
            let i = i as u8;
            match a {
                Abs::R(_) => out.extend([Op::IntoStd(i), Op::Observe(i), Op::Clone(i), Op::Drop(i)]),
                Abs::O(_) => out.extend([Op::IntoStd(i), Op::IntoConv(i), Op::Observe(i), Op::Clone(i), Op::Drop(i)]),
                Abs::StdR(_) | Abs::StdO(_) | Abs::BoxS(_) | Abs::BoxStr(_) => out.extend([Op::FromStd(i), Op::Observe(i), Op::Drop(i)]),
                Abs::S(..) => out.extend([Op::IntoStd(i), Op::Observe(i), Op::Mutate(i), Op::Drop(i)]),
                Abs::U(..) => out.extend([Op::IntoStd(i), Op::Observe(i), Op::Drop(i)]),
                Abs::Cb(_) => out.extend([Op::Observe(i), Op::Drop(i)]),
                Abs::Mix(..) => out.extend([Op::IntoStd(i), Op::Observe(i), Op::Clone(i), Op::Drop(i)]),
                Abs::StdMix(..) => out.extend([Op::FromStd(i), Op::Observe(i), Op::Drop(i)]),
            }
        }
        for (d, a) in s.abs.iter().enumerate() {
            for (i, b) in s.abs.iter().enumerate() {
                let same = match (a, b) {
                    (Abs::R(_), Abs::R(_)) | (Abs::O(_), Abs::O(_)) => true,
                    (Abs::Mix(k, _), Abs::Mix(l, _)) => k == l,
                    _ => false,
                };
                if d != i && same {
                    out.push(Op::CloneFrom(d as u8, i as u8));
                }
            }
        }
        // Clone is only enabled below the cell bound
        if s.abs.len() >= self.max_cells {
            out.retain(|o| !matches!(o, Op::Clone(_)));
        }
    }
    fn next_state(&self, s: &St, op: Op) -> Option<St> {
        let mut hist = s.hist.clone();
        hist.push(op);
        TRANSITIONS.fetch_add(1, Ordering::Relaxed);
        let o = execute::<P>(&hist, self.max_cells);
        Some(St { hist, abs: o.abs, violation: o.violation })
    }
    fn properties(&self) -> Vec<Property<Self>> {
        vec![Property::<Self>::always("exactly-once", |_, s| s.violation.is_none())]
    }
}

pub fn run_family<P: Payload>(depth: usize, max_cells: usize, threads: usize) -> String {
    let before = TRANSITIONS.load(Ordering::Relaxed);
    let m = DropModel::<P> { depth, max_cells, _p: std::marker::PhantomData };
    let checker = m.checker().threads(threads).spawn_bfs().join();
    let mut viol = String::from("null");
    if let Some(path) = checker.discoveries().get("exactly-once") {
        let last = path.last_state();
        viol = format!("{{\"family\":{:?},\"hist\":\"{:?}\",\"why\":{:?}}}", P::NAME, last.hist, last.violation.clone().unwrap_or_default());
    }
    format!(
        "{{\"family\":{:?},\"states\":{},\"generated\":{},\"transitions\":{},\"max_depth\":{},\"violation\":{}}}",
        P::NAME,
        checker.unique_state_count(),
        checker.state_count(),
        TRANSITIONS.load(Ordering::Relaxed) - before,
        checker.max_depth(),
        viol
    )
}

/// plain sequential DFS (no stateright): used under miri and for replays
pub fn dfs_family<P: Payload>(depth: usize, max_cells: usize) -> (u64, Option<String>) {
    let m = DropModel::<P> { depth, max_cells, _p: std::marker::PhantomData };
    let mut n = 0;
    let mut stack = m.init_states();
    while let Some(s) = stack.pop() {
        let mut acts = vec![];
        m.actions(&s, &mut acts);
        for a in acts {
            let ns = m.next_state(&s, a).unwrap();
            n += 1;
            if let Some(v) = &ns.violation {
                return (n, Some(format!("{} {:?}: {}", P::NAME, ns.hist, v)));
            }
            stack.push(ns);
        }
    }
    (n, None)
}

// ------------------------------------------------------------------------------------------
// argument buffers: the diplomat_alloc / diplomat_free pair that bindings use for owned arguments (size 0 included: the JS
// runtime allocates a buffer for every empty string or slice).  Histories: every pair of buffers over the size x alignment
// alphabet, allocated in order and released in both orders; memory must be writable, aligned, distinct and survive the other
// buffer's release.  Invalid frees / zero-size allocator requests show under ASan-less native runs as crashes and under miri as UB.
extern "C" {
    fn diplomat_alloc(size: usize, align: usize) -> *mut u8;
    fn diplomat_free(ptr: *mut u8, size: usize, align: usize);
}

pub fn alloc_histories(max_size: usize) -> (u64, Option<String>) {
    let mut sizes: Vec<usize> = vec![0, 1, 2, 3, 7, 8, 9, 16, 31];
    sizes.retain(|s| *s <= max_size);
    let aligns = [1usize, 2, 4, 8];
    let mut n = 0u64;
    let fill = |p: *mut u8, size: usize, tag: u8| unsafe {
        for i in 0..size {
            *p.add(i) = tag ^ (i as u8);
        }
    };
    let intact = |p: *mut u8, size: usize, tag: u8| unsafe { (0..size).all(|i| *p.add(i) == tag ^ (i as u8)) };
    for &s1 in &sizes {
        for &a1 in &aligns {
            for &s2 in &sizes {
                for &a2 in &aligns {
                    for first_released in 0..2 {
                        unsafe {
                            let p1 = diplomat_alloc(s1, a1);
                            let p2 = diplomat_alloc(s2, a2);
                            if p1.is_null() || p2.is_null() || (p1 as usize) % a1 != 0 || (p2 as usize) % a2 != 0 {
                                return (n, Some(format!("diplomat_alloc({s1},{a1}) / ({s2},{a2}) returned {:p} / {:p}: null or misaligned", p1, p2)));
                            }
                            if s1 > 0 && s2 > 0 {
                                let (lo1, hi1, lo2, hi2) = (p1 as usize, p1 as usize + s1, p2 as usize, p2 as usize + s2);
                                if lo1 < hi2 && lo2 < hi1 {
                                    return (n, Some(format!("two live buffers overlap: [{lo1:#x},{hi1:#x}) and [{lo2:#x},{hi2:#x})")));
                                }
                            }
                            fill(p1, s1, 0x5A);
                            fill(p2, s2, 0xA5);
                            if first_released == 0 {
                                diplomat_free(p1, s1, a1);
                                if !intact(p2, s2, 0xA5) {
                                    return (n, Some(format!("releasing a ({s1},{a1}) buffer damaged a live ({s2},{a2}) buffer")));
                                }
                                diplomat_free(p2, s2, a2);
                            } else {
                                diplomat_free(p2, s2, a2);
                                if !intact(p1, s1, 0x5A) {
                                    return (n, Some(format!("releasing a ({s2},{a2}) buffer damaged a live ({s1},{a1}) buffer")));
                                }
                                diplomat_free(p1, s1, a1);
                            }
                        }
                        n += 1;
                    }
                }
            }
        }
    }
    (n, None)
}
