//! A global allocator that, while switched on for the current thread, keeps the set of live blocks with their layouts:
//! a block released or reallocated with another layout than it was obtained with, and blocks still alive when the
//! owner has been destroyed, are reported.  Used around the runtime's own allocation sites only (create / grow / destroy
//! of the Rust-owned writer), so harness allocations never enter the books.
use std::alloc::{GlobalAlloc, Layout, System};
use std::cell::{Cell, RefCell};

pub struct Tracking;

thread_local! {
    static ON: Cell<bool> = const { Cell::new(false) };
    static BUSY: Cell<bool> = const { Cell::new(false) };
    static LIVE: RefCell<Vec<(usize, usize, usize)>> = const { RefCell::new(Vec::new()) };
    static PROBLEMS: RefCell<Vec<String>> = const { RefCell::new(Vec::new()) };
}

fn active() -> bool {
    ON.try_with(|o| o.get()).unwrap_or(false) && !BUSY.try_with(|b| b.get()).unwrap_or(true)
}

fn note_alloc(p: *mut u8, size: usize, align: usize) {
    if p.is_null() || !active() {
        return;
    }
    BUSY.with(|b| b.set(true));
    LIVE.with(|l| l.borrow_mut().push((p as usize, size, align)));
    BUSY.with(|b| b.set(false));
}

fn note_release(p: *mut u8, size: usize, align: usize, what: &str) {
    if !active() {
        return;
    }
    BUSY.with(|b| b.set(true));
    LIVE.with(|l| {
        let mut l = l.borrow_mut();
        if let Some(i) = l.iter().position(|e| e.0 == p as usize) {
            let (_, s, a) = l.remove(i);
            if (s, a) != (size, align) {
                PROBLEMS.with(|pr| pr.borrow_mut().push(format!("a block obtained with (size {s}, align {a}) is {what} with (size {size}, align {align})")));
            }
        }
    });
    BUSY.with(|b| b.set(false));
}

unsafe impl GlobalAlloc for Tracking {
    unsafe fn alloc(&self, l: Layout) -> *mut u8 {
        let p = System.alloc(l);
        note_alloc(p, l.size(), l.align());
        p
    }
    unsafe fn dealloc(&self, p: *mut u8, l: Layout) {
        note_release(p, l.size(), l.align(), "released");
        System.dealloc(p, l)
    }
    unsafe fn realloc(&self, p: *mut u8, l: Layout, new_size: usize) -> *mut u8 {
        let tracked = active();
        note_release(p, l.size(), l.align(), "reallocated");
        let q = if tracked {
            // while tracking, a reallocation always moves the block and poisons the old one: whoever keeps the old
            // pointer reads 0xDD (an allocator is free to do this)
            let q = System.alloc(Layout::from_size_align_unchecked(new_size, l.align()));
            if !q.is_null() {
                std::ptr::copy_nonoverlapping(p, q, l.size().min(new_size));
                std::ptr::write_bytes(p, 0xDD, l.size());
                System.dealloc(p, l);
            }
            q
        } else {
            System.realloc(p, l, new_size)
        };
        note_alloc(q, new_size, l.align());
        q
    }
}

/// forget everything and start an accounting period (tracking itself is only on inside `scope`)
pub fn begin() {
    LIVE.with(|l| l.borrow_mut().clear());
    PROBLEMS.with(|p| p.borrow_mut().clear());
}

/// run `f` with tracking switched on
pub fn scope<T>(f: impl FnOnce() -> T) -> T {
    let was = ON.with(|o| o.replace(true));
    let r = f();
    ON.with(|o| o.set(was));
    r
}

/// end of the accounting period: layout mismatches seen, plus whatever is still alive
pub fn end() -> Vec<String> {
    let mut out = PROBLEMS.with(|p| std::mem::take(&mut *p.borrow_mut()));
    let live = LIVE.with(|l| std::mem::take(&mut *l.borrow_mut()));
    if !live.is_empty() {
        out.push(format!("{} block(s) of {} bytes in total still allocated after the owner was destroyed", live.len(), live.iter().map(|e| e.1).sum::<usize>()));
    }
    out
}
