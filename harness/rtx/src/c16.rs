//! C16 — runtime slice/string views round-trip; diplomat_is_str == reference UTF-8 DFA.
use diplomat_runtime::*;
use std::sync::atomic::{AtomicU64, Ordering};

extern "C" {
    fn diplomat_is_str(ptr: *const u8, size: usize) -> bool;
}

// ------------------------------------------------------------------------------------------
// reference UTF-8 recogniser, written from Unicode 15 Table 3-7 (well-formed byte sequences);
// independent of core::str
#[inline]
fn ref_valid(b: &[u8]) -> bool {
    let mut i = 0;
    let n = b.len();
    while i < n {
        let b0 = b[i];
        let (len, lo, hi) = match b0 {
            0x00..=0x7F => (1, 0, 0),
            0xC2..=0xDF => (2, 0x80, 0xBF),
            0xE0 => (3, 0xA0, 0xBF),
            0xE1..=0xEC => (3, 0x80, 0xBF),
            0xED => (3, 0x80, 0x9F),
            0xEE..=0xEF => (3, 0x80, 0xBF),
            0xF0 => (4, 0x90, 0xBF),
            0xF1..=0xF3 => (4, 0x80, 0xBF),
            0xF4 => (4, 0x80, 0x8F),
            _ => return false,
        };
        if i + len > n {
            return false;
        }
        if len >= 2 && !(lo..=hi).contains(&b[i + 1]) {
            return false;
        }
        for k in 2..len {
            if !(0x80..=0xBF).contains(&b[i + k]) {
                return false;
            }
        }
        i += len;
    }
    true
}

pub const BOUNDARY: [u8; 24] = [
    0x00, 0x7F, 0x80, 0x8F, 0x90, 0x9F, 0xA0, 0xBF, 0xC0, 0xC1, 0xC2, 0xDF, 0xE0, 0xE1, 0xEC, 0xED, 0xEE, 0xEF, 0xF0, 0xF1, 0xF3, 0xF4, 0xF5, 0xFF,
];

pub struct Utf8Result {
    pub evaluated: u64,
    pub valid: u64,
    pub mismatch: Option<Vec<u8>>,
    pub blocks: Vec<(String, u64, u64)>,
}

fn check_one(buf: &[u8], valid: &mut u64) -> bool {
    let want = ref_valid(buf);
    let got = unsafe { diplomat_is_str(buf.as_ptr(), buf.len()) };
    if want {
        *valid += 1;
    }
    want == got
}

/// enumerate all strings of `len` over `alphabet` whose first byte index is in `first`, in parallel
fn sweep(name: &str, len: usize, alphabet: &[u8], first: &[u8], threads: usize, res: &mut Utf8Result) {
    let evaluated = AtomicU64::new(0);
    let valid = AtomicU64::new(0);
    let mismatch = std::sync::Mutex::new(None::<Vec<u8>>);
    // work items: (first byte, second byte) pairs when len >= 2
    let mut items: Vec<Vec<u8>> = vec![];
    if len == 0 {
        items.push(vec![]);
    } else if len == 1 {
        for &a in first {
            items.push(vec![a]);
        }
    } else {
        for &a in first {
            for &b in alphabet {
                items.push(vec![a, b]);
            }
        }
    }
    let next = AtomicU64::new(0);
    std::thread::scope(|sc| {
        for _ in 0..threads {
            sc.spawn(|| {
                let mut buf = vec![0u8; len];
                let mut ev = 0u64;
                let mut va = 0u64;
                loop {
                    let k = next.fetch_add(1, Ordering::Relaxed) as usize;
                    if k >= items.len() {
                        break;
                    }
                    let pre = &items[k];
                    buf[..pre.len()].copy_from_slice(pre);
                    let rest = len - pre.len();
                    let a = alphabet.len();
                    let mut idx = vec![0usize; rest];
                    'outer: loop {
                        for (j, &ix) in idx.iter().enumerate() {
                            buf[pre.len() + j] = alphabet[ix];
                        }
                        ev += 1;
                        if !check_one(&buf, &mut va) {
                            let mut m = mismatch.lock().unwrap();
                            if m.is_none() {
                                *m = Some(buf.clone());
                            }
                        }
                        // increment odometer
                        let mut p = rest;
                        loop {
                            if p == 0 {
                                break 'outer;
                            }
                            p -= 1;
                            idx[p] += 1;
                            if idx[p] < a {
                                break;
                            }
                            idx[p] = 0;
                        }
                    }
                }
                evaluated.fetch_add(ev, Ordering::Relaxed);
                valid.fetch_add(va, Ordering::Relaxed);
            });
        }
    });
    let (e, v) = (evaluated.load(Ordering::Relaxed), valid.load(Ordering::Relaxed));
    res.evaluated += e;
    res.valid += v;
    res.blocks.push((name.to_string(), e, v));
    if res.mismatch.is_none() {
        res.mismatch = mismatch.into_inner().unwrap();
    }
}

/// Longer strings: ASCII filler with one or two boundary bytes at every position, for every length up to `maxlen` and every start
/// alignment 0..8 inside an 8-aligned buffer (word-at-a-time fast paths depend on length and alignment, not only on content).
fn align_sweep(r: &mut Utf8Result, maxlen: usize) {
    let mut backing = vec![0u64; maxlen / 8 + 4];
    let base = backing.as_mut_ptr() as *mut u8;
    let (mut ev, mut va) = (0u64, 0u64);
    for align in 0..8usize {
        for len in 1..=maxlen {
            let buf = unsafe { std::slice::from_raw_parts_mut(base.add(align), len) };
            for filler in [b'a', 0x7Fu8] {
                for pos in 0..len {
                    for &b1 in BOUNDARY.iter() {
                        buf.fill(filler);
                        buf[pos] = b1;
                        ev += 1;
                        if !check_one(buf, &mut va) && r.mismatch.is_none() {
                            r.mismatch = Some(buf.to_vec());
                        }
                        if pos + 1 < len && filler == b'a' {
                            for &b2 in BOUNDARY.iter() {
                                buf[pos + 1] = b2;
                                ev += 1;
                                if !check_one(buf, &mut va) && r.mismatch.is_none() {
                                    r.mismatch = Some(buf.to_vec());
                                }
                            }
                            buf[pos + 1] = filler;
                        }
                    }
                }
            }
        }
    }
    r.evaluated += ev;
    r.valid += va;
    r.blocks.push((format!("lengths 1..={maxlen} x start alignment 0..8: ASCII filler with 1-2 boundary bytes at every position"), ev, va));
}

pub fn utf8(thorough: bool, threads: usize) -> Utf8Result {
    let all: Vec<u8> = (0..=255u8).collect();
    let mut r = Utf8Result { evaluated: 0, valid: 0, mismatch: None, blocks: vec![] };
    for len in 0..=3 {
        sweep(&format!("all bytes, len {len}"), len, &all, &all, threads, &mut r);
    }
    let lead4: Vec<u8> = (0xF0..=0xF7u8).collect();
    sweep("len 4, first byte F0..F7, rest all bytes", 4, &all, &lead4, threads, &mut r);
    sweep("len 5 over 24-byte boundary alphabet", 5, &BOUNDARY, &BOUNDARY, threads, &mut r);
    align_sweep(&mut r, if thorough { 40 } else { 24 });
    if thorough {
        sweep("len 6 over 24-byte boundary alphabet", 6, &BOUNDARY, &BOUNDARY, threads, &mut r);
        sweep("len 7 over 12-byte boundary alphabet", 7, &[0x00, 0x7F, 0x80, 0xBF, 0xC2, 0xE0, 0xA0, 0xED, 0x9F, 0xF0, 0x90, 0xF4], &BOUNDARY, threads, &mut r);
        sweep("len 8 over 8-byte boundary alphabet", 8, &[0x7F, 0x80, 0xBF, 0xE0, 0xA0, 0xED, 0xF0, 0x90], &BOUNDARY, threads, &mut r);
    }
    r
}

// ------------------------------------------------------------------------------------------
// views

#[repr(C)]
struct Raw<T> {
    ptr: *const T,
    len: usize,
}
fn raw_of<V, T>(v: &V) -> (usize, usize) {
    assert_eq!(std::mem::size_of::<V>(), std::mem::size_of::<Raw<T>>());
    let r = unsafe { &*(v as *const V as *const Raw<T>) };
    (r.ptr as usize, r.len)
}

pub struct ViewResult {
    pub cases: u64,
    pub distinct: u64,
    pub failure: Option<String>,
    pub samples: Vec<String>,
}

trait Elem: Copy + PartialEq + std::fmt::Debug + 'static {
    const NAME: &'static str;
    fn val(i: usize) -> Self;
    fn other(self) -> Self;
}
macro_rules! elem_int {
    ($($t:ty),*) => {$(
        impl Elem for $t {
            const NAME: &'static str = stringify!($t);
            fn val(i: usize) -> Self {
                const V: [$t; 6] = [0, 1, <$t>::MAX, <$t>::MIN, (0x0102030405060708u64 as $t), (0xA5A5A5A5A5A5A5A5u64 as $t)];
                V[i % 6]
            }
            fn other(self) -> Self { self.wrapping_add(1) }
        }
    )*};
}
elem_int!(u8, i8, u16, i16, u32, i32, u64, i64, usize, isize);
impl Elem for f32 {
    const NAME: &'static str = "f32";
    fn val(i: usize) -> Self {
        [0.0, -0.0, 1.5, f32::INFINITY, f32::MIN_POSITIVE, -3.25e10][i % 6]
    }
    fn other(self) -> Self {
        self + 1.0
    }
}
impl Elem for f64 {
    const NAME: &'static str = "f64";
    fn val(i: usize) -> Self {
        [0.0, -0.0, 1.5, f64::NEG_INFINITY, f64::MIN_POSITIVE, -3.25e100][i % 6]
    }
    fn other(self) -> Self {
        self + 1.0
    }
}
impl Elem for bool {
    const NAME: &'static str = "bool";
    fn val(i: usize) -> Self {
        i % 3 == 1
    }
    fn other(self) -> Self {
        !self
    }
}

fn views_for<T: Elem>(maxlen: usize, r: &mut ViewResult) {
    let mut fail = |s: String| {
        if r.failure.is_none() {
            r.failure = Some(format!("{}: {}", T::NAME, s));
        }
    };
    let mut cases = 0u64;
    for len in 0..=maxlen {
        for rot in 0..3usize {
            let data: Vec<T> = (0..len).map(|i| T::val(i + rot)).collect();
            // --- &[T]
            {
                let s: &[T] = &data;
                let v: DiplomatSlice<T> = s.into();
                let (p, l) = raw_of::<_, T>(&v);
                if p != s.as_ptr() as usize || l != s.len() {
                    fail(format!("&[T] len {len}: view ({p:#x},{l}) != ({:#x},{})", s.as_ptr() as usize, s.len()));
                }
                if &*v != s {
                    fail(format!("&[T] len {len}: deref contents differ"));
                }
                let back: &[T] = v.into();
                if back.as_ptr() != s.as_ptr() || back.len() != s.len() || back != s {
                    fail(format!("&[T] len {len}: round trip differs"));
                }
                cases += 1;
            }
            // --- &mut [T]
            {
                let mut d2 = data.clone();
                let orig_ptr = d2.as_mut_ptr();
                let mut v: DiplomatSliceMut<T> = (&mut d2[..]).into();
                let (p, l) = raw_of::<_, T>(&v);
                if p != orig_ptr as usize || l != len {
                    fail(format!("&mut [T] len {len}: view ptr/len differ"));
                }
                if &*v != &data[..] {
                    fail(format!("&mut [T] len {len}: deref contents differ"));
                }
                if len > 0 {
                    let dm: &mut [T] = &mut *v;
                    dm[len - 1] = dm[len - 1].other();
                }
                let back: &mut [T] = v.into();
                if back.as_mut_ptr() != orig_ptr || back.len() != len {
                    fail(format!("&mut [T] len {len}: round trip ptr/len differ"));
                }
                if len > 0 {
                    back[0] = back[0].other();
                    let mut want = data.clone();
                    want[len - 1] = want[len - 1].other();
                    want[0] = want[0].other();
                    if d2 != want {
                        fail(format!("&mut [T] len {len}: writes through the view not visible in the original"));
                    }
                }
                cases += 1;
            }
            // --- Box<[T]>
            {
                let b: Box<[T]> = data.clone().into_boxed_slice();
                let orig_ptr = b.as_ptr() as usize;
                let mut v: DiplomatOwnedSlice<T> = b.into();
                let (p, l) = raw_of::<_, T>(&v);
                if p != orig_ptr || l != len {
                    fail(format!("Box<[T]> len {len}: view ({p:#x},{l}) != ({orig_ptr:#x},{len})"));
                }
                if &*v != &data[..] {
                    fail(format!("Box<[T]> len {len}: deref contents differ"));
                }
                if len > 0 {
                    let dm: &mut [T] = &mut *v;
                    dm[0] = dm[0].other();
                }
                let back: Box<[T]> = v.into();
                let mut want = data.clone();
                if len > 0 {
                    want[0] = want[0].other();
                }
                if back.as_ptr() as usize != orig_ptr || back.len() != len || &*back != &want[..] {
                    fail(format!("Box<[T]> len {len}: round trip differs"));
                }
                // second trip: owned view dropped without converting back (must free, not leak: miri checks)
                let v2: DiplomatOwnedSlice<T> = back.into();
                drop(v2);
                cases += 1;
            }
        }
    }
    // --- every sub-range (including the empty ones, whose pointer is NOT dangling) of a live buffer
    {
        let n = maxlen.min(6);
        let mut live: Vec<T> = (0..n).map(T::val).collect();
        for a in 0..=n {
            for b in a..=n {
                let want_ptr = unsafe { live.as_ptr().add(a) } as usize;
                {
                    let s: &[T] = &live[a..b];
                    let v: DiplomatSlice<T> = s.into();
                    let back: &[T] = v.into();
                    if back.as_ptr() as usize != want_ptr || back.len() != b - a {
                        fail(format!("&[T] sub-range [{a}..{b}]: round trip ({:#x},{}) != ({want_ptr:#x},{})", back.as_ptr() as usize, back.len(), b - a));
                    }
                    let d: &[T] = &*v;
                    if d.as_ptr() as usize != want_ptr || d.len() != b - a {
                        fail(format!("&[T] sub-range [{a}..{b}]: deref differs"));
                    }
                }
                {
                    let s: &mut [T] = &mut live[a..b];
                    let mut v: DiplomatSliceMut<T> = s.into();
                    let (dp, dl) = { let d: &mut [T] = &mut *v; (d.as_mut_ptr() as usize, d.len()) };
                    if dp != want_ptr || dl != b - a {
                        fail(format!("&mut [T] sub-range [{a}..{b}]: deref_mut ({dp:#x},{dl}) != ({want_ptr:#x},{})", b - a));
                    }
                    let back: &mut [T] = v.into();
                    if back.as_mut_ptr() as usize != want_ptr || back.len() != b - a {
                        fail(format!("&mut [T] sub-range [{a}..{b}]: round trip ({:#x},{}) != ({want_ptr:#x},{})", back.as_mut_ptr() as usize, back.len(), b - a));
                    }
                }
                cases += 2;
            }
        }
    }
    // --- NULL + 0 views
    {
        let v: DiplomatSlice<T> = unsafe { std::mem::transmute(Raw::<T> { ptr: std::ptr::null(), len: 0 }) };
        if v.len() != 0 || !(&*v).is_empty() {
            fail("NULL+0 DiplomatSlice deref not empty".into());
        }
        let s: &[T] = v.into();
        if !s.is_empty() || std::hint::black_box(s.as_ptr() as usize) == 0 || std::hint::black_box(s.as_ptr() as usize) % std::mem::align_of::<T>() != 0 {
            fail("NULL+0 DiplomatSlice -> &[T] not a valid empty slice (null or misaligned)".into());
        }
        let mut v: DiplomatSliceMut<T> = unsafe { std::mem::transmute(Raw::<T> { ptr: std::ptr::null(), len: 0 }) };
        if !(&*v).is_empty() || !(&mut *v).is_empty() {
            fail("NULL+0 DiplomatSliceMut deref not empty".into());
        }
        let s: &mut [T] = v.into();
        if !s.is_empty() || std::hint::black_box(s.as_ptr() as usize) == 0 || std::hint::black_box(s.as_ptr() as usize) % std::mem::align_of::<T>() != 0 {
            fail("NULL+0 DiplomatSliceMut -> &mut [T] not a valid empty slice (null or misaligned)".into());
        }
        let mut v: DiplomatOwnedSlice<T> = unsafe { std::mem::transmute(Raw::<T> { ptr: std::ptr::null(), len: 0 }) };
        if !(&*v).is_empty() || !(&mut *v).is_empty() {
            fail("NULL+0 DiplomatOwnedSlice deref not empty".into());
        }
        let b: Box<[T]> = v.into();
        if !b.is_empty() {
            fail("NULL+0 DiplomatOwnedSlice -> Box<[T]> not empty".into());
        }
        // an empty Box / reference still has to be non-null and aligned for T
        let bp = std::hint::black_box(b.as_ptr() as usize);
        if bp == 0 || bp % std::mem::align_of::<T>() != 0 {
            fail(format!("NULL+0 DiplomatOwnedSlice -> Box<[T]> points at {bp:#x}: null or misaligned for an element of alignment {}", std::mem::align_of::<T>()));
        }
        drop(b);
        let v: DiplomatOwnedSlice<T> = unsafe { std::mem::transmute(Raw::<T> { ptr: std::ptr::null(), len: 0 }) };
        drop(v);
        cases += 4;
    }
    r.cases += cases;
    r.distinct += cases;
    if r.samples.len() < 6 {
        r.samples.push(format!("{}: &[T]/&mut [T]/Box<[T]> lengths 0..={} x 3 value rotations + NULL views, e.g. {:?}", T::NAME, maxlen, (0..3.min(maxlen)).map(T::val).collect::<Vec<_>>()));
    }
}

pub fn views(maxlen: usize) -> ViewResult {
    let mut r = ViewResult { cases: 0, distinct: 0, failure: None, samples: vec![] };
    views_for::<u8>(maxlen, &mut r);
    views_for::<i8>(maxlen, &mut r);
    views_for::<u16>(maxlen, &mut r);
    views_for::<i16>(maxlen, &mut r);
    views_for::<u32>(maxlen, &mut r);
    views_for::<i32>(maxlen, &mut r);
    views_for::<u64>(maxlen, &mut r);
    views_for::<i64>(maxlen, &mut r);
    views_for::<usize>(maxlen, &mut r);
    views_for::<isize>(maxlen, &mut r);
    views_for::<f32>(maxlen, &mut r);
    views_for::<f64>(maxlen, &mut r);
    views_for::<bool>(maxlen, &mut r);
    // DiplomatChar = u32, DiplomatByte = u8: aliases, covered by u32/u8 above (type identity)
    let _: DiplomatChar = 0u32;
    let _: DiplomatByte = 0u8;
    // --- str views
    let strs = ["", "a", "ab", "\u{e9}", "\u{20ac}", "\u{1d11e}", "a\u{e9}\u{20ac}\u{1d11e}z", "\0", "12345678"];
    let mut fail = |s: String| {
        if r.failure.is_none() {
            r.failure = Some(s);
        }
    };
    for s in strs {
        let v: DiplomatUtf8StrSlice = s.into();
        let (p, l) = raw_of::<_, u8>(&v);
        if p != s.as_ptr() as usize || l != s.len() || &*v != s {
            fail(format!("&str {:?}: view differs", s));
        }
        let back: &str = v.into();
        if back.as_ptr() != s.as_ptr() || back != s {
            fail(format!("&str {:?}: round trip differs", s));
        }
        let b: Box<str> = s.into();
        let op = b.as_ptr() as usize;
        let v: DiplomatOwnedUTF8StrSlice = b.into();
        let (p, l) = raw_of::<_, u8>(&v);
        if p != op || l != s.len() || &*v != s {
            fail(format!("Box<str> {:?}: view differs", s));
        }
        let back: Box<str> = v.into();
        if back.as_ptr() as usize != op || &*back != s {
            fail(format!("Box<str> {:?}: round trip differs", s));
        }
        let v: DiplomatOwnedUTF8StrSlice = back.into();
        drop(v);
        // unvalidated spellings: DiplomatStrSlice = DiplomatSlice<u8>, Str16
        let u16s: Vec<u16> = s.encode_utf16().chain([0xD800u16]).collect();
        let v: DiplomatStr16Slice = (&u16s[..]).into();
        let back: &[u16] = v.into();
        if back != &u16s[..] || back.as_ptr() != u16s.as_ptr() {
            fail(format!("&DiplomatStr16 {:?}: round trip differs", s));
        }
        let v: DiplomatStrSlice = s.as_bytes().into();
        let back: &[u8] = v.into();
        if back != s.as_bytes() {
            fail(format!("&DiplomatStr {:?}: round trip differs", s));
        }
        r.cases += 5;
        r.distinct += 5;
    }
    {
        let v: DiplomatUtf8StrSlice = unsafe { std::mem::transmute(Raw::<u8> { ptr: std::ptr::null(), len: 0 }) };
        if &*v != "" {
            fail("NULL+0 DiplomatUtf8StrSlice deref not empty".into());
        }
        let s: &str = v.into();
        if !s.is_empty() {
            fail("NULL+0 DiplomatUtf8StrSlice -> &str not empty".into());
        }
        let v: DiplomatOwnedUTF8StrSlice = unsafe { std::mem::transmute(Raw::<u8> { ptr: std::ptr::null(), len: 0 }) };
        if &*v != "" {
            fail("NULL+0 DiplomatOwnedUTF8StrSlice deref not empty".into());
        }
        let b: Box<str> = v.into();
        if !b.is_empty() {
            fail("NULL+0 DiplomatOwnedUTF8StrSlice -> Box<str> not empty".into());
        }
        r.cases += 2;
        r.distinct += 2;
    }
    // --- the exported UTF-8 predicate on the NULL + 0 empty string (what a default std::string_view passes)
    if !unsafe { diplomat_is_str(std::ptr::null(), 0) } {
        fail("diplomat_is_str(NULL, 0) is false; the empty string is valid UTF-8".into());
    }
    r.cases += 1;
    r.distinct += 1;
    r.samples.push(format!("str views over {:?}", strs));
    r
}
