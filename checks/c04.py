"""C04 — borrow edges: reference outlives-closure model vs the real BorrowingParamVisitor (in-process via hirx),
and vs the edges the managed backends attach (js / dart / kotlin / nanobind), over an exhaustively
enumerated space of method signatures."""
import json
import multiprocessing as mp
import os
import re
import subprocess
import time

from vlib import sigs as S
from vlib.common import Reporter, build_harness, build_tool, workdir, MachineryError, NCPU

ALL_PARAMS = [f.name for f in S.PARAM_FORMS]


def _chunks(tier):
    """Work units: each is (lifetimes, self_forms, param_forms, max_params, ret_form_index, bound_sets or None)."""
    units = []
    if tier == "quick":
        for lts in (("a",), ("a", "b")):
            for ri in range(len(S.RET_FORMS)):
                units.append((lts, [s[0] for s in S.SELF_FORMS], ALL_PARAMS, 1, ri, None))
        # three lifetimes, chains only, one parameter
        chain = [frozenset(), frozenset({("a", "b")}), frozenset({("a", "b"), ("b", "c")}), frozenset({("c", "a")}),
                 frozenset({("b", "a"), ("c", "a")}), frozenset({("a", "b"), ("a", "c")})]
        for ri in range(len(S.RET_FORMS)):
            units.append((("a", "b", "c"), ["none", "&'x self on Op"], ALL_PARAMS, 1, ri, chain))
        # five method lifetimes (more than the inline capacity of small-vector style buffers), chains and a back edge
        l5 = ("a", "b", "c", "d", "e")
        fam5 = [frozenset(), frozenset({("a", "b"), ("b", "c"), ("c", "d"), ("d", "e")}), frozenset({("e", "a")}), frozenset({("e", "d"), ("d", "c"), ("c", "b"), ("b", "a")})]
        for ri in range(len(S.RET_FORMS)):
            if S.RET_FORMS[ri].holes <= 1:
                units.append((l5, ["none", "&'x self on Op"], ["&'x Op", "&'x [u8]", "SB<'x>"], 1, ri, fam5))
        # static methods of `impl<'y> OpL<'y>` taking `&'x Self` next to one more parameter (Self in a non-receiver position)
        for ri in range(len(S.RET_FORMS)):
            units.append((("a", "b"), ["static on OpL<'y>"], ["&'x Self", "&'x Op", "SB<'x>", "&'x [u8]", "&'x OpL<'y>"], 2, ri, None))
    else:
        for lts in (("a",), ("a", "b")):
            for ri in range(len(S.RET_FORMS)):
                units.append((lts, [s[0] for s in S.SELF_FORMS], ALL_PARAMS, 2 if len(lts) <= 2 else 1, ri, None))
        for ri in range(len(S.RET_FORMS)):
            for sf in S.SELF_FORMS:
                units.append((("a", "b", "c"), [sf[0]], ALL_PARAMS, 1, ri, None))
        # two parameters, three lifetimes, all 64 bound sets, reduced parameter menu, self in {none, &'a self}
        two = ["&'x Op", "&'x OpL<'y>", "&'x [u8]", "SB<'x>", "S2<'x,'y>", "S2b<'x,'y>", "&Op"]
        # (all 64 bound sets with two parameters would be ~12 M signatures: the bound sets are restricted to the 10 that matter for
        # transitivity - empty, single edges, 2-chains both ways, fork, join, 3-cycle, total)
        b3 = [frozenset(), frozenset({("a", "b")}), frozenset({("c", "a")}), frozenset({("a", "b"), ("b", "c")}), frozenset({("c", "b"), ("b", "a")}),
              frozenset({("a", "b"), ("a", "c")}), frozenset({("b", "a"), ("c", "a")}), frozenset({("a", "b"), ("b", "c"), ("c", "a")}),
              frozenset({("a", "b"), ("c", "b"), ("a", "c")}), frozenset((x, y) for x in "abc" for y in "abc" if x != y)]
        for ri in range(len(S.RET_FORMS)):
            for sf in ("none", "&'x self on Op"):
                units.append((("a", "b", "c"), [sf], two, 2, ri, b3))
        # four lifetimes: chains, diamonds, single extra edges
        l4 = ("a", "b", "c", "d")
        fam = [frozenset(), frozenset({("a", "b"), ("b", "c"), ("c", "d")}), frozenset({("d", "c"), ("c", "b"), ("b", "a")}),
               frozenset({("a", "b"), ("a", "c"), ("b", "d"), ("c", "d")}), frozenset({("d", "a")}),
               frozenset({("a", "b"), ("c", "d")}), frozenset({("a", "b"), ("b", "c"), ("d", "b")})]
        for ri in range(len(S.RET_FORMS)):
            units.append((l4, ["none", "&'x self on Op"], ["&'x Op", "&'x OpL<'y>", "SB<'x>", "S2<'x,'y>", "&'x [u8]"], 1, ri, fam))
    return units


def _judge(sig, res):
    """Compare reference model with observed edges. Returns list of (class, detail) problems."""
    probs = []
    exp = sig.expected_edges()
    for force in ("false", "true"):
        o = res.get(force) or {}
        if "panic" in o:
            probs.append(("panic", json.dumps(o["panic"])))
            continue
        edges = o.get("edges", {})
        for r, want in exp.items():
            got = {(e["param"], e["kind"], e.get("def_lt")) for e in edges.get(r, [])}
            if r not in edges:
                probs.append(("missing-lifetime", "force=%s lifetime '%s absent from borrow map" % (force, r)))
                continue
            miss = want - got
            extra = got - want
            if miss:
                probs.append(("missing-edge", "force=%s '%s: missing %s" % (force, r, sorted(map(str, miss)))))
            if extra:
                probs.append(("extra-edge", "force=%s '%s: extra %s" % (force, r, sorted(map(str, extra)))))
        # StructBorrowInfo.borrowed_struct_lifetime_map (drives the append arrays of Dart / JS struct conversion) must be the
        # inverse of the struct edges: def-lifetime d of struct parameter p lists return lifetime r  <=>  r has the edge (p, struct, d)
        want_maps = {}
        for r, want in exp.items():
            for (pn, kind, d) in want:
                if kind == "struct":
                    want_maps.setdefault(pn, {}).setdefault(d, set()).add(r)
        got_maps = {pn: {d: set(v) for d, v in mp.items()} for pn, mp in (o.get("struct_maps") or {}).items()}
        if force == "true":
            # with force_include_slices extra lifetimes may be tracked: only the part over the return lifetimes is specified
            got_maps = {pn: {d: (v & set(exp)) for d, v in mp.items() if v & set(exp)} for pn, mp in got_maps.items()}
            got_maps = {pn: mp for pn, mp in got_maps.items() if mp}
        if got_maps != want_maps:
            probs.append(("struct-map", "force=%s borrowed_struct_lifetime_map %s, expected %s" % (
                force, json.dumps({p_: {d: sorted(v) for d, v in m_.items()} for p_, m_ in sorted(got_maps.items())}, sort_keys=True),
                json.dumps({p_: {d: sorted(v) for d, v in m_.items()} for p_, m_ in sorted(want_maps.items())}, sort_keys=True))))
        if force == "false":
            extra_keys = set(edges) - set(exp)
            if extra_keys:
                probs.append(("extra-lifetime", "force=false borrow map has lifetimes %s not in the return type" % sorted(extra_keys)))
    return probs


def _worker(args):
    idx, unit, hirx, wd = args
    lts, selfs, params, maxp, ri, bsets = unit
    sigs = list(S.enumerate_sigs(lts, selfs, params, maxp, [S.RET_FORMS[ri]], bound_sets=bsets))
    inp = os.path.join(wd, "u%d.in" % idx)
    outp = os.path.join(wd, "u%d.out" % idx)
    with open(inp, "w") as fh:
        fh.write(json.dumps({"prelude": S.PRELUDE}) + "\n")
        for i, s in enumerate(sigs):
            fh.write(json.dumps({"id": i, "impl": s.impl_header(), "method": s.render_method("m")}) + "\n")
    env = dict(os.environ)
    env["HIRX_THREADS"] = "1"
    p = subprocess.run([hirx, "borrow", inp, outp], env=env, stdout=subprocess.PIPE, stderr=subprocess.PIPE, text=True)
    if p.returncode != 0:
        return {"error": "hirx failed: " + p.stderr[-2000:]}
    st = {"n": len(sigs), "accepted": 0, "rejected": 0, "gate_panic": 0, "problems": [], "nonempty": 0, "edges": 0,
          "outcomes": set(), "reject_reasons": {}, "samples": []}
    with open(outp) as fh:
        for s, line in zip(sigs, fh):
            r = json.loads(line)
            if r["status"] == "rejected":
                st["rejected"] += 1
                msg = r["errors"][0][1] if r["errors"] else "?"
                msg = re.sub(r"'[a-z]\b", "'_", msg)[:60]
                st["reject_reasons"][msg] = st["reject_reasons"].get(msg, 0) + 1
                continue
            if r["status"] != "ok":
                st["gate_panic"] += 1
                st["problems"].append(("gate-" + r["status"], json.dumps(r.get("panic") or r.get("errors")), s.describe()))
                continue
            st["accepted"] += 1
            m = r["methods"].get("%s::m" % s.owner())
            if m is None:
                st["problems"].append(("no-method", "method missing from HIR", s.describe()))
                continue
            exp = s.expected_edges()
            ne = sum(len(v) for v in exp.values())
            st["edges"] += ne
            if ne:
                st["nonempty"] += 1
            st["outcomes"].add(repr(sorted((r_, sorted(map(str, v))) for r_, v in exp.items())))
            for cls, det in _judge(s, m):
                st["problems"].append((cls, det, s.describe()))
            if len(st["samples"]) < 2 and ne >= 2:
                st["samples"].append({"sig": s.render_method("m"), "impl": s.impl_header(),
                                      "expected": {k: sorted(map(str, v)) for k, v in exp.items()}})
    os.remove(inp)
    os.remove(outp)
    st["outcomes"] = list(st["outcomes"])
    st["problems"] = st["problems"][:200]
    return st


def _classify(cls, det, d):
    """stable violation key for an in-process problem"""
    if cls == "panic" or cls.startswith("gate-"):
        pj = det
        m = re.search(r'"msg": "([^"]{0,60})', pj)
        loc = re.search(r'"loc": "([^":]+)', pj)
        opt = [p for p in d["params"] if p.startswith("Option<")]
        shape = "Option<Struct>" if any("SB" in p for p in opt) else ("Option<slice>" if opt else "other")
        return "C04|visitor-panic|%s|%s|param=%s" % (loc.group(1).replace("/repo/", "") if loc else "?", m.group(1) if m else "?", shape)
    kinds = sorted({re.sub(r"<.*", "", p.split(" ")[-1]) for p in d["params"]})
    return "C04|%s|self=%s|ret=%s" % (cls, d["self"], re.sub(r"'[a-z]", "'_", d["ret"]))


def inprocess_half(rep, tier):
    hirx = os.path.join(build_harness("hirx"), "hirx")
    wd = workdir("C04")
    units = _chunks(tier)
    with mp.Pool(NCPU) as pool:
        results = pool.map(_worker, [(i, u, hirx, wd) for i, u in enumerate(units)], chunksize=1)
    tot = {"n": 0, "accepted": 0, "rejected": 0, "gate_panic": 0, "nonempty": 0, "edges": 0}
    outcomes = set()
    reasons = {}
    samples = []
    for r in results:
        if "error" in r:
            raise MachineryError(r["error"])
        for k in tot:
            tot[k] += r[k]
        outcomes.update(r["outcomes"])
        for k, v in r["reject_reasons"].items():
            reasons[k] = reasons.get(k, 0) + v
        samples += r["samples"]
        for cls, det, d in r["problems"]:
            rep.violation(_classify(cls, det, d), {"signature": d, "problem": det, "class": cls},
                          "%s on `%s`: %s" % (cls, d["text"], det[:300]))
    if tot["accepted"] * 2 < tot["n"]:
        raise MachineryError("vacuity guard: only %d of %d signatures accepted by the gate" % (tot["accepted"], tot["n"]))
    tot["distinct_expected_outcomes"] = len(outcomes)
    tot["reject_reasons"] = reasons
    tot["units"] = len(units)
    tot["samples"] = samples[:6]
    return tot


def run(tier):
    rep = Reporter("C04", tier, "model_checking")
    t0 = time.time()
    ip = inprocess_half(rep, tier)
    t1 = time.time()
    be = None
    try:
        from checks import c04b
    except ImportError:
        c04b = None
    if c04b is not None:
        be = c04b.backend_half(rep, tier)
    from checks import c04c
    nested = c04c.nested_half(rep, tier)
    cov = {
        "states": ip["accepted"] + (be["methods"] if be else 0) + nested["inprocess_structs"] + nested["generated_structs"],
        "transitions": ip["n"] * 2 + (be["judgements"] if be else 0) + nested["inprocess_structs"] + nested["dart_judgements"] + nested["js_judgements"],
        "traces_validated_against_impl": ip["accepted"] * 2 + (be["judgements"] if be else 0) + nested["inprocess_structs"] + nested["dart_judgements"] + nested["js_judgements"],
        "evaluations": ip["n"],
        "distinct_nontrivial": ip["nonempty"],
        "rule": "one case per method signature (lifetimes, declared bound set, self form, parameter forms with lifetime assignment, return form); "
                "non-trivial = accepted by the gate and the reference model expects at least one borrow edge. Each accepted signature is run "
                "through the real BorrowingParamVisitor with force_include_slices in {false,true} and compared edge-for-edge with the "
                "reflexive-transitive outlives closure; the backend half compares the edge arrays emitted by js/dart/kotlin/nanobind; the nested-struct half "
                "judges StructBorrowInfo::compute_for_struct_field, the Dart struct code (text) and the JS struct getters (executed under Node) for every "
                "instantiation of an inner borrowing struct's slots with the outer struct's lifetimes.",
        "exhaustive": True,
        "distinct_outcomes": ip["distinct_expected_outcomes"],
        "bound": {"tier": tier, "units": ip["units"], "lifetimes": "<=2 all bound sets, 3 chains" if tier == "quick" else "<=3 lifetimes: all 64 bound sets with <=1 parameter, 10 bound families with 2 parameters; 4 lifetimes with 7 bound families",
                  "params": "<=1 (quick) / <=2 (thorough)"},
        "inprocess": {k: v for k, v in ip.items() if k != "samples"},
        "backend_half": be,
        "nested_struct_half": nested,
        "wall_inprocess_s": round(t1 - t0, 1),
        "samples": ip["samples"] + ((be or {}).get("samples") or []),
    }
    return rep.finish(cov, [
        "parameters mentioning only 'static are don't-care (a 'static borrow cannot dangle)",
        "signatures rejected by the lowering gate are counted and skipped (C05's business)",
        "impl-level lifetimes cannot carry declared bounds towards method lifetimes in the generated signatures",
        "with force_include_slices=true only the return-type lifetimes are judged; extra slice lifetimes in the map are not part of the statement",
    ])


def replay(path):
    w = json.load(open(path))
    print(json.dumps(w, indent=1)[:3000])
    return run("quick")
