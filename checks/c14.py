"""C14 — output is a deterministic, order-independent, local function of the bridge.

History-space exploration over EDITS with the real diplomat-tool binary in the loop (fresh process per run).

State      = a crate source (lib.rs + module files) held structurally: ordered top-level items; bridge modules hold an
             ordered list of items (use / type decl / impl / trait).  Identity of a state = its exact rendered text.
Transition = one edit (permute type decls, move an impl, swap bridge modules, insert / delete an unreferenced type,
             insert a non-bridge item); BFS from every seed; both orderings of an item multiset are separate states.
Invariant  = per edge and backend, on sha1 of every generated file (see `check_edge`), plus 3 fresh processes per state.
"""
import difflib
import json
import os
import re
import shutil
import subprocess
import time
from collections import namedtuple

from vlib.common import (BACKENDS, REPO, MachineryError, Reporter, build_tool, default_configs, pmap, read_tree,
                         run_tool, sha, workdir)

RUNS_PER_STATE = 3          # fresh processes per (state, backend): RandomState differs in each
RECHECK_RUNS = 12           # extra fresh processes when a re-run difference is being confirmed

# Aggregate (index) files: they enumerate all types, so inserting / deleting a type legitimately changes them.
# Determined by experiment (insert one unreferenced opaque / struct / enum into every seed, list files that change and
# are not the new type's own files); anything else that changes is reported.
AGGREGATES = {
    "c": [],
    "cpp": [],
    "js": [r"^index\.mjs$", r"^index\.d\.ts$"],
    "dart": [r"^lib\.g\.dart$"],
    "kotlin": [r"(^|/)Lib\.kt$"],
    "nanobind": [r"^[^/]*_ext\.cpp$"],
    "demo_gen": [r"^index\.mjs$", r"^js/index\.mjs$", r"^js/index\.d\.ts$"],
}

# ------------------------------------------------------------------------------------------------------------------
# seeds (hand written, accepted by all seven backends; checked at start-up, a rejected seed is a machinery error)

SEED_BASIC = '''\
#[diplomat::bridge]
mod ffi {
    use diplomat_runtime::DiplomatWrite;
    use std::fmt::Write;

    #[diplomat::opaque]
    pub struct Alpha(i32);

    #[diplomat::attr(auto, error)]
    pub enum Color {
        Red,
        Green = 5,
        Blue,
    }

    pub struct Point {
        pub x: i32,
        pub y: f64,
        pub c: Color,
    }

    pub struct Line {
        pub a: Point,
        pub b: Point,
        pub w: u8,
    }

    #[diplomat::opaque]
    pub struct Beta(String);

    pub enum Unused {
        One,
        Two,
    }

    impl Alpha {
        #[diplomat::demo(default_constructor)]
        pub fn new(v: i32) -> Box<Alpha> {
            Box::new(Alpha(v))
        }
        pub fn get(&self) -> i32 {
            self.0
        }
        pub fn set(&mut self, v: i32, flag: bool) {
            self.0 = v;
        }
        pub fn name(&self, w: &mut DiplomatWrite) {
            let _ = write!(w, "{}", self.0);
        }
        pub fn try_new(s: &str) -> Result<Box<Alpha>, Color> {
            Err(Color::Red)
        }
        pub fn maybe(v: u8) -> Option<Box<Alpha>> {
            None
        }
        pub fn to_beta(&self) -> Box<Beta> {
            Box::new(Beta(String::new()))
        }
        pub fn point(&self) -> Point {
            Point { x: 0, y: 0.0, c: Color::Red }
        }
        pub fn color(&self, l: Line) -> Color {
            Color::Red
        }
    }

    impl Beta {
        pub fn from_alpha(a: &Alpha) -> Box<Beta> {
            Box::new(Beta(String::new()))
        }
        pub fn to_alpha(&self) -> Option<Box<Alpha>> {
            None
        }
        pub fn len(&self) -> usize {
            self.0.len()
        }
    }

    impl Point {
        pub fn origin() -> Point {
            Point { x: 0, y: 0.0, c: Color::Red }
        }
        pub fn norm(self) -> f64 {
            0.0
        }
    }

    impl Color {
        pub fn next(self) -> Color {
            self
        }
    }
}
'''

SEED_TWO_MODULES = '''\
pub struct Outside {
    pub q: u8,
}

#[diplomat::bridge]
#[diplomat::abi_rename = "ns_{0}"]
#[diplomat::attr(auto, namespace = "geo")]
mod ffi_b {
    use crate::ffi_a::Kind;
    use crate::ffi_a::Thing;

    #[diplomat::opaque]
    pub struct Holder(Box<Thing>);

    pub struct Pair {
        pub k: Kind,
        pub n: u16,
    }

    impl Holder {
        #[diplomat::attr(auto, constructor)]
        pub fn new(t: &Thing) -> Box<Holder> {
            unimplemented!()
        }
        pub fn thing(&self) -> Box<Thing> {
            unimplemented!()
        }
        #[diplomat::attr(auto, getter)]
        pub fn pair(&self) -> Pair {
            unimplemented!()
        }
    }
}

#[diplomat::bridge]
mod ffi_a {
    #[diplomat::opaque]
    #[diplomat::attr(*, rename = "Gadget")]
    pub struct Thing(u8);

    #[diplomat::attr(auto, error)]
    pub enum Kind {
        Small = 1,
        Large = 2,
    }

    impl Thing {
        pub fn make(k: Kind) -> Result<Box<Thing>, Kind> {
            unimplemented!()
        }
        pub fn check(&self, data: &[u8], name: &str) -> Result<(), Kind> {
            unimplemented!()
        }
        pub fn count(&self) -> Result<u32, ()> {
            unimplemented!()
        }
        pub fn opt(&self) -> Option<u8> {
            None
        }
    }
}
'''

SEED_CYCLIC = '''\
#[diplomat::bridge]
mod ffi {
    #[diplomat::opaque]
    pub struct NodeA(u8);
    #[diplomat::opaque]
    pub struct NodeB(u8);
    #[diplomat::opaque]
    pub struct NodeC(u8);

    pub enum Mode {
        Fast,
        Slow,
    }

    pub struct Inner {
        pub m: Mode,
        pub v: u32,
    }

    pub struct Outer {
        pub i: Inner,
        pub m: Mode,
        pub f: f32,
    }

    impl NodeA {
        pub fn to_b(&self) -> Box<NodeB> {
            unimplemented!()
        }
        pub fn with_c(&self, c: &NodeC) -> Option<Box<NodeA>> {
            None
        }
        pub fn outer(&self) -> Outer {
            unimplemented!()
        }
    }
    impl NodeB {
        pub fn to_c(&self) -> Box<NodeC> {
            unimplemented!()
        }
        pub fn apply(&mut self, o: Outer) -> Inner {
            o.i
        }
    }
    impl NodeC {
        pub fn to_a(&self) -> Option<Box<NodeA>> {
            None
        }
        pub fn both(&self, a: &NodeA, b: &NodeB) -> Mode {
            Mode::Fast
        }
    }
    impl Outer {
        pub fn inner(self) -> Inner {
            self.i
        }
    }
}
'''

SEED_INTERLEAVED = '''\
/// crate level helper, not part of any bridge
fn helper() -> u8 {
    3
}

#[diplomat::bridge]
mod ffi_one {
    /// A counter.
    #[diplomat::opaque]
    pub struct Counter(u64);

    impl Counter {
        /// Makes one.
        pub fn create() -> Box<Counter> {
            Box::new(Counter(0))
        }
    }

    /// Units of counting.
    pub enum Unit {
        Single,
        Dozen,
        Gross,
    }

    impl Counter {
        pub fn add(&mut self, n: u64, u: Unit) {
            self.0 += n;
        }
        pub fn total(&self) -> u64 {
            self.0
        }
    }

    impl Unit {
        pub fn size(self) -> u16 {
            1
        }
    }
}

#[diplomat::bridge]
mod ffi_two {
    pub struct Stats {
        pub min: i16,
        pub max: i16,
        pub mean: f64,
    }

    impl Stats {
        pub fn zero() -> Stats {
            Stats { min: 0, max: 0, mean: 0.0 }
        }
    }

    #[diplomat::opaque]
    pub struct Sampler(Vec<i16>);

    impl Sampler {
        pub fn from_bytes(b: &[u8]) -> Box<Sampler> {
            unimplemented!()
        }
        pub fn stats(&self) -> Stats {
            unimplemented!()
        }
    }
}

#[diplomat::bridge]
mod ffi_three {
    #[diplomat::opaque]
    pub struct Spare(u8);

    pub struct Lonely {
        pub z: bool,
    }
}
'''

SEED_RESULTS = '''\
#[diplomat::bridge]
mod ffi {
    use diplomat_runtime::DiplomatWrite;

    #[diplomat::attr(auto, error)]
    pub enum ErrKind {
        NotFound = 1,
        Denied = 2,
        Other = 7,
    }

    #[diplomat::attr(auto, error)]
    pub struct ErrInfo {
        pub code: i32,
        pub kind: ErrKind,
    }

    #[diplomat::opaque]
    pub struct Store(u8);

    #[diplomat::opaque]
    pub struct Entry(u8);

    pub struct Sized2 {
        pub w: u32,
        pub h: u32,
    }

    impl Store {
        #[diplomat::demo(default_constructor)]
        pub fn open(path: &str) -> Result<Box<Store>, ErrKind> {
            unimplemented!()
        }
        pub fn get(&self, key: &str) -> Result<Box<Entry>, ErrInfo> {
            unimplemented!()
        }
        pub fn find(&self, id: u32) -> Option<Box<Entry>> {
            None
        }
        pub fn flush(&mut self) -> Result<(), ErrKind> {
            Ok(())
        }
        pub fn size(&self) -> Result<Sized2, ()> {
            Err(())
        }
        pub fn describe(&self, out: &mut DiplomatWrite) -> Result<(), ErrKind> {
            Ok(())
        }
        pub fn count(&self) -> Option<u32> {
            None
        }
    }

    impl Entry {
        pub fn value(&self) -> i64 {
            0
        }
        pub fn owner(&self) -> Result<Box<Store>, ErrKind> {
            unimplemented!()
        }
    }
}
'''

SEED_STRINGS = '''\
use std::collections::BTreeMap;

const LIMIT: usize = 16;

#[diplomat::bridge]
mod ffi {
    use diplomat_runtime::DiplomatWrite;
    use std::fmt::Write;

    #[diplomat::opaque]
    pub struct Text(String);

    pub enum Case {
        Upper,
        Lower,
    }

    pub struct Span {
        pub start: usize,
        pub end: usize,
    }

    #[diplomat::opaque]
    pub struct Orphan(u8);

    impl Text {
        #[diplomat::attr(auto, constructor)]
        #[diplomat::demo(default_constructor)]
        pub fn new(s: &str) -> Box<Text> {
            Box::new(Text(s.into()))
        }
        pub fn from_bytes(b: &[u8], c: Case) -> Box<Text> {
            unimplemented!()
        }
        pub fn write(&self, w: &mut DiplomatWrite) {
            let _ = write!(w, "{}", self.0);
        }
        pub fn write_case(&self, c: Case, w: &mut DiplomatWrite) {
            let _ = write!(w, "{{{}}}", self.0);
        }
        pub fn span(&self, needle: &str) -> Span {
            Span { start: 0, end: 0 }
        }
        pub fn slice(&self, s: Span) -> Box<Text> {
            unimplemented!()
        }
        pub fn first(&self) -> u32 {
            '{' as u32
        }
        pub fn sum(&self, vals: &[f64]) -> f64 {
            0.0
        }
    }

    impl Span {
        pub fn len(self) -> usize {
            self.end - self.start
        }
    }

    impl Orphan {
        pub fn make() -> Box<Orphan> {
            Box::new(Orphan(0))
        }
    }
}
'''

SEED_TINY = '''\
#[diplomat::bridge]
mod ffi {
    #[diplomat::opaque]
    pub struct Mid(u8);

    pub enum Flag {
        On,
        Off,
    }

    impl Mid {
        pub fn flag(&self) -> Flag {
            Flag::On
        }
    }
}

#[diplomat::bridge]
mod ffj {
    pub struct Rec {
        pub a: u8,
    }
}
'''

SEED_ATTRIMPL = '''\
#[diplomat::bridge]
mod ffi {
    #[diplomat::opaque]
    pub struct Alpha(u8);

    #[diplomat::opaque]
    pub struct Beta(u8);

    pub struct Gamma {
        pub g: u8,
    }

    pub enum Delta {
        One,
        Two,
    }

    #[diplomat::abi_rename = "legacy_{0}"]
    impl Alpha {
        pub fn value(&self) -> u8 {
            self.0
        }
    }

    impl Beta {
        pub fn value(&self) -> u8 {
            self.0
        }
        pub fn alpha(&self) -> Box<Alpha> {
            unimplemented!()
        }
    }

    #[diplomat::attr(cpp, disable)]
    #[diplomat::attr(js, disable)]
    #[diplomat::attr(kotlin, disable)]
    impl Gamma {
        pub fn hidden(self) -> u8 {
            self.g
        }
    }

    impl Delta {
        pub fn other(self) -> Delta {
            self
        }
    }

    #[diplomat::attr(dart, rename = "d_{0}")]
    #[diplomat::attr(nanobind, disable)]
    #[diplomat::attr(c, disable)]
    impl Alpha {
        pub fn second(&self) -> Gamma {
            unimplemented!()
        }
    }

    impl Gamma {
        pub fn shown(self) -> Delta {
            Delta::One
        }
    }
}

#[diplomat::bridge]
mod ffk {
    #[diplomat::opaque]
    pub struct Omega(u8);

    #[diplomat::demo(external)]
    impl Omega {
        pub fn get(&self) -> u8 {
            self.0
        }
    }

    pub enum Psi {
        Up,
        Down,
    }

    impl Psi {
        pub fn flip(self) -> Psi {
            self
        }
        pub fn omega(self) -> Box<Omega> {
            unimplemented!()
        }
    }
}
'''

SEED_NAMESPACES = '''\
#[diplomat::bridge]
mod ffi {
    #[diplomat::opaque]
    #[diplomat::attr(auto, namespace = "app")]
    pub struct Hub(u8);

    #[diplomat::opaque]
    #[diplomat::attr(auto, namespace = "ns1")]
    pub struct Part1(u8);

    #[diplomat::opaque]
    #[diplomat::attr(auto, namespace = "ns2")]
    pub struct Part2(u8);

    #[diplomat::opaque]
    #[diplomat::attr(auto, namespace = "ns3")]
    pub struct Part3(u8);

    #[diplomat::opaque]
    #[diplomat::attr(auto, namespace = "ns4")]
    pub struct Part4(u8);

    #[diplomat::opaque]
    #[diplomat::attr(auto, namespace = "ns5")]
    pub struct Part5(u8);

    #[diplomat::opaque]
    #[diplomat::attr(auto, namespace = "ns6")]
    pub struct Part6(u8);

    #[diplomat::opaque]
    #[diplomat::attr(auto, namespace = "ns7")]
    pub struct Part7(u8);

    pub enum Plain {
        P,
        Q,
    }

    impl Hub {
        pub fn part1(&self, p: &Part1) -> Box<Part1> {
            unimplemented!()
        }

        pub fn part2(&self, p: &Part2) -> Box<Part2> {
            unimplemented!()
        }

        pub fn part3(&self, p: &Part3) -> Box<Part3> {
            unimplemented!()
        }

        pub fn part4(&self, p: &Part4) -> Box<Part4> {
            unimplemented!()
        }

        pub fn part5(&self, p: &Part5) -> Box<Part5> {
            unimplemented!()
        }

        pub fn part6(&self, p: &Part6) -> Box<Part6> {
            unimplemented!()
        }

        pub fn part7(&self, p: &Part7) -> Box<Part7> {
            unimplemented!()
        }
        pub fn plain(&self) -> Plain {
            Plain::P
        }
    }
}
'''

SEED_TRAITS = '''\
#[diplomat::bridge]
mod ffi {
    #[diplomat::opaque]
    #[diplomat::attr(not(supports = "traits"), disable)]
    pub struct Hub(u8);

    pub trait Listener {
        fn on_event(&self, code: u32) -> u32;
        fn on_close(&self);
    }

    #[diplomat::opaque]
    pub struct Runner(u8);

    impl Hub {
        pub fn listen(&self, l: impl Listener) -> u32 {
            l.on_event(1)
        }
    }

    impl Runner {
        #[diplomat::attr(not(supports = "callbacks"), disable)]
        pub fn apply(&self, f: impl Fn(u8) -> u8) -> u8 {
            f(self.0)
        }
        pub fn plain(&self) -> u8 {
            self.0
        }
    }
}
'''

HAND_SEEDS = [
    ("basic", SEED_BASIC),
    ("two_modules", SEED_TWO_MODULES),
    ("cyclic", SEED_CYCLIC),
    ("interleaved", SEED_INTERLEAVED),
    ("results", SEED_RESULTS),
    ("strings", SEED_STRINGS),
    ("tiny", SEED_TINY),
    ("attrimpl", SEED_ATTRIMPL),
    ("namespaces", SEED_NAMESPACES),
    ("traits", SEED_TRAITS),
]

# ------------------------------------------------------------------------------------------------------------------
# structural representation

# kind: top level: 'bridge' | 'modfile' | 'free'; inside a bridge: 'use' | 'type' | 'impl' | 'trait' | 'other'
# text: exact source slice (leading blank lines / comments / attributes included); for a bridge the text is unused and
# sub = (head, items, tail) with head = everything up to and including '{', tail = the closing '}'.
Item = namedtuple("Item", "kind name sub text")
SrcFile = namedtuple("SrcFile", "path items trailer")
State = namedtuple("State", "files")   # tuple of SrcFile, first is the entry lib.rs

_IDENT = re.compile(r"[A-Za-z_][A-Za-z0-9_]*")
_ONLY_SEMI = {"use", "const", "static", "type"}


def _scan_items(s, start, end):
    """Split s[start:end] into consecutive items.  Returns (list of (item_end, header_idents, brace_open, brace_close)),
    position where the last item ended).  A tiny Rust lexer: comments, strings, raw strings, chars vs lifetimes."""
    items = []
    i = start
    depth = 0
    idents = []
    brace_open = None
    n = end
    while i < n:
        c = s[i]
        if c == "/" and s.startswith("//", i):
            j = s.find("\n", i)
            i = n if j < 0 else j + 1
            continue
        if c == "/" and s.startswith("/*", i):
            lvl = 1
            i += 2
            while i < n and lvl:
                if s.startswith("/*", i):
                    lvl += 1
                    i += 2
                elif s.startswith("*/", i):
                    lvl -= 1
                    i += 2
                else:
                    i += 1
            continue
        if c == '"':
            i += 1
            while i < n and s[i] != '"':
                i += 2 if s[i] == "\\" else 1
            i += 1
            continue
        if c == "r" and re.match(r'r#*"', s[i:i + 8]) and (i == 0 or not (s[i - 1].isalnum() or s[i - 1] == "_")):
            m = re.match(r'r(#*)"', s[i:i + 8])
            close = '"' + m.group(1)
            j = s.find(close, i + len(m.group(0)))
            if j < 0:
                raise MachineryError("UNDECIDED: unterminated raw string")
            i = j + len(close)
            continue
        if c == "'":
            if i + 1 < n and s[i + 1] == "\\":
                j = s.find("'", i + 3)
                i = j + 1
                continue
            if i + 2 < n and s[i + 2] == "'":
                i += 3
                continue
            i += 1   # lifetime
            continue
        if c in "([{":
            if c == "{" and depth == 0 and brace_open is None:
                brace_open = i
            depth += 1
            i += 1
            continue
        if c in ")]}":
            depth -= 1
            if depth < 0:
                raise MachineryError("UNDECIDED: unbalanced brackets while splitting items")
            i += 1
            if c == "}" and depth == 0:
                kw = _keyword(idents)
                if kw not in _ONLY_SEMI:
                    items.append((i, idents, brace_open, i - 1))
                    idents, brace_open = [], None
            continue
        if c == ";" and depth == 0:
            i += 1
            items.append((i, idents, None, None))
            idents, brace_open = [], None
            continue
        if depth == 0:
            m = _IDENT.match(s, i)
            if m and (i == 0 or not (s[i - 1].isalnum() or s[i - 1] == "_")):
                idents.append((m.group(0), i))
                i = m.end()
                continue
        i += 1
    if depth != 0:
        raise MachineryError("UNDECIDED: unbalanced brackets at end of region")
    return items


_SKIP = {"pub", "unsafe", "async", "default", "crate", "super", "in", "self"}
_KW = {"use", "struct", "enum", "impl", "trait", "fn", "mod", "const", "static", "type", "extern", "macro_rules", "union"}


def _keyword(idents):
    for w, _ in idents:
        if w in _KW:
            return w
        if w not in _SKIP:
            return None
    return None


def _impl_self_name(header):
    h = header.strip()
    assert h.startswith("impl")
    h = h[4:].lstrip()
    if h.startswith("<"):
        d = 0
        for k, ch in enumerate(h):
            if ch == "<":
                d += 1
            elif ch == ">" and h[k - 1] != "-":
                d -= 1
                if d == 0:
                    h = h[k + 1:]
                    break
    is_trait = False
    m = re.search(r"\bfor\b", h)
    if m:
        h = h[m.end():]
        is_trait = True
    m = re.match(r"\s*(?:[A-Za-z_][A-Za-z0-9_]*\s*::\s*)*([A-Za-z_][A-Za-z0-9_]*)", h)
    if not m:
        raise MachineryError("UNDECIDED: cannot find self type of impl header %r" % header)
    return m.group(1), is_trait


def _parse_region(s, start, end, inside_bridge):
    """-> (tuple of Item, trailer text)"""
    out = []
    prev = start
    for (iend, idents, bo, bc) in _scan_items(s, start, end):
        text = s[prev:iend]
        kw = _keyword(idents)
        names = [w for w, _ in idents]
        nm = None
        if kw and kw in names:
            k = names.index(kw)
            nm = names[k + 1] if k + 1 < len(names) else None
        if inside_bridge:
            if kw == "use":
                out.append(Item("use", None, None, text))
            elif kw in ("struct", "enum"):
                out.append(Item("type", nm, None, text))
            elif kw == "trait":
                out.append(Item("trait", nm, None, text))
            elif kw == "impl":
                kpos = [p for w, p in idents if w == "impl"][0]
                self_name, is_trait = _impl_self_name(s[kpos:bo])
                out.append(Item("other" if is_trait else "impl", self_name, None, text))
            else:
                out.append(Item("other", nm, None, text))
        else:
            if kw == "mod" and bo is None:
                out.append(Item("modfile", nm, None, text))
            elif kw == "mod" and re.search(r"#\[\s*diplomat\s*::\s*bridge\s*\]", s[prev:bo]):
                inner, trailer = _parse_region(s, bo + 1, bc, True)
                head = s[prev:bo + 1]
                tail = trailer + s[bc:iend]
                out.append(Item("bridge", nm, (head, inner, tail), None))
            else:
                out.append(Item("free", nm, None, text))
        prev = iend
    return tuple(out), s[prev:end]


def parse_file(path, text):
    items, trailer = _parse_region(text, 0, len(text), False)
    f = SrcFile(path, items, trailer)
    if render_file(f) != text:
        raise MachineryError("UNDECIDED: structural split of %s does not reproduce its text" % path)
    return f


def render_item(it):
    if it.kind == "bridge":
        head, inner, tail = it.sub
        return head + "".join(x.text for x in inner) + tail
    return it.text


def render_file(f):
    return "".join(render_item(it) for it in f.items) + f.trailer


def render_state(st):
    return {f.path: render_file(f) for f in st.files}


def state_key(st):
    r = render_state(st)
    return sha("\0".join("%s\0%s" % (p, r[p]) for p in sorted(r)))


def load_crate(src_dir):
    """lib.rs + every `mod x;` file next to it (one level, as feature_tests is laid out)."""
    lib = parse_file("lib.rs", open(os.path.join(src_dir, "lib.rs")).read())
    files = [lib]
    for it in lib.items:
        if it.kind == "modfile":
            p = os.path.join(src_dir, it.name + ".rs")
            if not os.path.exists(p):
                raise MachineryError("UNDECIDED: module file %s not found (nested layouts are not handled)" % p)
            files.append(parse_file(it.name + ".rs", open(p).read()))
    return State(tuple(files))


# ------------------------------------------------------------------------------------------------------------------
# edits

# subject: inserted / deleted type name (locality edits) else None; renamed: a rename attribute may apply to it, so its own
# files cannot be recognised by name
Edit = namedtuple("Edit", "kind desc subject renamed")

# edit kinds: permute-types, move-impl, swap-modules (output must not change at all); insert-type, delete-type (locality: see
# check_edge); nonbridge (output must not change at all)
LOCAL = ("insert-type", "delete-type")


def _replace_file(st, fi, newf):
    fs = list(st.files)
    fs[fi] = newf
    return State(tuple(fs))


def _replace_bridge_items(st, fi, ii, new_inner):
    f = st.files[fi]
    it = f.items[ii]
    head, _, tail = it.sub
    items = list(f.items)
    items[ii] = Item("bridge", it.name, (head, tuple(new_inner), tail), None)
    return _replace_file(st, fi, SrcFile(f.path, tuple(items), f.trailer))


def bridges(st):
    for fi, f in enumerate(st.files):
        for ii, it in enumerate(f.items):
            if it.kind == "bridge":
                yield fi, ii, f, it


def _label(f, it):
    return it.name if f.path == "lib.rs" else "%s::%s" % (f.path[:-3], it.name)


def all_type_names(st):
    return {x.name for _, _, _, b in bridges(st) for x in b.sub[1] if x.kind in ("type", "trait")}


def _other_text(st, skip):
    """text of the whole crate except the items (identified by object identity) in `skip`"""
    parts = []
    for f in st.files:
        for it in f.items:
            if it.kind == "bridge":
                parts.append(it.sub[0])
                parts.extend(x.text for x in it.sub[1] if not any(x is s for s in skip))
            else:
                parts.append(it.text)
        parts.append(f.trailer)
    return "\n".join(parts)


def unreferenced_types(st):
    """(fi, ii, name): bridge types whose name occurs nowhere outside their own declaration and inherent impls
    (purely textual and conservative: a mention in a comment or string counts as a reference)."""
    res = []
    for fi, ii, f, b in bridges(st):
        for x in b.sub[1]:
            if x.kind != "type":
                continue
            own = [y for y in b.sub[1] if (y is x) or (y.kind == "impl" and y.name == x.name)]
            if any(y.kind == "other" and y.name == x.name for y in b.sub[1]):
                continue
            if re.search(r"\b%s\b" % re.escape(x.name), _other_text(st, own)):
                continue
            # the impls must not mention other things that only exist for them; nothing to check: they are deleted whole
            res.append((fi, ii, x.name))
    return res


INSERT_KINDS = ("opaque", "struct", "enum")
INSERT_POS = ("first", "middle", "last")
INSERT_COMBOS = tuple((k, p) for k in INSERT_KINDS for p in INSERT_POS)


def _new_type_items(kind, name, indent="    "):
    i1, i2, i3 = indent, indent * 2, indent * 3
    if kind == "opaque":
        decl = "\n%s#[diplomat::opaque]\n%spub struct %s(u8);\n" % (i1, i1, name)
        impl = ("\n%simpl %s {\n%spub fn make_it(v: u8) -> Box<%s> {\n%sBox::new(%s(v))\n%s}\n%spub fn value(&self) -> u8 {\n"
                "%sself.0\n%s}\n%s}\n") % (i1, name, i2, name, i3, name, i2, i2, i3, i2, i1)
        return [Item("type", name, None, decl), Item("impl", name, None, impl)]
    if kind == "struct":
        decl = "\n%spub struct %s {\n%spub lo: u8,\n%spub hi: i32,\n%s}\n" % (i1, name, i2, i2, i1)
        return [Item("type", name, None, decl)]
    decl = "\n%spub enum %s {\n%sFirst,\n%sSecond,\n%s}\n" % (i1, name, i2, i2, i1)
    return [Item("type", name, None, decl)]


def _insert_name(kind, pos, existing):
    tag = {"opaque": "Opq", "struct": "Rec", "enum": "Enm"}[kind]
    if pos == "first":
        return "AaaaUnref" + tag
    if pos == "last":
        return "ZzzzUnref" + tag
    names = sorted(existing)
    med = names[len(names) // 2] if names else "M"
    # sorts directly after the median existing name of this module, before anything that follows it
    return med + "0Unref" + tag


NONBRIDGE_KINDS = ("fn", "same-name-struct", "plain-mod", "use", "const", "struct+impl", "outer-impl", "foreign-bridge-mod", "bare-bridge-mod")
NONBRIDGE_WHERE = {"fn": "top", "same-name-struct": "end", "plain-mod": "top", "use": "end", "const": "top", "struct+impl": "end",
                   "outer-impl": "top", "foreign-bridge-mod": "end", "bare-bridge-mod": "top"}


def _nonbridge_text(kind, st, fpath):
    tnames = sorted(all_type_names(st))
    t0 = tnames[0] if tnames else "Nothing"
    first_bridge = next(((f, b) for _, _, f, b in bridges(st)), None)
    if kind == "fn":
        return "\npub fn c14_free_function(a: u32, b: &str) -> u32 {\n    a + b.len() as u32\n}\n"
    if kind == "same-name-struct":
        return "\n/// same name as a bridge type, but outside every bridge\npub struct %s {\n    pub shadow: [u8; 4],\n}\n" % t0
    if kind == "plain-mod":
        return ("\npub mod c14_plain_mod {\n    pub struct %s {\n        pub inner: u64,\n    }\n    impl %s {\n"
                "        pub fn hidden(&self) -> u64 {\n            self.inner\n        }\n    }\n    pub enum C14Hidden {\n"
                "        A,\n        B,\n    }\n}\n") % (t0, t0)
    if kind == "use":
        return "\nuse std::collections::HashMap as C14Map;\n"
    if kind == "const":
        return "\npub const C14_CONST: &str = \"{ not a block }\";\npub static C14_STATIC: [u8; 2] = [1, 2];\n"
    if kind == "struct+impl":
        return ("\npub struct C14Plain {\n    pub v: i8,\n}\n\nimpl C14Plain {\n    pub fn new() -> Box<C14Plain> {\n"
                "        Box::new(C14Plain { v: 0 })\n    }\n}\n")
    if kind == "foreign-bridge-mod":
        # a module of another binding generator: its attribute path ends in `bridge` but is not diplomat's
        return ("\n#[cxx::bridge]\npub mod c14_cxx_ffi {\n    pub struct C14CxxShared {\n        pub v: u8,\n    }\n    pub enum C14CxxKind {\n"
                "        A,\n        B,\n    }\n}\n")
    if kind == "bare-bridge-mod":
        return "\n#[bridge]\npub mod c14_bare_ffi {\n    pub struct C14BareShared {\n        pub w: u16,\n    }\n}\n"
    if kind == "outer-impl":
        # an inherent impl for a bridge type written outside the bridge (common for private helpers)
        if first_bridge is None:
            return None
        f, b = first_bridge
        ty = next((x.name for x in b.sub[1] if x.kind == "type"), None)
        if ty is None:
            return None
        path = ("crate::%s::%s" % (b.name, ty)) if f.path == "lib.rs" else ("crate::%s::%s::%s" % (f.path[:-3], b.name, ty))
        return "\nimpl %s {\n    pub fn c14_outside_helper(&self) -> Box<%s> {\n        unimplemented!()\n    }\n}\n" % (path, path)
    raise AssertionError(kind)


def successors(st, opts):
    """All single edits applicable to st: list of (Edit, State).  Deterministic order."""
    out = []
    tn = all_type_names(st)
    perm_files = opts.get("perm_files")        # None = all
    ins_files = opts.get("insert_files")
    for fi, ii, f, b in bridges(st):
        inner = list(b.sub[1])
        lab = _label(f, b)
        if perm_files is None or f.path in perm_files:
            # permute-types: bring a declaration in front of the previous declaration (impls stay behind their types)
            decl_pos = [k for k, x in enumerate(inner) if x.kind in ("type", "trait")]
            for a, c in zip(decl_pos, decl_pos[1:]):
                new = inner[:a] + [inner[c]] + inner[a:c] + inner[c + 1:]
                out.append((Edit("permute-types", "permute-types(%s: %s before %s)" % (lab, inner[c].name, inner[a].name), None, False),
                            _replace_bridge_items(st, fi, ii, new)))
            # move-impl one step later / earlier; never across its own type, never across another impl of the same type
            for k, x in enumerate(inner):
                if x.kind != "impl":
                    continue
                if k + 1 < len(inner):
                    y = inner[k + 1]
                    if y.kind in ("type", "trait") or (y.kind == "impl" and y.name != x.name):
                        new = inner[:k] + [y, x] + inner[k + 2:]
                        out.append((Edit("move-impl", "move-impl-later(%s: impl %s#%d over %s %s)" % (
                            lab, x.name, _impl_ordinal(inner, k), y.kind, y.name), None, False), _replace_bridge_items(st, fi, ii, new)))
                if k > 0:
                    y = inner[k - 1]
                    if (y.kind in ("type", "trait") and y.name != x.name) or (y.kind == "impl" and y.name != x.name):
                        new = inner[:k - 1] + [x, y] + inner[k + 1:]
                        out.append((Edit("move-impl", "move-impl-earlier(%s: impl %s#%d over %s %s)" % (
                            lab, x.name, _impl_ordinal(inner, k), y.kind, y.name), None, False), _replace_bridge_items(st, fi, ii, new)))
        if ins_files is None or f.path in ins_files:
            local_names = [x.name for x in inner if x.kind == "type"]
            first_decl = next((k for k, x in enumerate(inner) if x.kind != "use"), len(inner))
            for kind, pos in opts.get("insert_combos", INSERT_COMBOS):
                if True:
                    name = _insert_name(kind, pos, local_names)
                    if name in tn:
                        continue
                    at = {"first": first_decl, "middle": first_decl + (len(inner) - first_decl + 1) // 2, "last": len(inner)}[pos]
                    # never split a type from an impl so that the impl would precede it: any position is fine for a new type
                    new = inner[:at] + _new_type_items(kind, name) + inner[at:]
                    out.append((Edit("insert-type", "insert-type(%s: %s %s at %s)" % (lab, kind, name, pos), name, "rename" in b.sub[0]),
                                _replace_bridge_items(st, fi, ii, new)))
    # insert-shadow: a new, unreferenced type with the SAME Rust name as a type of another bridge module, kept apart in the
    # output by a rename attribute (legal: bridge modules are separate Rust modules)
    if not opts.get("no_shadow"):
        for fi, ii, f, b in bridges(st):
            if ins_files is not None and f.path not in ins_files:
                continue
            inner = list(b.sub[1])
            text_b = render_item(b)
            cand = None
            for fj, ij, g, b2 in bridges(st):
                if (fj, ij) == (fi, ii):
                    continue
                for x in b2.sub[1]:
                    if x.kind == "type" and not re.search(r"\b%s\b" % re.escape(x.name), text_b) and "<" not in x.text.split("{")[0]:
                        kind = "opaque" if "diplomat::opaque" in x.text else ("enum" if re.search(r"\benum\s+%s\b" % x.name, x.text) else "struct")
                        cand = (x.name, kind)
                        break
                if cand:
                    break
            if not cand or any("C14Shadow" in t for t in render_state(st).values()):
                continue
            name, kind = cand
            items = _new_type_items(kind, name)
            attr = '\n    #[diplomat::attr(*, rename = "C14Shadow%s")]' % name
            items[0] = Item("type", name, None, attr + "\n" + items[0].text.lstrip("\n"))
            new = inner + items
            out.append((Edit("insert-type", "insert-shadow(%s: %s %s renamed C14Shadow%s)" % (_label(f, b), kind, name, name),
                             "C14Shadow" + name, True), _replace_bridge_items(st, fi, ii, new)))
    for fi, ii, name in ([] if opts.get("no_delete") else unreferenced_types(st)):
        f = st.files[fi]
        if ins_files is not None and f.path not in ins_files:
            continue
        b = f.items[ii]
        new = [x for x in b.sub[1] if not (x.name == name and x.kind in ("type", "impl"))]
        decl = next(x for x in b.sub[1] if x.kind == "type" and x.name == name)
        out.append((Edit("delete-type", "delete-type(%s: %s)" % (_label(f, b), name), name, "rename" in b.sub[0] or "rename" in decl.text),
                    _replace_bridge_items(st, fi, ii, new)))
    # swap-modules: adjacent (in the sequence of bridge / file modules) top-level modules of lib.rs
    lib = st.files[0]
    mpos = [k for k, x in enumerate(lib.items) if x.kind in ("bridge", "modfile")]
    for a, c in zip(mpos, mpos[1:]):
        items = list(lib.items)
        xa, xc = items[a], items[c]
        items[a], items[c] = _with_leading_ws(xc, xa), _with_leading_ws(xa, xc)
        out.append((Edit("swap-modules", "swap-modules(%s <-> %s)" % (xa.name, xc.name), None, False),
                    _replace_file(st, 0, SrcFile(lib.path, tuple(items), lib.trailer))))
    # non-bridge items
    for fpath in opts.get("nonbridge_files", ("lib.rs",)):
        fi = next((k for k, f in enumerate(st.files) if f.path == fpath), None)
        if fi is None:
            continue
        f = st.files[fi]
        for kind in opts.get("nonbridge_kinds", NONBRIDGE_KINDS):
            text = _nonbridge_text(kind, st, fpath)
            if text is None or text in render_file(f):
                continue
            items = list(f.items)
            where = NONBRIDGE_WHERE[kind]
            if where == "top":
                first = render_item(items[0]) if items else ""
                at = 1 if ("#![" in first or "//!" in first) else 0   # inner attributes / docs must stay first
                items.insert(at, Item("free", None, None, text.lstrip("\n") + "\n" if at == 0 else text))
            else:
                items.append(Item("free", None, None, text))
            newf = SrcFile(f.path, tuple(items), f.trailer)
            out.append((Edit("nonbridge", "nonbridge(%s: %s at %s)" % (fpath, kind, where), None, False), _replace_file(st, fi, newf)))
    return out


def _lead(t):
    return t[:len(t) - len(t.lstrip())]


def _with_leading_ws(it, like):
    """`it` with its leading white space replaced by that of `like` (keeps the file layout when two modules trade places)"""
    if it.kind == "bridge":
        head, inner, tail = it.sub
        return Item("bridge", it.name, (_lead(render_item(like)) + head.lstrip(), inner, tail), None)
    return Item(it.kind, it.name, None, _lead(render_item(like)) + it.text.lstrip())


def _impl_ordinal(inner, k):
    return sum(1 for y in inner[:k] if y.kind == "impl" and y.name == inner[k].name)


# ------------------------------------------------------------------------------------------------------------------
# execution


class Seed:
    def __init__(self, name, state, config_file=None, use_default_configs=True, opts=None):
        self.name = name
        self.state = state
        self.config_file = config_file
        self.use_default_configs = use_default_configs
        self.opts = opts or {}

    def configs(self, backend):
        return default_configs(backend) if self.use_default_configs else []


class Node:
    __slots__ = ("key", "state", "seed", "history", "out", "rerun", "fail", "depth", "rerun_detail")

    def __init__(self, key, state, seed, history, depth):
        self.key, self.state, self.seed, self.history, self.depth = key, state, seed, history, depth
        self.out = {}      # backend -> {relpath: sha}
        self.rerun = {}    # backend -> list of tree digests of every run
        self.fail = {}     # backend -> (rc, stderr tail)
        self.rerun_detail = {}


class Runner:
    """Runs the real tool (always a fresh process per run).

    Measured on this box: creating / unlinking output files costs far more than the tool itself, and small file-system calls made
    from many Python threads are 10x slower than from one (GIL hand-offs).  So (a) output directories are re-used: after a
    directory has been read every file in it gets mtime 0, and after the next run only files with a fresh mtime (= written by that
    process) count; (b) worker threads do nothing but start the tool, all reading / hashing happens in the calling thread."""

    def __init__(self, wd):
        self.wd = wd
        self.executions = 0

    def write_src(self, tag, state):
        d = os.path.join(self.wd, "src", tag)
        os.makedirs(d, exist_ok=True)
        for p, t in render_state(state).items():
            with open(os.path.join(d, p), "w") as fh:
                fh.write(t)
        return d

    def clean_slots(self):
        base = os.path.join(self.wd, "out")
        if os.path.isdir(base):
            subprocess.run(["rm", "-rf", base])

    @staticmethod
    def _collect(out, keep_bytes):
        """files written by the last run into `out` (fresh mtime); afterwards everything in `out` is marked stale"""
        tree = {}
        for root, _, files in os.walk(out):
            for f in files:
                fp = os.path.join(root, f)
                if os.stat(fp).st_mtime_ns != 0:
                    with open(fp, "rb") as fh:
                        tree[os.path.relpath(fp, out)] = fh.read()
                    os.utime(fp, ns=(0, 0))
        hashes = {k: sha(v) for k, v in tree.items()}
        return hashes, (tree if keep_bytes else None)

    @staticmethod
    def _mark_stale(out):
        for root, _, files in os.walk(out):
            for f in files:
                os.utime(os.path.join(root, f), ns=(0, 0))

    def batch(self, tasks, runs):
        """tasks: [(seed, src_dir, backend)]; every task is run `runs` times, each in a fresh process.
        -> per task a list of (rc, {relpath: sha} | None, stderr tail)"""
        def job(t):
            seed, src, backend = tasks[t]
            res = []
            for r in range(runs):
                out = os.path.join(self.wd, "out", "%d_%d" % (t, r))
                p = run_tool(backend, os.path.join(src, "lib.rs"), out, config_file=seed.config_file, configs=seed.configs(backend),
                             cwd=self.wd)
                res.append((p.returncode, p.stderr))
            return res

        raw = pmap(job, range(len(tasks)))
        ok_dirs = []
        for t, res in enumerate(raw):
            for r, (rc, err) in enumerate(res):
                self.executions += 1
                out = os.path.join(self.wd, "out", "%d_%d" % (t, r))
                if rc != 0:
                    self._mark_stale(out)
                else:
                    ok_dirs.append(out)
        # reading + hashing happens here, in the calling thread (see class comment)
        hashed = {out: self._collect(out, False)[0] for out in ok_dirs}
        results = []
        for t, res in enumerate(raw):
            per = []
            for r, (rc, err) in enumerate(res):
                out = os.path.join(self.wd, "out", "%d_%d" % (t, r))
                per.append((rc, None, err[-1500:]) if rc != 0 else (0, hashed[out], err[-500:]))
            results.append(per)
        return results

    def once(self, seed, src, backend, keep=False, pristine=True):
        """one fresh process into a brand-new directory (re-checks, called from the main thread only)
        -> (rc, {relpath: sha} or None, stderr, tree bytes if keep)"""
        out = os.path.join(self.wd, "chk-out")
        shutil.rmtree(out, ignore_errors=True)
        p = run_tool(backend, os.path.join(src, "lib.rs"), out, config_file=seed.config_file, configs=seed.configs(backend),
                     cwd=self.wd)
        self.executions += 1
        if p.returncode != 0:
            return p.returncode, None, p.stderr[-1500:], None
        hashes, tree = self._collect(out, keep)
        return 0, hashes, p.stderr[-500:], tree


def tree_digest(h):
    return sha(json.dumps(sorted(h.items()))) if h is not None else "FAILED"


def is_aggregate(backend, rel):
    return any(re.search(p, rel) for p in AGGREGATES[backend])


def short_diff(a, b, la, lb, limit=40):
    if a is None or b is None:
        return ["(file only on one side)"]
    al = a.decode("utf8", "replace").splitlines()
    bl = b.decode("utf8", "replace").splitlines()
    d = list(difflib.unified_diff(al, bl, la, lb, lineterm="", n=2))
    return d[:limit] + (["... (%d more diff lines)" % (len(d) - limit)] if len(d) > limit else [])


class Explorer:
    def __init__(self, rep, tier, wd):
        self.rep = rep
        self.tier = tier
        self.runner = Runner(wd)
        st = os.stat(build_tool())
        self.tool_sig = (st.st_mtime_ns, st.st_size)
        self.nodes = {}           # key -> Node
        self.edges = 0            # edit applications
        self.edge_checks = 0      # edit applications x backends compared
        self.rerun_checks = 0
        self.by_kind = {}
        self.digests = set()
        self.samples = []
        self.nontrivial = 0       # edges where some file legitimately changed (locality edits)
        self.reported = {}        # (editkind, backend) -> number of files reported
        self.rerun_reported = set()
        self.suppressed = 0       # edge differences not reported separately because the backend was already shown to be unstable
        self.rerun_count = {}     # backend -> states whose re-run difference was re-checked and reported (capped)
        self.truncated = []
        self.not_accepted = []
        self.agg_seen = {}        # backend -> aggregate files that were actually seen to change after an insert / delete
        self.deadline = None

    # ---- running states
    def execute(self, nodes):
        jobs = [(n, b) for n in nodes for b in BACKENDS]
        # sources are written before any worker starts: workers only read them
        src = {n.key: self.runner.write_src("c%d" % k, n.state) for k, n in enumerate(nodes)}
        results = self.runner.batch([(n.seed, src[n.key], b) for n, b in jobs], RUNS_PER_STATE)
        for (n, b), runs in zip(jobs, results):
            n.rerun[b] = [tree_digest(h) if rc == 0 else "FAILED(%s)" % rc for rc, h, _ in runs]
            if len(set(n.rerun[b])) > 1:
                n.rerun_detail[b] = [h for _, h, _ in runs]
            rc, hashes, err = runs[0]
            if rc == 0:
                n.out[b] = hashes
            else:
                n.out[b] = None
                n.fail[b] = (rc, err)
            for d in n.rerun[b]:
                self.digests.add((b, d))
        for n in nodes:
            for b in BACKENDS:
                self.rerun_checks += RUNS_PER_STATE - 1
                if len(set(n.rerun[b])) > 1 and self.rerun_count.get(b, 0) < 3:
                    self.rerun_count[b] = self.rerun_count.get(b, 0) + 1
                    self.rerun_reported.add((b, n.key))
                    self.report_rerun(n, b)

    # ---- violations
    def _cmd(self, seed, backend):
        cfg = " ".join("--config %s" % c for c in seed.configs(backend))
        return "diplomat-tool %s <out> --entry <src>/lib.rs -s --config-file %s %s" % (
            backend, seed.config_file or "<nonexistent>", cfg)

    def assert_tool_unchanged(self):
        """the tool binary is shared with other checks and rebuilt from the working tree: if it was replaced while this exploration
        was running, observations made before and after are not comparable"""
        st = os.stat(build_tool())
        if (st.st_mtime_ns, st.st_size) != self.tool_sig:
            raise MachineryError("diplomat-tool binary was rebuilt while C14 was running (working tree edited concurrently); re-run")

    def report_rerun(self, n, b):
        self.assert_tool_unchanged()
        # repeated trial: N more fresh processes, count the distinct trees
        trees = {}
        first = {}
        src = self.runner.write_src("chk-r", n.state)
        for r in range(RECHECK_RUNS):
            rc, hashes, err, tree = self.runner.once(n.seed, src, b, keep=True)
            d = tree_digest(hashes) if rc == 0 else "FAILED(%s)" % rc
            trees[d] = trees.get(d, 0) + 1
            first.setdefault(d, (hashes, tree, err))
        files, diff = [], []
        orig = [h for h in n.rerun_detail.get(b, []) if h is not None]
        orig_files = sorted({f for h in orig for g in orig for f in set(h) | set(g) if h.get(f) != g.get(f)})
        ds = sorted(trees)
        if len(ds) > 1 and first[ds[0]][0] is not None and first[ds[1]][0] is not None:
            h0, t0, _ = first[ds[0]]
            h1, t1, _ = first[ds[1]]
            files = sorted(f for f in set(h0) | set(h1) if h0.get(f) != h1.get(f))
            if files:
                diff = short_diff(t0.get(files[0]), t1.get(files[0]), "run A/" + files[0], "run B/" + files[0])
        witness = {"type": "rerun", "seed": n.seed.name, "history": n.history, "backend": b, "command": self._cmd(n.seed, b),
                   "first_runs": n.rerun[b], "first_runs_differing_files": orig_files[:20], "recheck_runs": RECHECK_RUNS, "recheck_distinct_trees": trees,
                   "differing_files": files[:20], "diff": diff, "source": render_state(n.state),
                   "config_file": n.seed.config_file, "configs": n.seed.configs(b)}
        what = "%s on seed %s after %s: %d fresh runs of the same input gave %d distinct output trees (first runs: %s)" % (
            b, n.seed.name, n.history or "no edit", RECHECK_RUNS, len(trees), n.rerun[b])
        for f in (files[:3] or orig_files[:3] or ["<tree>"]):
            self.rep.violation("C14|rerun|backend=%s|file=%s" % (b, f), witness, what)

    def check_edge(self, parent, child, edit):
        self.edges += 1
        self.by_kind[edit.kind] = self.by_kind.get(edit.kind, 0) + 1
        changed_any = False
        for b in BACKENDS:
            self.edge_checks += 1
            hp, hc = parent.out[b], child.out[b]
            if hp is None or hc is None:
                if hp is None and hc is None:
                    continue
                if edit.kind in LOCAL or hp is None:
                    # the bridge itself changed (or the parent was already outside the domain): a module the backend does not
                    # accept is outside "all accepted modules"; recorded, reported separately (C15 territory), not a C14 verdict
                    side = child if hc is None else parent
                    self.not_accepted.append({"seed": child.seed.name, "history": child.history, "backend": b,
                                              "rc": side.fail[b][0], "stderr": side.fail[b][1].strip()[-300:]})
                    continue
                self.report_edge(parent, child, edit, b, ["<tool exit status>"], "tool-status")
                continue
            differing = sorted(f for f in set(hp) | set(hc) if hp.get(f) != hc.get(f))
            if differing:
                changed_any = True
            if edit.kind in LOCAL:
                bad = []
                for f in differing:
                    if is_aggregate(b, f):
                        self.agg_seen.setdefault(b, set()).add(os.path.basename(f) if b == "kotlin" else f)
                        continue
                    only_one_side = (f in hp) != (f in hc)
                    if only_one_side and (edit.subject in os.path.basename(f) or edit.renamed):
                        continue     # X's own file appears / disappears (under a rename attribute its name is unknown)
                    bad.append(f)
                differing = bad
            if differing:
                self.report_edge(parent, child, edit, b, differing, "files")
        if changed_any:
            self.nontrivial += 1

    def report_edge(self, parent, child, edit, b, files, why):
        self.assert_tool_unchanged()
        cnt = self.reported.get((edit.kind, b), 0)
        if cnt >= 4:
            return
        if (self.rerun_count.get(b, 0) >= 3 or len(set(parent.rerun[b])) > 1 or len(set(child.rerun[b])) > 1
                or (b, parent.key) in self.rerun_reported or (b, child.key) in self.rerun_reported):
            # this backend's output is not even stable from run to run (already reported under C14|rerun): differences between two
            # states cannot be attributed to the edit
            self.suppressed += 1
            return
        # re-check in fresh processes (both sides, several times each), keeping the bytes for the diff; if one side alone is not
        # stable the difference is run-to-run nondeterminism and is reported as such
        sa, sb = self.runner.write_src("chk-a", parent.state), self.runner.write_src("chk-b", child.state)
        rcp, hp, errp, tp = self.runner.once(parent.seed, sa, b, keep=True, pristine=True)
        rcc, hc, errc, tc = self.runner.once(child.seed, sb, b, keep=True, pristine=True)
        for node, src, ref in ((parent, sa, (rcp, hp)), (child, sb, (rcc, hc))):
            for _ in range(4):
                rc2, h2, _, _ = self.runner.once(node.seed, src, b)
                if (rc2, h2) != ref:
                    if (b, node.key) not in self.rerun_reported:
                        self.rerun_reported.add((b, node.key))
                        self.report_rerun(node, b)
                    return
        rp, rc_ = render_state(parent.state), render_state(child.state)
        src_diff = []
        for p in sorted(set(rp) | set(rc_)):
            if rp.get(p) != rc_.get(p):
                src_diff += list(difflib.unified_diff((rp.get(p) or "").splitlines(), (rc_.get(p) or "").splitlines(),
                                                      "before/" + p, "after/" + p, lineterm="", n=1))[:80]
        witness = {"type": "edge", "seed": child.seed.name, "history": child.history, "edit": edit.desc, "edit_kind": edit.kind,
                   "subject": edit.subject, "backend": b, "command": self._cmd(child.seed, b),
                   "source_before": rp, "source_after": rc_, "source_diff": src_diff,
                   "config_file": child.seed.config_file, "configs": child.seed.configs(b)}
        if why == "tool-status" or rcp != 0 or rcc != 0:
            witness.update({"rc_before": rcp, "rc_after": rcc, "stderr_before": errp, "stderr_after": errc})
            if (rcp == 0) == (rcc == 0) and rcp == 0:
                return self.report_rerun(child, b)   # the status difference did not reproduce: nondeterminism
            self.reported[(edit.kind, b)] = cnt + 1
            self.rep.violation("C14|%s|backend=%s|tool-status" % (edit.kind, b), witness,
                               "%s: after %s the tool exits %s (before: %s): %s" % (b, edit.desc, rcc, rcp, (errc or errp or "").strip()[-300:]))
            return
        still = [f for f in files if hp.get(f) != hc.get(f)]
        if not still:
            # did not reproduce => the earlier difference came from run-to-run nondeterminism
            self.report_rerun(child, b)
            return
        witness["differing_files"] = still[:30]
        witness["diff"] = short_diff(tp.get(still[0]), tc.get(still[0]), "before/" + still[0], "after/" + still[0])
        what = "%s: %s (seed %s, history %s) changed %d file(s) that must not change: %s" % (
            b, edit.desc, child.seed.name, parent.history, len(still), ", ".join(still[:6]))
        for f in still[:max(0, 4 - cnt)]:
            self.reported[(edit.kind, b)] = self.reported.get((edit.kind, b), 0) + 1
            self.rep.violation("C14|%s|backend=%s|file=%s" % (edit.kind, b, f), witness, what)

    # ---- BFS
    def explore(self, seed, opts_by_depth):
        """BFS from seed; opts_by_depth[d-1] = edit alphabet used for the d-th edit of a history."""
        root_key = state_key(seed.state)
        root = Node(root_key, seed.state, seed, [], 0)
        self.nodes[(seed.name, root_key)] = root
        self.execute([root])
        bad = [(b, root.fail[b]) for b in BACKENDS if root.out[b] is None]
        if bad:
            raise MachineryError("seed %s is not accepted by every backend: %s" % (seed.name, bad))
        # machinery guard: a run into a brand-new directory must give what the re-used slot directories gave
        src = self.runner.write_src("chk-a", root.state)
        for b in BACKENDS:
            rc, hashes, err, _ = self.runner.once(seed, src, b, pristine=True)
            if hashes != root.out[b] and len(set(root.rerun[b])) == 1:
                again = [self.runner.once(seed, src, b)[1] for _ in range(3)]
                slot = [h for _, h, _ in self.runner.batch([(seed, src, b)], 3)[0]]
                if all(h == hashes for h in again) and all(h == root.out[b] for h in slot):
                    raise MachineryError("slot re-use changes what is observed for seed %s backend %s" % (seed.name, b))
                self.rerun_reported.add((b, root.key))
                self.report_rerun(root, b)      # the tool itself is not stable
        frontier = [root]
        for d, opts in enumerate(opts_by_depth, 1):
            pending = []    # (parent, edit, child node)
            new_nodes = []
            for parent in frontier:
                for edit, cst in successors(parent.state, opts):
                    k = state_key(cst)
                    node = self.nodes.get((seed.name, k))
                    if node is None:
                        node = Node(k, cst, seed, parent.history + [edit.desc], d)
                        self.nodes[(seed.name, k)] = node
                        new_nodes.append(node)
                    pending.append((parent, edit, node))
            # execute in chunks so that scratch space stays small; stop at the wall cap (prefix of BFS order completed)
            executed = 0
            for i in range(0, len(new_nodes), 48):
                if self.deadline and time.time() > self.deadline:
                    break
                self.execute(new_nodes[i:i + 48])
                executed = min(len(new_nodes), i + 48)
            if executed < len(new_nodes):
                self.truncated.append({"seed": seed.name, "depth": d, "states_executed_at_this_depth": executed,
                                       "states_enumerated_at_this_depth": len(new_nodes)})
                for n in new_nodes[executed:]:
                    del self.nodes[(seed.name, n.key)]
                new_nodes = new_nodes[:executed]
            for parent, edit, node in pending:
                if not node.out:
                    continue    # cut off by the wall cap
                self.check_edge(parent, node, edit)
                if len(self.samples) < 40 and (self.edges % 41 == 1 or len(self.samples) < 3):
                    self.samples.append({"seed": seed.name, "history": parent.history + [edit.desc],
                                         "files_changed_vs_parent": {b: (None if parent.out[b] is None or node.out[b] is None else sum(
                                             1 for f in set(parent.out[b]) | set(node.out[b]) if parent.out[b].get(f) != node.out[b].get(f)))
                                             for b in BACKENDS}})
            frontier = new_nodes
            if not frontier or self.truncated:
                break

    def count_seed(self, seed):
        return sum(1 for (s, _) in self.nodes if s == seed.name)


# ------------------------------------------------------------------------------------------------------------------


def make_seeds(wd, tier):
    seeds = []
    for name, text in HAND_SEEDS:
        seeds.append(Seed(name, State((parse_file("lib.rs", text),))))
    ft_src = os.path.join(REPO, "feature_tests", "src")
    cfg = os.path.join(wd, "feature_tests_config.toml")
    shutil.copy(os.path.join(REPO, "feature_tests", "config.toml"), cfg)
    ft = load_crate(ft_src)
    seeds.append(Seed("feature_tests", ft, config_file=cfg, use_default_configs=False))
    return seeds


# edit alphabets.  FULL is used for the first edit of every history; deeper levels use narrower alphabets so that the number of
# real tool runs (21 per state; ~250 process starts per second on this box) fits the tier's wall budget.
FULL = {}
REDUCED = {"insert_combos": (("opaque", "first"), ("struct", "middle"), ("enum", "last")),
           "nonbridge_kinds": ("same-name-struct", "plain-mod", "outer-impl", "foreign-bridge-mod")}
PERMDEL = {"insert_combos": (), "nonbridge_kinds": (), "no_shadow": True}          # permutations and deletions only
FT_QUICK = {"perm_files": ("attrs.rs",), "insert_files": ("attrs.rs", "result.rs"),
            "insert_combos": (("opaque", "first"), ("struct", "last"), ("enum", "middle")),
            "nonbridge_files": ("lib.rs",), "nonbridge_kinds": ("same-name-struct", "plain-mod", "outer-impl", "fn", "foreign-bridge-mod", "bare-bridge-mod")}
FT_FULL = {"nonbridge_files": ("lib.rs", "structs.rs", "attrs.rs")}

PLAN = {
    "quick": [("tiny", [FULL, PERMDEL]), ("attrimpl", [FULL]), ("namespaces", [PERMDEL]), ("traits", [FULL]), ("basic", [FULL]), ("two_modules", [FULL]), ("cyclic", [FULL]),
              ("interleaved", [FULL]), ("results", [FULL]), ("strings", [FULL]), ("feature_tests", [FT_QUICK])],
    # cheapest / broadest first: if the wall cap cuts the run short, the largest hand seed and the depth-3 seed are what is missing
    "thorough": [("feature_tests", [FT_FULL]), ("basic", [FULL, REDUCED]), ("two_modules", [FULL, REDUCED]),
                 ("cyclic", [FULL, REDUCED]), ("results", [FULL, REDUCED]), ("strings", [FULL, REDUCED]),
                 ("attrimpl", [FULL, REDUCED]), ("namespaces", [FULL]), ("traits", [FULL, REDUCED]), ("tiny", [FULL, REDUCED, PERMDEL]), ("interleaved", [FULL, REDUCED])],
}
WALL_CAP = {"quick": 85, "thorough": 540}


# ---------------------------------------------------------------------------------------------
# two fixed-shape units next to the edit graph

NESTED_INNER = """    #[diplomat::bridge]
    pub mod ffi {
        #[diplomat::opaque]
        pub struct C14Engine(pub u8);
        pub struct C14Pair { pub a: u8, pub b: u32 }
        pub enum C14Kind { A, B }
        impl C14Engine {
            pub fn new_engine(v: u8) -> Box<C14Engine> { Box::new(C14Engine(v)) }
            pub fn pair(&self, k: C14Kind) -> C14Pair { let _ = k; C14Pair { a: 0, b: 0 } }
        }
    }
"""
# attributes on the ordinary (non-bridge) module that encloses the bridge module: code outside the bridge has no influence
NESTED_OUTER_ATTRS = {
    "rename": '#[diplomat::attr(*, rename = "Vendor{0}")]',
    "namespace": '#[diplomat::attr(*, namespace = "vendor")]',
    "disable": "#[diplomat::attr(*, disable)]",
    "abi_rename": '#[diplomat::abi_rename = "vendor_{0}"]',
    "opaque+out": "#[diplomat::opaque]\n#[diplomat::out]",
    "cfg-attr-mix": '#[diplomat::attr(not(kotlin), rename = "V{0}")]\n#[diplomat::attr(any(cpp, js, dart), disable)]',
}


def nested_bridge_unit(rep, wd):
    def prog(attr):
        return "%spub mod api {\n%s}\n" % ((attr + "\n") if attr else "", NESTED_INNER)

    def one(job):
        b, tag, attr = job
        d = os.path.join(wd, "nested-%s-%s" % (b, re.sub(r"\W", "_", tag)))
        os.makedirs(d, exist_ok=True)
        src = os.path.join(d, "lib.rs")
        with open(src, "w") as fh:
            fh.write(prog(attr))
        p = run_tool(b, src, os.path.join(d, "out"), configs=list(default_configs(b)), timeout=300)
        tree = read_tree(os.path.join(d, "out")) if p.returncode == 0 else None
        shutil.rmtree(d, ignore_errors=True)
        return b, tag, p.returncode, p.stderr[-600:], tree
    jobs = [(b, tag, attr) for b in BACKENDS for tag, attr in [("base", None)] + sorted(NESTED_OUTER_ATTRS.items())]
    res = {(b, tag): (rc, err, tree) for b, tag, rc, err, tree in pmap(one, jobs)}
    # an ordinary module INSIDE the bridge module is no bridge either: its items are private helper code
    inner_mod = ("        pub mod c14_detail {\n            pub struct C14Scratch { pub a: u8 }\n            pub enum C14Mode { X, Y }\n"
                 "            impl C14Scratch { pub fn helper(&self) -> u8 { self.a } }\n        }\n")

    def one_inner(b):
        d = os.path.join(wd, "nested-inner-%s" % b)
        os.makedirs(d, exist_ok=True)
        src = os.path.join(d, "lib.rs")
        text = "pub mod api {\n%s}\n" % NESTED_INNER.replace("        impl C14Engine {", inner_mod + "        impl C14Engine {", 1)
        with open(src, "w") as fh:
            fh.write(text)
        p = run_tool(b, src, os.path.join(d, "out"), configs=list(default_configs(b)), timeout=300)
        tree = read_tree(os.path.join(d, "out")) if p.returncode == 0 else None
        shutil.rmtree(d, ignore_errors=True)
        return b, p.returncode, p.stderr[-600:], tree, text
    inner = {b: (rc, err, tree, text) for b, rc, err, tree, text in pmap(one_inner, list(BACKENDS))}
    n = 0
    for b in BACKENDS:
        rc0, err0, t0 = res[(b, "base")]
        if rc0 != 0 or not t0:
            raise MachineryError("backend %s does not accept the nested-bridge base program: %s" % (b, err0))
        if not any("C14Engine" in k for k in t0):
            raise MachineryError("vacuity guard: %s generated nothing for the bridge module nested in an ordinary module" % b)
        for tag in sorted(NESTED_OUTER_ATTRS):
            rc, err, t = res[(b, tag)]
            n += 1
            if rc != rc0 or t != t0:
                diff = sorted(k for k in set(t or {}) | set(t0) if (t or {}).get(k) != t0.get(k))
                rep.violation("C14|nonbridge-parent-module-attribute|%s|%s" % (tag, b),
                              {"backend": b, "outer_attribute": NESTED_OUTER_ATTRS[tag], "program": prog(NESTED_OUTER_ATTRS[tag]), "exit": rc, "stderr": err,
                               "differing_files": diff[:20]},
                              "attribute `%s` on the ordinary module enclosing a bridge module changes the %s output (exit %s; files %s)" % (
                                  NESTED_OUTER_ATTRS[tag].replace("\n", " "), b, rc, diff[:6]))
    for b in BACKENDS:
        rc0, err0, t0 = res[(b, "base")]
        rc, err, t, text = inner[b]
        n += 1
        if rc != rc0 or t != t0:
            diff = sorted(k for k in set(t or {}) | set(t0) if (t or {}).get(k) != t0.get(k))
            rep.violation("C14|nonbridge-module-inside-bridge|%s" % b, {"backend": b, "program": text, "exit": rc, "stderr": err, "differing_files": diff[:20]},
                          "an ordinary module nested inside a bridge module changes the %s output (exit %s; files %s)" % (b, rc, diff[:6]))
    return n


CFG_BRIDGE = """#[diplomat::bridge]
mod ffi {
    #[diplomat::opaque]
    pub struct Op(u8);
    pub struct Holder { pub a: u8 }
    impl Holder {
        pub fn run(f: impl Fn(&Op) -> u8) -> u8 { let _ = f; 0 }
    }
}
"""
CFG_RUNS = {"quick": 8, "thorough": 24}


def scoped_config_unit(rep, wd, tier):
    """a config file giving the same shared keys a different value under every language's table: whichever table applies, the outcome
    must be the same in every fresh process (the tool keeps the overrides in a hash map)"""
    langs = ["c", "cpp", "js", "dart", "kotlin", "nanobind", "demo_gen"]

    def cfg(target, on):
        out = []
        for l in langs:
            v = on if l == target else (not on)
            out.append('[%s]\nunsafe-references-in-callbacks = %s\nlib-name = "lib%s%d"\n' % (l.replace("_", "-") if l == "demo_gen" else l, "true" if v else "false", l.replace("_", ""), int(v)))
        out.append('[kotlin]\ndomain = "dev.verif"\n' if False else "")
        return "\n".join(out)

    def one(job):
        b, on, k = job
        d = os.path.join(wd, "cfg-%s-%d-%d" % (b, int(on), k))
        os.makedirs(d, exist_ok=True)
        src, cf = os.path.join(d, "lib.rs"), os.path.join(d, "config.toml")
        open(src, "w").write(CFG_BRIDGE)
        open(cf, "w").write(cfg(b, on))
        p = run_tool(b, src, os.path.join(d, "out"), config_file=cf, configs=["kotlin.domain=dev.verif"] if b == "kotlin" else [], timeout=300)
        tree = read_tree(os.path.join(d, "out")) if os.path.isdir(os.path.join(d, "out")) else {}
        shutil.rmtree(d, ignore_errors=True)
        err = re.sub(r"thread 'main' \(\d+\)", "thread 'main'", p.stderr)
        return b, on, (p.returncode, err[-800:], sha(json.dumps(sorted((k2, sha(v)) for k2, v in tree.items()))))
    jobs = [(b, on, k) for b in langs for on in (True, False) for k in range(CFG_RUNS[tier])]
    by = {}
    for b, on, o in pmap(one, jobs):
        by.setdefault((b, on), []).append(o)
    acc = {(b, on): sum(1 for rc, e, _ in obs if "Callbacks cannot take references" not in e) for (b, on), obs in by.items()}
    if not any(acc[(b, True)] for b in langs) or all(acc[(b, False)] == len(by[(b, False)]) for b in langs):
        raise MachineryError("vacuity guard: the per-language unsafe-references-in-callbacks tables make no difference to any backend")
    for (b, on), obs in sorted(by.items()):
        if len(set(obs)) != 1:
            kinds = sorted(set((rc, e.strip().splitlines()[-1][:100] if e.strip() else "") for rc, e, _ in obs))
            rep.violation("C14|config-overrides-nondeterministic|%s" % b,
                          {"backend": b, "config_toml": cfg(b, on), "bridge": CFG_BRIDGE, "distinct_outcomes": [list(k) for k in kinds], "runs": len(obs)},
                          "%d fresh runs of %s on one input with per-language tables in config.toml give %d different outcomes: %s" % (len(obs), b, len(set(obs)), kinds))
    return len(jobs)


LOC_BASE = """#[diplomat::bridge]
pub mod ffi {
    pub struct LcPoint { pub x: i32, pub y: i32 }
    pub enum LcColor { Red, Green }
    #[diplomat::opaque]
    pub struct LcEngine(pub u8);
    #[diplomat::out]
    pub struct LcAsum { pub n: u32, pub c: LcColor }
    impl LcEngine {
        pub fn make(v: u8) -> Box<LcEngine> { Box::new(LcEngine(v)) }
        pub fn at(&self, p: LcPoint) -> LcColor { let _ = p; LcColor::Red }
        pub fn sum(&self) -> LcAsum { LcAsum { n: 0, c: LcColor::Red } }
    }
    impl LcAsum {
        #[diplomat::attr(supports = named_constructors, named_constructor)]
        pub fn empty() -> LcAsum { LcAsum { n: 0, c: LcColor::Green } }
    }
%s}
"""
# unreferenced additions that themselves USE the existing types (in Option, Result, callbacks, fields), and plain ones that change how
# many types of each kind sort before the existing ones
LOC_ADDITIONS = {
    "opaque-using-options": """    #[diplomat::opaque]
    pub struct %(n)s(pub u8);
    impl %(n)s {
        pub fn pick(&self, c: Option<LcColor>) -> Option<LcPoint> { let _ = c; None }
        pub fn try_it(&self, p: Option<LcPoint>) -> Result<LcPoint, LcColor> { let _ = p; Err(LcColor::Red) }
        pub fn opt_eng(&self, e: Option<&LcEngine>) -> Option<Box<LcEngine>> { let _ = e; None }
    }
""",
    "struct-with-option-fields": """    pub struct %(n)s { pub c: DiplomatOption<LcColor>, pub p: DiplomatOption<LcPoint>, pub k: u8 }
""",
    "out-struct-holding-them": """    #[diplomat::out]
    pub struct %(n)s { pub p: LcPoint, pub c: LcColor, pub e: Box<LcEngine>, pub s: LcAsum }
""",
    "plain-struct": """    pub struct %(n)s { pub a: u8 }
""",
    "two-plain-structs": """    pub struct %(n)s { pub a: u8 }
    pub struct %(n)sB { pub b: u16 }
""",
    "plain-out-struct": """    #[diplomat::out]
    pub struct %(n)s { pub a: u8 }
""",
    "enum": """    pub enum %(n)s { One, Two }
""",
    "opaque-with-slices": """    #[diplomat::opaque]
    pub struct %(n)s(pub u8);
    impl %(n)s {
        pub fn bytes(&self, v: &[u8], w: &[u16], s: &str) -> u8 { let _ = (v, w, s); 0 }
    }
""",
}


def locality_unit(rep, wd):
    """adding an unreferenced type - one that may itself use the existing types - leaves every other type's file unchanged"""
    def one(job):
        b, tag, text = job
        d = os.path.join(wd, "loc-%s-%s" % (b, re.sub(r"\W", "_", tag)))
        os.makedirs(d, exist_ok=True)
        src = os.path.join(d, "lib.rs")
        with open(src, "w") as fh:
            fh.write(text)
        p = run_tool(b, src, os.path.join(d, "out"), configs=list(default_configs(b)), timeout=300)
        tree = read_tree(os.path.join(d, "out")) if p.returncode == 0 else None
        shutil.rmtree(d, ignore_errors=True)
        return b, tag, p.returncode, p.stderr[-600:], tree
    jobs = []
    for b in BACKENDS:
        jobs.append((b, "base", LOC_BASE % ""))
        for tag, add in sorted(LOC_ADDITIONS.items()):
            for pos, name in (("first", "AaaaLcNew"), ("last", "ZzzzLcNew")):
                jobs.append((b, "%s@%s" % (tag, pos), LOC_BASE % (add % {"n": name})))
    res = {(b, tag): (rc, err, tree) for b, tag, rc, err, tree in pmap(one, jobs)}
    n = 0
    for b in BACKENDS:
        rc0, err0, t0 = res[(b, "base")]
        if rc0 != 0 or not t0:
            raise MachineryError("backend %s does not accept the locality base program: %s" % (b, err0))
        agg = [re.compile(x) for x in AGGREGATES[b]]
        for (bb, tag), (rc, err, t) in sorted(res.items()):
            if bb != b or tag == "base":
                continue
            n += 1
            if rc != 0:
                # (an addition one backend cannot express is outside "all accepted modules" only if the addition ITSELF is refused)
                if "LcNew" in err:
                    continue
                rep.violation("C14|locality|unrelated-addition-rejected|%s|%s" % (tag.split("@")[0], b), {"backend": b, "addition": tag, "stderr": err, "program": LOC_BASE % (LOC_ADDITIONS[tag.split("@")[0]] % {"n": "AaaaLcNew" if tag.endswith("first") else "ZzzzLcNew"})},
                              "adding the unreferenced %s makes %s refuse the module over a type that was accepted before: %s" % (tag, b, err.strip().splitlines()[-1][:200] if err.strip() else rc))
                continue
            diff = sorted(k for k in t0 if not any(a.search(k) for a in agg) and t.get(k) != t0[k])
            if diff:
                rep.violation("C14|locality|unrelated-addition-changes-files|%s|%s" % (tag.split("@")[0], b), {"backend": b, "addition": tag, "changed_files": diff[:20]},
                              "adding the unreferenced %s changes the %s files of other types: %s" % (tag, b, diff[:6]))
    return n


def run(tier):
    rep = Reporter("C14", tier, "model_checking")
    build_tool()
    wd = workdir("C14")
    ex = Explorer(rep, tier, wd)
    ex.deadline = time.time() + WALL_CAP[tier]
    seeds = {s.name: s for s in make_seeds(wd, tier)}
    per_seed = {}
    for name, opts_by_depth in PLAN[tier]:
        seed = seeds[name]
        t0 = time.time()
        before = (len(ex.nodes), ex.edges)
        if ex.truncated:
            ex.truncated.append({"seed": name, "depth": 0, "states_executed_at_this_depth": 0})
            continue
        try:
            ex.explore(seed, opts_by_depth)
        except MachineryError as e:
            if not rep.violations:
                raise
            # confirmed violations stay a verdict; the part that could not be explored is written down
            per_seed[name] = {"not_explored": str(e)[:600]}
            ex.truncated.append({"seed": name, "depth": 0, "reason": "machinery error after violations were already confirmed"})
            ex.runner.clean_slots()
            break
        ex.runner.clean_slots()
        per_seed[name] = {"depth": len(opts_by_depth), "alphabet_by_depth": [o or "FULL" for o in opts_by_depth],
                          "states": len(ex.nodes) - before[0], "edit_applications": ex.edges - before[1],
                          "wall_s": round(time.time() - t0, 1)}
    nested_n = nested_bridge_unit(rep, wd)
    loc_n = locality_unit(rep, wd)
    cfg_n = scoped_config_unit(rep, wd, tier)
    shutil.rmtree(wd, ignore_errors=True)
    ex.assert_tool_unchanged()
    n_states = len(ex.nodes)
    cov = {
        "states": n_states,
        "transitions": ex.edge_checks + ex.rerun_checks,
        "traces_validated_against_impl": ex.runner.executions,
        "evaluations": ex.edge_checks + ex.rerun_checks,
        "distinct_nontrivial": ex.nontrivial,
        "rule": "state = exact ordered source text of the crate (lib.rs + module files); two orderings of the same items are two states. "
                "transitions = (edit applications x 7 backends compared with the parent state) + (re-runs of an unchanged state in a fresh "
                "process: 2 per state and backend). distinct_nontrivial = edit applications after which at least one generated file differs "
                "from the parent (insert / delete edits)",
        "exhaustive": not ex.truncated,
        "distinct_outcomes": len(ex.digests),
        "bound": {"per_seed": per_seed, "edit_applications": ex.edges, "edit_applications_by_kind": ex.by_kind,
                  "edge_x_backend_comparisons": ex.edge_checks, "rerun_comparisons": ex.rerun_checks,
                  "fresh_processes_per_state_and_backend": RUNS_PER_STATE, "backends": BACKENDS,
                  "insert_alphabet": {"kinds": INSERT_KINDS, "name_positions": INSERT_POS}, "nonbridge_alphabet": NONBRIDGE_KINDS,
                  "aggregate_files_seen_changing": {b: sorted(v) for b, v in sorted(ex.agg_seen.items())},
                  "edge_differences_attributed_to_rerun_instability": ex.suppressed,
                  "nested_bridge_unit": {"comparisons": nested_n, "outer_attributes": sorted(NESTED_OUTER_ATTRS)},
                  "locality_unit": {"comparisons": loc_n, "additions": sorted(LOC_ADDITIONS), "name_positions": ["first", "last"]},
                  "scoped_config_unit": {"fresh_runs": cfg_n, "runs_per_backend_and_config": CFG_RUNS[tier]},
                  "wall_cap_s": WALL_CAP[tier], "cut_short_by_wall_cap": ex.truncated,
                  "states_not_accepted_by_a_backend_after_insert_or_delete": ex.not_accepted[:20]},
        "samples": ex.samples[:8],
    }
    return rep.finish(cov, [
        "hash-seed independence is a repeated trial, not an enumeration: every state is generated in %d fresh processes per backend "
        "(std RandomState is re-seeded per process); a HashMap-order leak that needs a rarer coincidence than that can be missed" % RUNS_PER_STATE,
        "aggregate (index) files excluded from the locality comparison after insert/delete of a type, determined by experiment: %s; "
        "every other file present before and after must be byte-identical; a file that appears / disappears must carry the inserted / "
        "deleted type's name (skipped only when a rename attribute on the type or its module makes the file name unknowable)" % json.dumps(AGGREGATES),
        "an insert / delete after which a backend no longer accepts the crate (tool exit != 0) leaves the domain 'all accepted modules'; "
        "such states are listed under bound.states_not_accepted_by_a_backend_after_insert_or_delete and give no C14 verdict; a change of "
        "exit status after a permutation or a non-bridge edit IS reported",
        "every edge is compared with its parent state (not with a canonical ordering); since every state is reached from the seed by "
        "such edges, all orderings explored are transitively equal",
        "two inherent impl blocks of the SAME type are never swapped with each other: that changes the order of methods, which the "
        "statement (order of bridge modules and of type declarations) does not promise to be irrelevant",
        "'unreferenced' for delete-type is decided textually (the name occurs nowhere outside the type's declaration and inherent impls)",
        "feature_tests is generated with the repository's feature_tests/config.toml (copied), hand-written seeds with default_configs()",
        "edits never add #[diplomat::config] attributes; inserted non-bridge items are plain Rust",
    ])


def replay(path):
    doc = json.load(open(path))
    w = doc["witness"]
    build_tool()
    wd = workdir("C14-replay")
    if doc["key"].startswith(("C14|nonbridge-module-inside-bridge|", "C14|nonbridge-parent-module-attribute|", "C14|config-overrides-nondeterministic|", "C14|locality|")):
        # fixed-shape units: run them again as a whole, the same key must come back
        class _R:
            keys = []

            def violation(self, key, witness, what):
                self.keys.append(key)
                print("VIOLATION %s: %s" % (key, what))
        r = _R()
        nested_bridge_unit(r, wd)
        locality_unit(r, wd)
        scoped_config_unit(r, wd, "thorough")
        shutil.rmtree(wd, ignore_errors=True)
        print("still failing" if doc["key"] in r.keys else "no longer failing")
        return 1 if doc["key"] in r.keys else 0
    b = w["backend"]
    cfgfile = None
    if w.get("config_file"):
        cfgfile = os.path.join(wd, "config.toml")
        shutil.copy(os.path.join(REPO, "feature_tests", "config.toml"), cfgfile)

    def gen(tag, files):
        d = os.path.join(wd, "src", tag)
        os.makedirs(d, exist_ok=True)
        for p, t in files.items():
            open(os.path.join(d, p), "w").write(t)
        out = os.path.join(wd, "out", tag)
        shutil.rmtree(out, ignore_errors=True)
        p = run_tool(b, os.path.join(d, "lib.rs"), out, config_file=cfgfile, configs=w.get("configs", []), cwd=wd)
        tree = read_tree(out) if os.path.isdir(out) and p.returncode == 0 else None
        shutil.rmtree(out, ignore_errors=True)
        return p, tree

    print("seed=%s backend=%s history=%s" % (w["seed"], b, w["history"]))
    rc = 0
    if w["type"] == "rerun":
        seen = {}
        for r in range(RECHECK_RUNS):
            p, tree = gen("s", w["source"])
            d = tree_digest({k: sha(v) for k, v in tree.items()}) if tree is not None else "FAILED(%s)" % p.returncode
            seen.setdefault(d, tree)
        print("%d fresh runs -> %d distinct trees" % (RECHECK_RUNS, len(seen)))
        if len(seen) > 1:
            rc = 1
            ts = [t for t in seen.values() if t is not None][:2]
            if len(ts) == 2:
                for f in sorted(set(ts[0]) | set(ts[1])):
                    if ts[0].get(f) != ts[1].get(f):
                        print("\n".join(short_diff(ts[0].get(f), ts[1].get(f), "A/" + f, "B/" + f)))
                        break
    else:
        pb, tb = gen("before", w["source_before"])
        pa, ta = gen("after", w["source_after"])
        print("edit: %s" % w["edit"])
        print("\n".join(w.get("source_diff", [])[:60]))
        if tb is None or ta is None:
            print("rc before=%s after=%s\n%s\n%s" % (pb.returncode, pa.returncode, pb.stderr[-800:], pa.stderr[-800:]))
            rc = 1 if (tb is None) != (ta is None) else 0
        else:
            subj = w.get("subject")
            for f in sorted(set(tb) | set(ta)):
                if tb.get(f) == ta.get(f):
                    continue
                if w["edit_kind"] in LOCAL and (is_aggregate(b, f) or (subj and subj in os.path.basename(f))):
                    continue
                rc = 1
                print("DIFFERS: %s" % f)
                print("\n".join(short_diff(tb.get(f), ta.get(f), "before/" + f, "after/" + f)))
    shutil.rmtree(wd, ignore_errors=True)
    print("replay verdict: %s" % ("still violated" if rc else "not reproduced"))
    return rc
