"""C16 — runtime slice/string views round-trip; exported UTF-8 predicate == reference DFA."""
import json
import os
import subprocess

from vlib.common import Reporter, build_harness, MachineryError, cargo_env, harness_src, BUILD


def _run(binp, args, timeout=1800):
    p = subprocess.run([binp] + args, stdout=subprocess.PIPE, stderr=subprocess.PIPE, text=True, timeout=timeout)
    return p


def run(tier):
    rep = Reporter("C16", tier, "model_checking")
    d = build_harness("rtx")
    binp = os.path.join(d, "rtx")
    # ---- views
    p = _run(binp, ["c16-views", "8" if tier == "quick" else "16"])
    if p.returncode != 0:
        # a crash inside the runtime conversions (debug assertion, segfault) is a property failure of the views
        rep.violation("C16|views|crash", {"cmd": "rtx c16-views", "rc": p.returncode, "stderr": p.stderr[-2000:]},
                      "runtime view conversion crashed")
        views = {"cases": 0, "distinct": 0, "samples": []}
    else:
        views = json.loads(p.stdout)
        if views["failure"]:
            rep.violation("C16|views|" + views["failure"].split(":")[0] + "|" + views["failure"].split(":")[1].strip()[:40],
                          {"failure": views["failure"], "cmd": "rtx c16-views"}, views["failure"])
    # ---- utf8
    p = _run(binp, ["c16-utf8", tier])
    if p.returncode != 0:
        raise MachineryError("rtx c16-utf8 failed: " + p.stderr[-2000:])
    u = json.loads(p.stdout)
    if u["mismatch"] is not None:
        b = bytes(u["mismatch"])
        rep.violation("C16|utf8|mismatch", {"bytes_hex": b.hex(), "cmd": "rtx c16-utf8 " + tier},
                      "diplomat_is_str disagrees with the Table 3-7 recogniser on bytes %s" % b.hex())
    # ---- miri replay of the views (UB that plain execution cannot see); thorough only
    miri = None
    if tier == "thorough":
        miri = _miri(["c16-views", "4"])
        if miri["rc"] != 0:
            if "Undefined Behavior" in miri["stderr"] or "memory leaked" in miri["stderr"]:
                rep.violation("C16|views|miri", {"stderr": miri["stderr"][-3000:]}, "miri reports UB/leak in runtime view conversions")
            else:
                raise MachineryError("miri run failed: " + miri["stderr"][-2000:])
    states = u["evaluated"] + views["cases"]
    cov = {
        "states": states,
        "transitions": states,
        "traces_validated_against_impl": u["evaluated"],
        "evaluations": states,
        "distinct_nontrivial": u["valid"] + views["distinct"],
        "rule": "UTF-8: every byte string of the listed blocks is one case (distinct by construction); non-trivial = "
                "accepted by the reference recogniser (valid strings), the rest exercise the reject paths. Views: one case per "
                "(element type, length, value rotation, view kind) + NULL views + alloc/free sizes.",
        "exhaustive": True,
        "distinct_outcomes": 2 if 0 < u["valid"] < u["evaluated"] else 1,
        "bound": {"utf8_blocks": u["blocks"], "view_max_len": 8 if tier == "quick" else 16},
        "utf8_valid": u["valid"],
        "utf8_evaluated": u["evaluated"],
        "view_cases": views["cases"],
        "miri": None if miri is None else {"rc": miri["rc"], "cmd": miri["cmd"]},
        "samples": views.get("samples", [])[:3] + [{"utf8_block": b} for b in u["blocks"][:4]],
    }
    return rep.finish(cov, [
        "reference recogniser written from Unicode Table 3-7, independent of core::str",
        "'random longer strings' of the statement are replaced by exhaustive enumeration of lengths 5-7 over a boundary-byte alphabet",
        "DiplomatChar/DiplomatByte are type aliases of u32/u8 and are covered by those element types",
    ])


def _miri(args, timeout=3000):
    src = harness_src("rtx")
    tdir = os.path.join(BUILD, "rtx-miri")
    env = cargo_env({"CARGO_TARGET_DIR": tdir, "MIRIFLAGS": "-Zmiri-disable-isolation", "RTX_THREADS": "1"})
    cmd = ["cargo", "+nightly", "miri", "run", "--offline", "--"] + args
    p = subprocess.run(cmd, cwd=src, env=env, stdout=subprocess.PIPE, stderr=subprocess.PIPE, text=True, timeout=timeout)
    return {"rc": p.returncode, "stdout": p.stdout, "stderr": p.stderr, "cmd": " ".join(cmd)}


def replay(path):
    w = json.load(open(path))
    print(json.dumps(w, indent=1))
    return run("quick")
