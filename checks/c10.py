"""C10 — one wire encoding for Option / Result: rides on the C01 build, with its own oracle:
  (1) optional pointers: absent <=> NULL, (2) everything else {payload, is_ok} with is_ok == 1 exactly for Some/Ok and the sizes rustc has
  (unit arms occupy no payload), (3) std Option / DiplomatOption spellings: identical C declarations and identical behaviour."""
import json
import os
import re

from vlib import abi as A
from vlib import ffix as F
from vlib.common import Reporter, build_tool, workdir, MachineryError
from checks import c01


def _is_opt_method(m):
    def has(t):
        if isinstance(t, (A.Opt, A.Result, A.NullableRet)):
            return True
        if isinstance(t, (A.OpaqueRef, A.OpaqueBox)) and t.optional:
            return True
        if isinstance(t, A.Struct):
            return any(has(ft) for _, ft in t.fields)
        return False
    return any(has(t) for t in m["params"]) or (m["ret"] is not None and has(m["ret"]))


def _protos(hdr):
    out = {}
    for f in os.listdir(hdr):
        if f.endswith(".h") and f != "diplomat_runtime.h":
            txt = open(os.path.join(hdr, f)).read()
            for m in re.finditer(r"^((?:typedef struct (\w+)_result \{[^\n]*\} \w+_result;\n)?[^\n;{}#]*?)\b(\w+)\(([^;{]*)\);", txt, re.M):
                out[m.group(3)] = (re.sub(r"\s+", " ", m.group(1)).strip(), re.sub(r"\s+", " ", m.group(4)).strip())
    return out


def run(tier):
    rep = Reporter("C10", tier, "exploration")
    build_tool()
    wd = workdir("C10")
    b = c01.build_all(tier)
    if not b["ok"]:
        raise MachineryError("ffix build failed at %s:\n%s" % (b["stage"], b["stderr"][-6000:]))
    allm = b["methods"]
    b = dict(b, methods=[m for m in allm if _is_opt_method(m)])
    r = c01.compile_and_run_c(b, wd)
    if not r["ok"]:
        rep.violation("C10|c|driver-does-not-compile", {"stderr": r["stderr"][-4000:]}, "C driver over Option/Result methods does not compile: %s" % r["stderr"][:600])
        return rep.finish({"evaluations": 1, "distinct_nontrivial": 2, "rule": "n/a", "samples": ["driver failed to compile"], "exhaustive": False})
    st = c01.compare(rep, "C10", r["cases"], r["out"])
    if r["rc"] != 0 and not rep.violations:
        rep.violation("C10|c|driver-exit", {"rc": r["rc"], "stderr": r["err"][-3000:]}, "C driver exited with %d" % r["rc"])
    # (2) sizes: C's sizeof of every Result/Option return record == rustc's size_of of the FFI type
    nsz = 0
    byid = {m["i"]: m for m in b["methods"]}
    for l in r["out"].splitlines():
        if l.startswith("SZ "):
            _, i, csz, rsz = l.split()
            nsz += 1
            if csz != rsz:
                m = byid[int(i)]
                rep.violation("C10|size|%s" % c01.shape_of(m), {"rust": F.rust_method(m), "c_sizeof": csz, "rust_size_of": rsz},
                              "record returned by %s has sizeof %s in C, size_of %s in Rust" % (m["name"], csz, rsz))
    # (3) spelling pairs: same inner type, std vs diplomat spelling -> identical declarations modulo the function name
    protos = _protos(b["hdr"])
    pairs = 0
    groups = {}
    for m in b["methods"]:
        ts = m["params"] if m["kind"] == "P" and len(m["params"]) == 1 else ([m["ret"]] if m["kind"] == "R" else [])
        if len(ts) == 1 and isinstance(ts[0], (A.Opt, A.NullableRet)):
            t = ts[0]
            groups.setdefault((m["kind"], t.inner.rust("param")), {})[t.spelling] = m
    for (kind, inner), g in sorted(groups.items()):
        if "std" in g and "diplomat" in g:
            pairs += 1
            a, c = g["std"], g["diplomat"]
            pa, pc = protos.get("%s_%s" % (a["owner"], a["name"])), protos.get("%s_%s" % (c["owner"], c["name"]))
            if pa is None or pc is None:
                raise MachineryError("UNDECIDED: prototype of %s / %s not found in headers" % (a["name"], c["name"]))
            na, nc = "%s_%s" % (a["owner"], a["name"]), "%s_%s" % (c["owner"], c["name"])
            norm = lambda p, n: (p[0].replace(n, "F"), re.sub(r"\b\w+$", "", p[1]))
            if norm(pa, na) != norm(pc, nc):
                rep.violation("C10|spelling|%s|%s" % (kind, re.sub(r"\bL\d+\b", "Lk", inner)), {"std": pa, "diplomat": pc, "inner": inner},
                              "Option<%s> and DiplomatOption<%s> give different C declarations: %s vs %s" % (inner, inner, pa, pc))
    from checks import c10js
    jsh = c10js.js_half(rep, wd)
    samples = []
    for (m, j, c) in r["cases"][::max(1, len(r["cases"]) // 5)][:5]:
        e = F.expected_line(m, j, c)
        samples.append({"rust": F.rust_method(m)[:240], "case": repr(c)[:160], "expected": e if isinstance(e, str) else e[-1]})
    cov = {
        "evaluations": st["expected"] + nsz + pairs + jsh["calls_judged"],
        "distinct_nontrivial": len({repr(F.expected_line(m, j, c)) for (m, j, c) in r["cases"]}),
        "rule": "one case per (method with an Option/Result/optional-pointer in parameter, return or struct-field position, value); plus one size judgement per Result/Option return "
                "record and one declaration comparison per (std, DiplomatOption) spelling pair",
        "exhaustive": True,
        "distinct_outcomes": st["outcomes"],
        "bound": {"tier": tier, "methods": len(b["methods"]), "calls": len(r["cases"]), "size_judgements": nsz, "spelling_pairs": pairs, "js_option_parameters": jsh},
        "samples": samples,
    }
    return rep.finish(cov, ["shares the generated crate, headers and value alphabets with C01", "is_ok is read through the header's `bool is_ok` member; a non-0/1 flag byte would be the callee's UB and is not probed"])


def replay(path):
    print(open(path).read()[:3000])
    return run("quick")
