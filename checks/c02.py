"""C02 — C++ bindings preserve values and outcomes in both directions (real proc macro under rustc vs real C++ backend under g++,
executed, -std=c++17 and -std=c++20), incl. the UTF-8 rule for direct &str parameters."""
import json
import os
import re
import shutil
import subprocess
import time

from vlib import ffix as F
from vlib.common import Reporter, build_tool, run_tool, workdir, MachineryError, pmap
from checks import c01


def run_std(rep, b, wd, std, utf8_expect):
    hdr = b["cpp"]
    headers = sorted(f for f in os.listdir(hdr) if f.endswith(".hpp") and not f.endswith(".d.hpp") and f != "diplomat_runtime.hpp")
    # namespaced types live in subdirectories
    for root, _, fs in os.walk(hdr):
        for f in fs:
            rel = os.path.relpath(os.path.join(root, f), hdr)
            if os.sep in rel and f.endswith(".hpp") and not f.endswith(".d.hpp"):
                headers.append(rel)
    shards, order, sweeps = F.render_cpp_drivers(b["types"], b["methods"], headers)
    d = os.path.join(wd, std)
    os.makedirs(d, exist_ok=True)
    objs = []
    jobs = []
    for k, src in enumerate(shards):
        cp = os.path.join(d, "s%d.cpp" % k)
        open(cp, "w").write(src)
        jobs.append((cp, cp[:-4] + ".o"))

    def cc(job):
        cp, o = job
        p = subprocess.run(["g++", "-std=" + std, "-O0", "-g0", "-w", "-fsanitize=address,undefined", "-fno-sanitize-recover=undefined", "-I", hdr, "-c", cp, "-o", o],
                           stdout=subprocess.PIPE, stderr=subprocess.PIPE, text=True)
        return (cp, o, p.returncode, p.stderr)
    res = pmap(cc, jobs)
    for (cp, o, rc, err) in res:
        if rc != 0:
            return dict(ok=False, stage="g++ " + std, stderr=err, file=cp)
    exe = os.path.join(d, "driver")
    p = subprocess.run(["g++", "-fsanitize=address,undefined"] + [o for (_, o, _, _) in res] + [b["lib"], "-o", exe, "-lpthread", "-ldl", "-lm"],
                       stdout=subprocess.PIPE, stderr=subprocess.PIPE, text=True)
    if p.returncode != 0:
        return dict(ok=False, stage="link " + std, stderr=p.stderr, file=exe)
    env = dict(os.environ)
    env["ASAN_OPTIONS"] = "detect_leaks=0:exitcode=99:alloc_dealloc_mismatch=0"
    r = subprocess.run([exe], stdout=subprocess.PIPE, stderr=subprocess.PIPE, text=True, errors="replace", env=env, timeout=1800)
    return dict(ok=True, rc=r.returncode, out=r.stdout, err=r.stderr, order=order, sweeps=sweeps)


def compare(rep, std, order, out):
    lines = [l for l in out.splitlines() if not l.startswith(("UTF8 ", "CMP ", "AR ", "IT "))]
    exp, owners = [], []
    for (m, j, c) in order:
        e = F.expected_line_cpp(m, j, c)
        for x in (e if isinstance(e, list) else [e]):
            exp.append(x)
            owners.append((m, j, c))
    bad = 0
    n = min(len(lines), len(exp))
    outcomes = set()
    for k in range(n):
        outcomes.add(lines[k].split("|")[1].strip()[:40] if "|" in lines[k] else lines[k][:40])
        if lines[k] != exp[k]:
            m, j, c = owners[k]
            bad += 1
            if bad <= 40:
                rep.violation("C02|%s|value-mismatch|%s" % (std, c01.shape_of(m)),
                              {"method": m["name"], "rust": F.rust_method(m), "case": repr(c), "expected": exp[k], "observed": lines[k], "std": std},
                              "C++ (%s) %s case %d: expected `%s` observed `%s`" % (std, F.cpp_fn({}, m), j, exp[k][:200], lines[k][:200]))
    if len(lines) < len(exp) + 1:
        m, j, c = owners[min(n, len(owners) - 1)]
        rep.violation("C02|%s|driver-died|%s" % (std, c01.shape_of(m)), {"method": m["name"], "rust": F.rust_method(m), "case": repr(c), "lines_seen": len(lines)},
                      "C++ (%s) driver stopped before %s case %d (crash / sanitizer abort)" % (std, m["name"], j))
    return dict(lines=len(lines), expected=len(exp), mismatches=bad, outcomes=len(outcomes))


def run(tier):
    rep = Reporter("C02", tier, "exploration")
    build_tool()
    wd = workdir("C02")
    b = c01.build_all(tier)
    if not b["ok"]:
        raise MachineryError("ffix build failed at %s:\n%s" % (b["stage"], b["stderr"][-6000:]))
    cppdir = os.path.join(b["crate"], "cpp")
    shutil.rmtree(cppdir, ignore_errors=True)
    q = run_tool("cpp", os.path.join(b["crate"], "src", "lib.rs"), cppdir)
    if q.returncode != 0:
        raise MachineryError("cpp backend failed on the ffix crate: " + q.stderr[-3000:])
    b["cpp"] = cppdir
    utf8_total, utf8_acc = F.utf8_sweep_expected()
    stats = {}
    total_eval = 0
    sweeps_n = 0
    for std in ("c++17", "c++20"):
        r = run_std(rep, b, wd, std, (utf8_total, utf8_acc))
        if not r["ok"]:
            rep.violation("C02|%s|driver-does-not-build" % std, {"stage": r["stage"], "stderr": r["stderr"][-4000:]},
                          "a C++ driver calling every generated method does not build (%s): %s" % (r["stage"], r["stderr"][:700]))
            continue
        st = compare(rep, std, r["order"], r["out"])
        if r["rc"] != 0 and not rep.violations:
            rep.violation("C02|%s|driver-exit" % std, {"rc": r["rc"], "stderr": r["err"][-3000:]}, "C++ driver exited with %d: %s" % (r["rc"], r["err"][-300:]))
        # comparison operators generated from the `comparison` special method
        cm = [l for l in r["out"].splitlines() if l.startswith("CMP ")]
        if cm != F.cmp_expected() and (cm or not rep.violations):
            rep.violation("C02|%s|comparison-operators" % std, {"expected": F.cmp_expected(), "observed": cm},
                          "C++ (%s) operators of a type with a comparison method disagree with Rust's ordering: %s" % (std, [l for l in cm if l not in F.cmp_expected()][:2]))
        itl = [l for l in r["out"].splitlines() if l.startswith("IT ")]
        if itl != F.it_expected() and (itl or not rep.violations):
            rep.violation("C02|%s|iterable-adapter" % std, {"expected": F.it_expected(), "observed": itl},
                          "C++ (%s) iterator adapter of an iterable does not show Rust's sequence: %s" % (std, [l for l in itl if l not in F.it_expected()][:3]))
        ar = [l for l in r["out"].splitlines() if l.startswith("AR ")]
        if ar != F.ar_expected() and (ar or not rep.violations):
            rep.violation("C02|%s|arithmetic-operators" % std, {"expected": F.ar_expected(), "observed": ar},
                          "C++ (%s) binary / compound operators of a struct with arithmetic special methods disagree with the Rust methods: %s" % (
                              std, [l for l in ar if l not in F.ar_expected()][:2]))
        # UTF-8 rule
        sw = [l for l in r["out"].splitlines() if l.startswith("UTF8 ")]
        if len(sw) != len(r["sweeps"]):
            if not rep.violations:
                raise MachineryError("UTF-8 sweep lines missing: %d of %d" % (len(sw), len(r["sweeps"])))
        for l in sw:
            m = re.match(r"UTF8 (\d+) total=(\d+) accepted=(\d+) mismatches=(\d+) reached_rust_when_invalid=(\d+) first=(\w*)", l)
            tot, acc, mism, leaked = int(m.group(2)), int(m.group(3)), int(m.group(4)), int(m.group(5))
            sweeps_n += tot
            if mism or leaked or tot != utf8_total or acc != utf8_acc:
                rep.violation("C02|%s|utf8-rule" % std, {"line": l, "expected_total": utf8_total, "expected_accepted": utf8_acc},
                              "direct &str parameter: C++ side accepted/rejected differently from the UTF-8 reference, or an invalid string reached Rust: %s" % l)
        stats[std] = st
        total_eval += st["expected"]
    samples = []
    for (m, j, c) in F.expand_cases(b["methods"])[::max(1, len(F.expand_cases(b["methods"])) // 6)][:6]:
        e = F.expected_line_cpp(m, j, c)
        samples.append({"rust": F.rust_method(m)[:240], "cpp_call": F.cpp_fn(b["types"], m), "case": repr(c)[:160], "expected": e if isinstance(e, str) else e[-1]})
    cov = {
        "evaluations": total_eval + sweeps_n,
        "distinct_nontrivial": len({repr(F.expected_line_cpp(m, j, c)) for (m, j, c) in F.expand_cases(b["methods"])}),
        "rule": "one case per (method, value tuple, C++ standard); UTF-8 rule: every byte string of length <= 2 and every string of length 3 and 4 over the 24-byte boundary alphabet through "
                "each direct &str parameter; distinct = distinct expected output lines",
        "exhaustive": True,
        "distinct_outcomes": max([s["outcomes"] for s in stats.values()] + [0]),
        "bound": {"tier": tier, "methods": len(b["methods"]), "standards": list(stats), "per_standard": stats, "utf8_strings_per_sweep": utf8_total, "utf8_valid": utf8_acc,
                  "utf8_calls": sweeps_n},
        "samples": samples,
    }
    return rep.finish(cov, ["shares the generated crate and value alphabets with C01; expected values come from the Rust source-level types",
                            "on an Err result of a write-out method C++ drops the string, so its content is not compared there",
                            "feature_tests/example bridges are compiled (not executed) by C09"])


def replay(path):
    print(open(path).read()[:3000])
    return run("quick")
