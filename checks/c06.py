"""C06 - every backend refers to exactly the symbols the Rust library exports.

Bounded-exhaustive differential enumeration (nothing sampled):
  E  one `#[diplomat::bridge] pub mod m<k>` per (placement of `#[diplomat::abi_rename]` on {module, type, impl, method} x {absent,
     pattern with `{0}`, literal}) x owner kind {opaque, struct, enum} x rename/disable attribute variant; two methods per type
     (static `sm`, self `im`); placements whose reference names collide are counted and skipped; all modules of a tier are packed
     into ONE staticlib crate expanded by the real proc macro and into a few input files for the real diplomat-tool.
  O  ground truth = `nm -g --defined-only` of the staticlib (members of the generated crate, unmangled `T` symbols).
     (1) naming: exported set of every module == reference model (vlib/c06util.py, written from book/src/abi.md and the rustdoc of
         ast::Attrs); where the documents do not pin the composition of nested patterns both readings are admissible, but one
         reading must explain every module;
     (2) per backend: Referenced(backend) == { exported symbol | owner type and method enabled in that backend }.
"""
import json
import os
import re
import shutil
import threading
import time

from vlib import c06util as U
from vlib.common import (BACKENDS, BUILD, REPO, MachineryError, Reporter, _repo_tag, build_tool, cargo_env, default_configs,
                         pmap, read_tree, run_tool, sh, workdir)

PROP = "C06"
CHUNK = 400           # bridge modules per diplomat-tool input file
CONFIRM_MAX = 150     # failing modules re-built and re-judged in the confirming run
NONE = ("none", None, None)

CARGO_TOML = """[package]
name = "%(name)s"
version = "0.0.0"
edition = "2021"
publish = false

[workspace]

[lib]
crate-type = ["staticlib"]
path = "src/lib.rs"

[dependencies]
diplomat = { path = "%(repo)s/macro" }
diplomat-runtime = { path = "%(repo)s/runtime" }

[profile.dev]
opt-level = 0
debug = false
incremental = false
"""


# ------------------------------------------------------------------------------------------------
# plan


def plan(tier):
    placements = U.all_placements()
    attrs = U.attr_variants()
    mods, skipped, reduced = [], [], []
    k = [0]

    def add(pl, owner, attr, extra=None, words=None):
        # two methods (static + self); where that collides (a literal shared by both), the same placement with one method
        for meths in ((("sm", "im"), ("im",)) if words else (U.METHODS, ("im",))):
            k[0] += 1
            m = {"k": k[0], "placement": tuple(pl), "owner": owner, "attr": tuple(attr), "methods": tuple(meths), "extra": extra}
            if words:
                m["words"] = words
                U.register_words(m)
            if not U.collides(m):
                mods.append(m)
                return
            if len(meths) > 1:
                reduced.append(m)
        skipped.append(m)

    if tier == "quick":
        for pl in placements:
            add(pl, "opaque", NONE)
            add(pl, "openum", NONE)
            # a second type after the first impl block / a bridge module nested in this one (a module-level literal would name
            # every function of the module alike, so those placements are left to the single-type modules)
            if pl[0] != "L":
                add(pl, "opaque", NONE, "sibling")
                add(pl, "opaque", NONE, "nested")
        for pl in (("-", "-", "-", "-"), ("P", "P", "P", "P")):
            for a in attrs[1:]:
                add(pl, "opaque", a)
        bound = {"abi_rename_placements": len(placements), "owners": ["opaque", "openum (opaque enum)"], "attr_variants_on_all_placements": ["none"],
                 "attr_variants_on_2_placements": len(attrs) - 1, "placements_with_attr_variants": ["all absent", "pattern on all 4 levels"]}
    else:
        for owner in U.OWNERS:
            for pl in placements:
                for a in attrs:
                    add(pl, owner, a)
                    if owner == "opaque" and pl[0] != "L":
                        add(pl, owner, a, "sibling")
                if owner == "opaque" and pl[0] != "L":
                    add(pl, owner, NONE, "nested")
        bound = {"abi_rename_placements": len(placements), "owners": list(U.OWNERS), "attr_variants": len(attrs),
                 "product": "placements x owners x attr variants (full)"}
    # fixed "historical" names that are reserved words of a target language (literal on the type and on both methods)
    U.WORD_OWNER.clear()
    for w in U.word_triples():
        add(("-", "L", "-", "L"), "opaque", NONE, words=w)
    bound["reserved_word_literals"] = list(U.WORDS)
    bound["methods_per_type"] = "sm (static) + im (self) + wm (static write-out method); im only where a literal shared by both methods would collide (%d modules)" % len(reduced)
    bound["attr_variant_list"] = [U.attr_text(a) for a in attrs]
    bound["patterns"] = U.ABI_PATTERN
    return mods, skipped, bound


def desc(m):
    return "m%d[%s|%s|%s|%s%s]" % (m["k"], U.placement_text(m["placement"]), m["owner"], U.attr_text(m["attr"]), "+".join(m["methods"]),
                                   ("|+" + m["extra"]) if m.get("extra") else "")


# ------------------------------------------------------------------------------------------------
# real artefacts: staticlib + nm, backend outputs


def _root():
    return os.path.join(BUILD, "c06x" + _repo_tag())


def build_lib(name, mods):
    """-> (crate symbols set, nm lines by symbol, duplicates {symbol}, crate dir).  Duplicate-symbol build errors are returned,
    any other build failure is a machinery problem."""
    root = _root()
    crate = os.path.join(root, name)
    cname = "c06x_" + name
    os.makedirs(os.path.join(crate, "src"), exist_ok=True)
    os.makedirs(os.path.join(crate, ".cargo"), exist_ok=True)
    lib = U.CRATE_HEAD + "\n".join(U.module_src(m) for m in mods)
    for p, s in ((os.path.join(crate, "Cargo.toml"), CARGO_TOML % {"name": cname, "repo": REPO}),
                 (os.path.join(crate, ".cargo", "config.toml"), "[net]\noffline = true\n"),
                 (os.path.join(crate, "src", "lib.rs"), lib)):
        if not os.path.exists(p) or open(p).read() != s:
            with open(p, "w") as fh:
                fh.write(s)
    shutil.copy(os.path.join(REPO, "Cargo.lock"), os.path.join(crate, "Cargo.lock"))
    tdir = os.path.join(root, "target")
    p = sh(["cargo", "build", "--offline"], cwd=crate, env=cargo_env({"CARGO_TARGET_DIR": tdir}), timeout=3000, check=False)
    if p.returncode != 0:
        # two items of one expansion with the same name: E0428 for two fns in one module, "symbol .. is already defined" across modules
        dups = set(re.findall(r"symbol `(\w+)` is already defined", p.stderr)) | set(re.findall(r"the name `(\w+)` is defined multiple times", p.stderr))
        errs = [ln for ln in p.stderr.splitlines() if ln.startswith("error")]
        if dups and all("is already defined" in e or "is defined multiple times" in e or "could not compile" in e or "aborting due to" in e for e in errs):
            return None, {}, dups, crate
        raise MachineryError("crate %s does not build with the real proc macro:\n%s" % (cname, p.stderr[-5000:]))
    q = sh(["nm", "-g", "--defined-only", os.path.join(tdir, "debug", "lib%s.a" % cname)])
    syms, lines, member, own_members = set(), {}, None, 0
    for ln in q.stdout.splitlines():
        if ln.endswith(":") and " " not in ln:
            member = ln[:-1]
            own_members += member.startswith(cname)
            continue
        parts = ln.split()
        if len(parts) == 3 and member and member.startswith(cname) and parts[1] == "T":
            s = parts[2]
            if s.startswith(("_ZN", "_R")):
                continue
            syms.add(s)
            lines[s] = "%s: %s" % (member, ln)
    if not own_members:
        raise MachineryError("nm shows no archive member of crate %s" % cname)
    return syms, lines, set(), crate


def gen_outputs(wd, name, mods, keep_snippets):
    """Run the real tool for every backend on the modules (chunked). -> refs[backend][form] = set, idents[backend] = set,
    snippets[(backend, k)] = [lines]"""
    chunks = [mods[i:i + CHUNK] for i in range(0, len(mods), CHUNK)]
    jobs = []
    for ci, ch in enumerate(chunks):
        d = os.path.join(wd, "%s-%03d" % (name, ci))
        os.makedirs(d, exist_ok=True)
        src = os.path.join(d, "in.rs")
        with open(src, "w") as fh:
            fh.write("\n".join(U.module_src(m) for m in ch))
        for b in BACKENDS:
            jobs.append((ci, b, src, os.path.join(d, "out_" + b), ch, ()))
            if b == "kotlin":
                # the finalizer variant of the opaque template has its own destructor call site
                jobs.append((ci, b, src, os.path.join(d, "out_kotlin_fin"), ch, ("kotlin.use_finalizers_not_cleaners=true",)))

    def one(j):
        ci, b, src, out, ch, extra = j
        p = run_tool(b, src, out, configs=list(default_configs(b)) + list(extra), timeout=900)
        if p.returncode != 0:
            raise MachineryError("diplomat-tool %s failed (rc=%s) on chunk %d of %s (first module %s): %s" % (
                b, p.returncode, ci, name, desc(ch[0]), p.stderr[-2500:]))
        tree = read_tree(out)
        r = U.extract(b, tree)
        ids = U.idents_of(tree)
        snip = {}
        if keep_snippets:
            for path, body in sorted(tree.items()):
                for ln in body.decode("utf8", "replace").splitlines():
                    for idn in set(U.IDENT.findall(ln)):
                        k = U.module_of(idn)
                        # lines that carry a function-like name of module k (not the bare type name, not an include guard)
                        if k is not None and not re.fullmatch(r"_?(?:Rq\d+N)?Zq\d+T|\w+_H(?:PP)?|m\d+", idn):
                            snip.setdefault(k, []).append("%s: %s" % (path, ln.strip()[:200]))
                            break
        shutil.rmtree(out, ignore_errors=True)
        return b, r, ids, snip

    refs = {b: {} for b in BACKENDS}
    idents = {b: set() for b in BACKENDS}
    snippets = {}
    for b, r, ids, snip in pmap(one, jobs):
        for form, s in r.items():
            refs[b].setdefault(form, set()).update(s)
        idents[b] |= ids
        for k, lns in snip.items():
            snippets.setdefault((b, k), []).extend(lns)
    return refs, idents, snippets, len(jobs)


# ------------------------------------------------------------------------------------------------
# judging


def judge(wd, name, mods, keep_snippets=False):
    """Build, generate, extract and judge `mods`.  -> dict(fails=[...], stats)"""
    t0 = time.time()
    res = {}
    err = []

    def gen():
        try:
            res["gen"] = gen_outputs(wd, name, mods, keep_snippets)
        except BaseException as e:  # re-raised in the main thread
            err.append(e)
    th = threading.Thread(target=gen)
    th.start()
    fails = []
    live = list(mods)
    syms, nmlines, dups, crate = build_lib(name, live)
    if dups:
        bad = {}
        for s in dups:
            bad.setdefault(U.module_of(s), []).append(s)
        if None in bad:
            th.join()
            raise MachineryError("duplicate symbols that belong to no generated module: %s" % bad[None])
        for m in live:
            if m["k"] in bad:
                fails.append({"m": m, "backend": "naming", "kind": "duplicate-symbol", "role": "module", "symbols": sorted(bad[m["k"]]),
                              "expected": sorted(f["names"]["A"] for f in U.module_functions(m)),
                              "detail": "rustc: symbol `%s` is already defined (reference names are unique)" % bad[m["k"]][0]})
        live = [m for m in live if m["k"] not in bad]
        syms, nmlines, dups2, crate = build_lib(name, live)
        if dups2:
            th.join()
            raise MachineryError("duplicate symbols remain after removing the colliding modules: %s" % sorted(dups2)[:10])
    t_build = time.time() - t0
    th.join()
    if err:
        raise err[0]
    refs, idents, snippets, runs = res["gen"]
    t_all = time.time() - t0
    livek = {m["k"] for m in live}

    # ---- (1) naming
    by_mod = {}
    unattributed = []
    for s in sorted(syms):
        k = U.module_of(s)
        if k is None or k not in livek:
            unattributed.append(s)
        else:
            by_mod.setdefault(k, set()).add(s)
    if unattributed:
        fails.append({"m": None, "backend": "naming", "kind": "unattributed-export", "role": "module", "symbols": unattributed[:50],
                      "detail": "unmangled symbols exported by the generated crate that carry no module token"})
    outcomes = {}
    variant_use = {"A": 0, "B": 0}
    fmap = {}          # k -> {item: exported name}
    evaluations = 0
    nontrivial = set()
    samples = []

    def bump(x, n=1):
        outcomes[x] = outcomes.get(x, 0) + n

    for m in live:
        k = m["k"]
        fs = U.module_functions(m)
        obs = by_mod.get(k, set())
        exp = {v: {f["names"][v] for f in fs} for v in "AB"}
        match = [v for v in "AB" if obs == exp[v]]
        evaluations += len(fs)
        if match:
            v = match[0]
            fmap[k] = {f["item"]: f["names"][v] for f in fs}
            if exp["A"] != exp["B"]:
                variant_use[v] += 1
            for f in fs:
                bump("name:" + f["shape"])
                if f["renamed"]:
                    nontrivial.add(f["names"][v])
            if m["attr"] == NONE and m["k"] % 9 == 2 and len(samples) < 8 and any(f["renamed"] for f in fs):
                samples.append({"placement": U.placement_text(m["placement"]), "owner": m["owner"],
                                "expected": {f["item"]: f["names"]["A"] if f["pinned"] else [f["names"]["A"], f["names"]["B"]] for f in fs},
                                "nm": sorted(obs)})
            continue
        claimed = set()
        for f in fs:
            hit = [f["names"][v] for v in "AB" if f["names"][v] in obs]
            if hit:
                claimed.add(hit[0])
                continue
            bump("naming-violation")
            fails.append({"m": m, "backend": "naming", "kind": "wrong-name", "role": f["role"], "item": f["item"],
                          "expected": sorted(set(f["names"].values())), "symbols": sorted(obs - exp["A"] - exp["B"]),
                          "exported_by_module": sorted(obs), "shape": f["shape"],
                          "detail": "%s of %s: expected export %s, the module exports %s" % (
                              f["item"], "Zq%dT" % k, " or ".join(sorted(set(f["names"].values()))), sorted(obs))})
        extra = obs - claimed
        if extra and all((f["names"]["A"] in obs or f["names"]["B"] in obs) for f in fs):
            bump("naming-violation")
            fails.append({"m": m, "backend": "naming", "kind": "extra-export", "role": "module", "symbols": sorted(extra),
                          "expected": sorted(exp["A"]), "exported_by_module": sorted(obs),
                          "detail": "module exports symbols beyond the reference set: %s" % sorted(extra)})
    if variant_use["A"] and variant_use["B"]:
        fails.append({"m": None, "backend": "naming", "kind": "inconsistent-composition", "role": "module", "symbols": [],
                      "detail": "nested patterns compose as innermost-wins in %d modules and as inner(outer(default)) in %d" % (
                          variant_use["A"], variant_use["B"])})

    # ---- (2) per backend
    for b in BACKENDS:
        forms = refs[b]
        own = forms.pop("own_files_call", set())
        allref = set()
        for s in forms.values():
            allref |= s
        allref = {s for s in allref if not U.is_runtime(s)}
        # guard: an exported symbol mentioned anywhere in the output must have been seen by the structured extractor
        # (a symbol that is itself a keyword of the target language shows up as an identifier everywhere: not informative)
        loose = {s for s in syms if (s in idents[b] or ("_" + s) in idents[b]) and s not in U.WORD_OWNER}
        if loose - allref:
            raise MachineryError("UNDECIDED: %s output mentions exported symbol(s) %s outside every shape the extractor understands" % (
                b, sorted(loose - allref)[:5]))
        bad_own = {s for s in own if not U.is_runtime(s)}
        if bad_own:
            raise MachineryError("UNDECIDED: demo_gen's own files call wasm symbols directly: %s" % sorted(bad_own)[:5])
        ref_by_mod = {}
        stray = []
        for s in sorted(allref):
            k = U.module_of(s)
            if k is None or k not in livek:
                stray.append(s)
            else:
                ref_by_mod.setdefault(k, set()).add(s)
        if stray:
            fails.append({"m": None, "backend": b, "kind": "references-unexported" if not set(stray) <= syms else "references-unattributed",
                          "role": "unattributed", "symbols": stray[:50], "detail": "referenced native symbols that belong to no generated module"})
        # the reference forms of one backend must agree with each other (declared-but-never-called = missing binding,
        # called-but-undeclared = does not compile); folded into the failure record of the same (module, role) if there is one
        fm = {}
        for f1, f2 in U.FORM_PAIRS.get(b, []):
            for x, y in ((f1, f2), (f2, f1)):
                for s in sorted(forms.get(x, set()) - forms.get(y, set())):
                    if not U.is_runtime(s):
                        fm.setdefault((U.module_of(s), "dtor" if "destroy" in s else "method"), []).append("`%s` appears as %s but not as %s" % (s, x, y))
        for m in live:
            k = m["k"]
            fs = U.module_functions(m)
            R = ref_by_mod.get(k, set())
            obs = by_mod.get(k, set())
            en = U.enabled_items(m, b)
            if k in fmap:
                names = fmap[k]
            elif len(en) == len(fs) and len(obs) == len(fs):
                # naming already failed: the item -> name map is not needed when nothing is disabled
                names = {f["item"]: s for f, s in zip(sorted(fs, key=lambda f: f["role"] == "dtor"),
                                                      sorted(obs, key=lambda s: ("destroy" in s or s.endswith("_ty"), s)))}
            else:
                bump("skipped:naming-failed")
                continue
            missing, disabled_ref = {"method": [], "dtor": []}, {"method": [], "dtor": []}
            for f in fs:
                evaluations += 1
                s = names[f["item"]]
                if f["item"] in en:
                    if s in R:
                        bump("referenced(enabled)")
                    else:
                        bump("violation:exported-not-referenced")
                        missing[f["role"]].append(s)
                elif s in R:
                    bump("violation:references-disabled")
                    disabled_ref[f["role"]].append(s)
                else:
                    bump("not-referenced(disabled,still-exported)")
            extra = {"method": [], "dtor": []}
            for s in sorted(R - set(names.values())):
                bump("violation:references-unexported")
                extra["dtor" if "destroy" in s else "method"].append(s)
            for role in ("method", "dtor"):
                mi, ex, di = missing[role], extra[role], disabled_ref[role]
                if mi or ex:
                    kind = "references-wrong-name" if mi and ex else "exported-not-referenced" if mi else "references-unexported"
                    what = {"references-wrong-name": "the generated code refers to %s, which the library does not export, instead of the exported %s (compile or link failure at the user's site)" % (ex, mi),
                            "exported-not-referenced": "%s exported by the library and enabled in this backend, but the generated code never refers to it (missing binding)" % mi,
                            "references-unexported": "the generated code refers to %s, which the library does not export (compile or link failure at the user's site)" % ex}[kind]
                    fails.append({"m": m, "backend": b, "kind": kind, "role": role, "symbols": sorted(mi + ex), "exported_not_referenced": mi,
                                  "referenced_not_exported": ex, "exported_by_module": sorted(obs), "referenced_by_backend": sorted(R),
                                  "form_mismatch": fm.pop((k, role), None), "detail": "%s, %s of Zq%dT: %s" % (b, role, k, what)})
                if di:
                    fails.append({"m": m, "backend": b, "kind": "references-disabled", "role": role, "symbols": sorted(di),
                                  "exported_by_module": sorted(obs), "referenced_by_backend": sorted(R),
                                  "form_mismatch": fm.pop((k, role), None),
                                  "detail": "%s, %s of Zq%dT: the generated code refers to %s although the item is disabled in this backend" % (b, role, k, di)})
        bymod = {m["k"]: m for m in live}
        for (k, role), lst in sorted(fm.items(), key=lambda kv: (kv[0][0] or 0, kv[0][1])):
            bump("violation:form-mismatch", len(lst))
            fails.append({"m": bymod.get(k), "backend": b, "kind": "reference-forms-disagree", "role": role, "symbols": [], "form_mismatch": lst,
                          "detail": "%s, %s of Zq%sT: %s" % (b, role, k, "; ".join(lst))})
    for fl in fails:
        if fl["m"] is not None and keep_snippets and fl["backend"] in BACKENDS:
            fl["snippet"] = snippets.get((fl["backend"], fl["m"]["k"]), [])[:14]
        if fl["m"] is not None:
            fl["nm"] = [nmlines[s] for s in sorted(by_mod.get(fl["m"]["k"], set()))]
    return {"fails": fails, "evaluations": evaluations, "outcomes": outcomes, "variant_use": variant_use, "nontrivial": nontrivial,
            "samples": samples, "symbols": len(syms), "tool_runs": runs, "t_build": round(t_build, 1), "t_all": round(t_all, 1),
            "modules_built": len(live), "crate": crate}


def fail_sig(fl):
    return (fl["m"]["k"] if fl["m"] else None, fl["backend"], fl["kind"], fl["role"], tuple(fl["symbols"]))


def fail_key(fl, attr_in_key):
    m = fl["m"]
    if m is None:
        return "C06|%s|%s|%s" % (fl["backend"], fl["kind"], fl["role"])
    key = "C06|%s|%s|placement=%s|owner=%s%s|%s" % (fl["backend"], fl["kind"], U.placement_text(m["placement"]), m["owner"], ("+" + m["extra"]) if m.get("extra") else "", fl["role"])
    if attr_in_key:
        key += "|attr=%s" % U.attr_text(m["attr"])
    return key


def group(fails):
    """group failures by key; a failure of an attr-variant module is folded into the key of the plain module of the same
    (backend, kind, placement, owner, role) when that one fails too."""
    plain = set(fail_key(f, False) for f in fails if f["m"] is not None and f["m"]["attr"] == NONE)
    groups = {}
    for f in fails:
        base = fail_key(f, False)
        key = base if (f["m"] is None or f["m"]["attr"] == NONE or base in plain) else fail_key(f, True)
        groups.setdefault(key, []).append(f)
    for lst in groups.values():
        lst.sort(key=lambda f: (f["m"]["k"] if f["m"] else 0, f["symbols"]))
    return groups


def report(rep, groups, confirmed):
    """confirmed: sig -> failure record of the confirming run (with snippets)"""
    for key in sorted(groups):
        lst = groups[key]
        f0 = lst[0]
        c = confirmed.get(fail_sig(f0), f0)
        m = f0["m"]
        witness = {"module": {"k": m["k"], "placement": list(m["placement"]), "owner": m["owner"], "attr": list(m["attr"]),
                              "methods": list(m["methods"]), "extra": m.get("extra"), "words": m.get("words")} if m else None,
                   "module_rs": U.module_src(m) if m else None, "backend": f0["backend"], "kind": f0["kind"], "role": f0["role"],
                   "expected": f0.get("expected"), "symbols": f0["symbols"], "exported_by_module": f0.get("exported_by_module"),
                   "referenced_by_backend": f0.get("referenced_by_backend"), "exported_not_referenced": f0.get("exported_not_referenced"),
                   "referenced_not_exported": f0.get("referenced_not_exported"), "reference_forms_disagree": f0.get("form_mismatch"),
                   "nm_lines": c.get("nm"), "backend_snippet": c.get("snippet"), "detail": f0["detail"],
                   "all_affected": [{"module": desc(f["m"]) if f["m"] else None, "symbols": f["symbols"]} for f in lst][:400],
                   "affected_count": len(lst)}
        rep.violation(key, witness, "%s (%d affected symbol(s) in this class)" % (f0["detail"], len(lst)))


# ------------------------------------------------------------------------------------------------


ASSUMPTIONS = [
    "naming scheme taken from book/src/abi.md (`TypeName_method`, abi_rename on methods / impl blocks / types / bridge modules, replacement "
    "patterns) and the rustdoc of diplomat_core::ast::Attrs::abi_rename ('Affects method names when inherited onto methods. Affects "
    "destructor names when inherited onto types'): methods inherit module -> impl -> method, the destructor `Type_destroy` inherits "
    "module -> type; a type-level abi_rename therefore does not reach the methods of that type (the book does not say either way)",
    "the book's example spells the placeholder `{}` (\"mylibrary_{}\"); RenameAttr's rustdoc, its tests, feature_tests and example/ use `{0}`, "
    "which is what the property names and what is enumerated",
    "composition of nested attributes: pinned cases = at most one attribute on the chain, or innermost attribute is a literal "
    "(feature_tests/src/attrs.rs: module `namespace_{0}` + method `renamed_on_abi_only` => `renamed_on_abi_only`). Innermost *pattern* under an outer "
    "attribute is not pinned by any document: both `inner(default)` (innermost wins) and `inner(outer(default))` are accepted, but a single reading "
    "must explain every module (coverage.composition_observed says which one the implementation follows)",
    "collisions are computed with the innermost-wins reading; modules whose reference names collide are skipped and counted",
    "demo_gen's native references are those of its bundled js/ folder, produced by a nested run of the js backend under the js validator "
    "(tool/src/lib.rs): conditions are evaluated as for js (a `demo_gen` atom does not reach it)",
    "nanobind's native references are those of the bundled C++ headers include/*.hpp (generated under the nanobind validator)",
    "runtime symbols (`diplomat_*`, create/destroy_rust_jvm_cookie) are whitelisted; the static runtime templates diplomat_runtime.h/.hpp are "
    "not parsed for declarations",
    "Dart/Kotlin/JS/nanobind outputs are read as text (declaration and call-site shapes), not compiled; an exported symbol mentioned in an "
    "output outside the known shapes is reported as UNDECIDED (exit 2)",
    "cfg atoms of the rename/disable variants are restricted to `*` and backend names (C13 covers the cfg algebra)",
]


BOOK_EXAMPLE = """#[diplomat::bridge]
#[diplomat::abi_rename = "mylibrary_{}"]
mod ffi {
    #[diplomat::opaque]
    struct Foo;
    impl Foo {
        pub fn bar() -> u8 { 0 }
    }
}
"""


def probe_book_example(wd):
    """recorded, not judged: book/src/abi.md spells the placeholder `{}`; the property (and RenameAttr) say `{0}`."""
    d = os.path.join(wd, "book-example")
    os.makedirs(d, exist_ok=True)
    src = os.path.join(d, "in.rs")
    with open(src, "w") as fh:
        fh.write(BOOK_EXAMPLE)
    p = run_tool("c", src, os.path.join(d, "out"))
    got = sorted(set(re.findall(r"\b(\w*Foo_bar\w*)\s*\(", "".join(b.decode("utf8", "replace") for b in read_tree(os.path.join(d, "out")).values()))))
    return {"input": "book/src/abi.md second example (`mylibrary_{}`)", "book_says": "mylibrary_Foo_bar",
            "tool": "ok" if p.returncode == 0 else ("panic" if "panicked at" in p.stderr else "error rc=%s" % p.returncode),
            "message": [ln for ln in p.stderr.splitlines() if ln.strip() and "RUST_BACKTRACE" not in ln][:3], "c_prototypes": got}


def run(tier):
    rep = Reporter(PROP, tier, "exploration")
    build_tool()
    wd = workdir(PROP)
    book = probe_book_example(wd)
    mods, skipped, bound = plan(tier)
    print("C06 %s: %d modules enumerated, %d skipped (reference names collide), %d built" % (tier, len(mods) + len(skipped), len(skipped), len(mods)))
    r = judge(wd, tier, mods)
    fails = r["fails"]
    confirmed = {}
    if fails:
        ks = sorted({f["m"]["k"] for f in fails if f["m"] is not None})[:CONFIRM_MAX]
        sub = [m for m in mods if m["k"] in set(ks)]
        if sub:
            r2 = judge(wd, "confirm", sub, keep_snippets=True)
            confirmed = {fail_sig(f): f for f in r2["fails"]}
            want = {fail_sig(f) for f in fails if f["m"] is not None and f["m"]["k"] in set(ks)}
            got = {s for s in confirmed if s[0] is not None}
            if want != got:
                raise MachineryError("failures are not reproduced identically when the failing modules are rebuilt on their own: "
                                     "only-first=%s only-second=%s" % (sorted(want - got)[:5], sorted(got - want)[:5]))
        report(rep, group(fails), confirmed)
    shutil.rmtree(wd, ignore_errors=True)
    vu = r["variant_use"]
    comp = ("innermost-wins: `{0}` receives the default name (%d modules decide)" % vu["A"] if vu["A"] and not vu["B"] else
            "inner(outer(default)) (%d modules decide)" % vu["B"] if vu["B"] and not vu["A"] else
            "undetermined" if not (vu["A"] or vu["B"]) else "INCONSISTENT")
    outs = {k: v for k, v in r["outcomes"].items() if v}
    cov = {
        "evaluations": r["evaluations"],
        "symbol_x_backend_judgements": sum(v for k, v in outs.items() if not k.startswith("name:")),
        "distinct_nontrivial": len(r["nontrivial"]),
        "rule": "evaluation = one exported function judged for its name (nm vs reference model) or one (exported function, backend) pair judged "
                "referenced / not referenced; distinct_nontrivial = distinct exported symbols whose name involves at least one abi_rename",
        "exhaustive": True,
        "distinct_outcomes": len(outs),
        "outcomes": outs,
        "bound": bound,
        "modules_enumerated": len(mods) + len(skipped),
        "modules_built": r["modules_built"],
        "skipped_collisions": len(skipped),
        "skipped_collision_placements": sorted({U.placement_text(m["placement"]) for m in skipped}),
        "exported_symbols": r["symbols"],
        "tool_runs": r["tool_runs"],
        "cargo_builds": 1 + (1 if fails else 0),
        "composition_observed": comp,
        "book_example_with_empty_braces_recorded_not_judged": book,
        "timing_s": {"cargo_build_and_nm": r["t_build"], "build_and_generate": r["t_all"]},
        "samples": r["samples"],
    }
    return rep.finish(cov, ASSUMPTIONS)


def replay(path):
    w = json.load(open(path))
    wit = w["witness"]
    print("replaying %s" % w["key"])
    build_tool()
    wd = workdir(PROP + "-replay")
    try:
        if not wit.get("module"):
            print("class without a single module witness: running the quick tier")
            return run("quick")
        md = wit["module"]
        m = {"k": md["k"], "placement": tuple(md["placement"]), "owner": md["owner"], "attr": tuple(md["attr"]),
             "methods": tuple(md.get("methods", U.METHODS)), "extra": md.get("extra")}
        if md.get("words"):
            m["words"] = md["words"]
            U.WORD_OWNER.clear()
            U.register_words(m)
        print(U.module_src(m))
        r = judge(wd, "replay", [m], keep_snippets=True)
        same = [f for f in r["fails"] if f["backend"] == wit["backend"] and f["kind"] == wit["kind"] and f["role"] == wit["role"]]
        for f in r["fails"]:
            print("FAIL %s %s %s: %s" % (f["backend"], f["kind"], f["role"], f["detail"]))
            for ln in f.get("nm", []):
                print("   nm   | " + ln)
            for ln in f.get("snippet", []):
                print("   out  | " + ln)
        print("still failing" if same else "no longer failing")
        return 1 if same else 0
    finally:
        shutil.rmtree(wd, ignore_errors=True)
