"""C03 — exactly-once destruction. Runtime half: stateright over create/convert/borrow/clone/drop
histories on the real runtime types. Generated-API half: see checks/c03g.py (merged in here)."""
import json
import os
import re
import subprocess

from vlib.common import Reporter, build_harness, MachineryError
from checks.c16 import _miri


def runtime_half(rep, tier):
    d = build_harness("rtx")
    binp = os.path.join(d, "rtx")
    depth, cells = (5, 2) if tier == "quick" else (7, 3)
    p = subprocess.run([binp, "c03", str(depth), str(cells)], stdout=subprocess.PIPE, stderr=subprocess.PIPE,
                       text=True, timeout=3000)
    fams = []
    if p.returncode != 0:
        rep.violation("C03r|crash", {"rc": p.returncode, "stderr": p.stderr[-3000:]},
                      "explorer crashed inside runtime conversions (memory error with heap payloads)")
    else:
        fams = json.loads(p.stdout)
        for f in fams:
            v = f["violation"]
            if v:
                m = re.search(r"step \d+ (\w+)", v["why"])
                opname = m.group(1) if m else "?"
                cls = "payload dropped by conversion DiplomatResult->Result" if (opname == "IntoStd" and "reference model expects []" in v["why"]) else re.sub(r"[0-9]+", "N", v["why"].split(":", 1)[-1])[:80]
                rep.violation("C03r|%s|%s" % (opname, cls), v, "history %s (%s): %s" % (v["hist"], v["family"], v["why"]))
    # ---- argument buffers (diplomat_alloc / diplomat_free), natively and - thorough - under miri
    alloc = {}
    pa = subprocess.run([binp, "c03-alloc", "31"], stdout=subprocess.PIPE, stderr=subprocess.PIPE, text=True, timeout=600)
    if pa.returncode != 0:
        rep.violation("C03r|alloc|crash", {"rc": pa.returncode, "stderr": pa.stderr[-3000:]},
                      "allocating and releasing argument buffers through diplomat_alloc / diplomat_free crashed (invalid free)")
    else:
        aj = json.loads(pa.stdout.strip().splitlines()[-1])
        alloc = {"histories": aj["histories"]}
        if aj["violation"]:
            rep.violation("C03r|alloc|" + re.sub(r"[0-9]+", "N", aj["violation"])[:60], aj, aj["violation"])
    if tier == "thorough" and not rep.violations:
        ma = _miri(["c03-alloc", "9"])
        if ma["rc"] != 0:
            if "Undefined Behavior" in ma["stderr"] or "memory leaked" in ma["stderr"]:
                rep.violation("C03r|alloc|miri", {"stderr": ma["stderr"][-3000:]}, "miri reports UB/leak in an alloc/free history of argument buffers")
            else:
                raise MachineryError("miri run failed: " + ma["stderr"][-2000:])
        else:
            alloc["miri_histories"] = json.loads(ma["stdout"].strip().splitlines()[-1])["histories"]
    miri = None
    if tier == "thorough" and not rep.violations:
        miri = _miri(["c03-dfs", "3", "2"])
        if miri["rc"] != 0:
            if "Undefined Behavior" in miri["stderr"] or "memory leaked" in miri["stderr"]:
                rep.violation("C03r|miri", {"stderr": miri["stderr"][-3000:]}, "miri reports UB/leak on a runtime-type history")
            else:
                raise MachineryError("miri run failed: " + miri["stderr"][-2000:])
        else:
            mj = json.loads(miri["stdout"].strip().splitlines()[-1])
            if mj["violation"]:
                rep.violation("C03r|miri-dfs", mj, mj["violation"])
            miri = {"transitions": mj["transitions"], "cmd": miri["cmd"]}
    return {
        "states": sum(f["states"] for f in fams),
        "transitions": sum(f["transitions"] for f in fams) + alloc.get("histories", 0),
        "families": fams,
        "alloc_free_histories": alloc,
        "bound": {"depth": depth, "max_cells": cells},
        "miri": miri,
    }


def run(tier):
    rep = Reporter("C03", tier, "model_checking")
    rt = runtime_half(rep, tier)
    gen = None
    try:
        from checks import c03g
    except ImportError:
        c03g = None
    if c03g is not None:
        gen = c03g.generated_half(rep, tier)
    states = rt["states"] + (gen["states"] if gen else 0)
    trans = rt["transitions"] + (gen["transitions"] if gen else 0)
    cov = {
        "states": states,
        "transitions": trans,
        "traces_validated_against_impl": trans,
        "evaluations": trans,
        "distinct_nontrivial": states,
        "rule": "runtime half: state = (depth, abstract cells: kind/arm/len/null); every transition re-executes the history on the real runtime types "
                "with drop-logging payloads and compares the drop log with the reference ownership model after every op and at quiescence. "
                "generated half: state = (depth, abstract handle table); every transition is a call through the generated C API under ASan+LSan.",
        "exhaustive": True,
        "distinct_outcomes": states,
        "runtime_half": rt,
        "generated_half": gen,
        "samples": [
            {"runtime_history": "[MakeOk, IntoStd(0), FromStd(0), Clone(0), Drop(0), Drop(0)]", "payload": "Box<Counter>"},
            {"runtime_history": "[MakeSlice(3), Mutate(0), IntoStd(0), Drop(0)]", "payload": "struct{Vec<Counter>,u8}"},
            {"runtime_history": "[MakeCb(true), Observe(0), Drop(0)]", "expect": "destructor exactly once"},
        ] + ((gen or {}).get("samples") or []),
        "alloc_free_histories": rt.get("alloc_free_histories"),
    }
    return rep.finish(cov, [
        "payload identity is observed through Drop impls logging to a thread-local log",
        "mem::forget / leaking on purpose is not in the op alphabet (caller's business)",
        "calling through a destroyed handle or destroying twice are caller preconditions, not explored",
    ])


def replay(path):
    w = json.load(open(path))
    print(json.dumps(w, indent=1))
    return run("quick")
