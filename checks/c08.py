"""C08 — JS bindings read/write structs with the real wasm32 repr(C) layout: the generated .mjs is executed in Node against a stub
wasm module; bytes written/read, receive-buffer size/align and flattened argument lists are compared with a reference built from
rustc's own layout of the same structs (32-bit pointers substituted) and the documented wasm ABIs."""
import json
import math
import os
import re
import shutil
import struct
import subprocess

from vlib import jslayout as J
from vlib.common import Reporter, build_tool, run_tool, workdir, MachineryError, pmap, REPO, BUILD, VERIF, cargo_env

ORACLE_TOML = """[package]
name = "c08oracle"
version = "0.0.0"
edition = "2021"
publish = false
[workspace]
[dependencies]
diplomat-runtime = { path = "%s/runtime" }
"""


def layout_oracle(structs):
    from vlib.common import _repo_tag
    d = os.path.join(BUILD, "c08-oracle" + _repo_tag())
    os.makedirs(os.path.join(d, "src"), exist_ok=True)
    os.makedirs(os.path.join(d, ".cargo"), exist_ok=True)
    open(os.path.join(d, "Cargo.toml"), "w").write(ORACLE_TOML % REPO)
    open(os.path.join(d, ".cargo", "config.toml"), "w").write("[net]\noffline = true\n")
    open(os.path.join(d, "src", "main.rs"), "w").write(J.oracle_source(structs))
    if not os.path.exists(os.path.join(d, "Cargo.lock")):
        shutil.copy(os.path.join(REPO, "Cargo.lock"), os.path.join(d, "Cargo.lock"))
    p = subprocess.run(["cargo", "run", "--offline", "-q"], cwd=d, env=cargo_env({"CARGO_TARGET_DIR": os.path.join(d, "target")}),
                       stdout=subprocess.PIPE, stderr=subprocess.PIPE, text=True)
    if p.returncode != 0:
        raise MachineryError("layout oracle failed: " + p.stderr[-3000:])
    return json.loads(p.stdout)


def enc_val(ft, v):
    if v is None:
        return None
    if ft.kind == "u64":
        return {"big": str(v)}
    if ft.kind in ("f32", "f64"):
        return {"f": "inf" if v == float("inf") else "-inf" if v == float("-inf") else repr(float(v))}
    if ft.kind == "struct":
        return [enc_val(f, x) for (_, f), x in zip(ft.inner, v)]
    if ft.kind == "option":
        return enc_val(ft.inner, v)
    if isinstance(v, J.PSlice):
        return {"ps": v.elem, "v": [enc_val(J.FT(v.elem, "", "", v.elem if v.elem not in ("i64",) else "u64", None), x) for x in v]}
    return v


def ft_json(ft):
    d = {"kind": ft.kind, "key": ft.key}
    if ft.kind == "struct":
        d["inner"] = [{"name": n, "ft": ft_json(f)} for n, f in ft.inner]
    if ft.kind == "option":
        d["inner"] = ft_json(ft.inner)
    return d


def slice_bytes(ft, v):
    return J.slice_enc(v)


def feq(a, b):
    try:
        fa = float(a.replace("inf", "Infinity")) if isinstance(a, str) else float(a)
        fb = float(b.replace("inf", "Infinity")) if isinstance(b, str) else float(b)
    except ValueError:
        return False
    return fa == fb or (math.isnan(fa) and math.isnan(fb))


def same_val(ft, exp, got):
    """exp: encoded python value, got: canon() output of the driver"""
    if exp is None:
        return got is None
    if ft.kind == "u64":
        return isinstance(got, dict) and got.get("big") == exp["big"]
    if ft.kind in ("f32", "f64"):
        return isinstance(got, dict) and "f" in got and feq(exp["f"], got["f"])
    if ft.kind == "en":
        return got == {"en": J.ENUM[exp][1]}
    if ft.kind == "ptr":
        return got == {"ptr": exp}
    if ft.kind == "bool":
        return got is bool(exp) or got == bool(exp)
    if ft.kind == "struct":
        return isinstance(got, list) and len(got) == len(ft.inner) and all(same_val(f, e, g) for (_, f), e, g in zip(ft.inner, exp, got))
    if ft.kind == "option":
        return same_val(ft.inner, exp, got)
    if isinstance(exp, dict) and "ps" in exp:
        if not isinstance(got, list) or len(got) != len(exp["v"]):
            return False
        ek = "u64" if exp["ps"] in ("i64", "u64") else exp["ps"]
        if ek in ("f32", "f64"):
            # (an integral double comes back as a plain number)
            return all(feq(e["f"], g["f"] if isinstance(g, dict) and "f" in g else (repr(float(g)) if isinstance(g, (int, float)) and not isinstance(g, bool) else "nan")) for e, g in zip(exp["v"], got))
        return all(same_val(J.FT(ek, "", "", ek, None), e, g) for e, g in zip(exp["v"], got))
    if isinstance(exp, J.U8Str):
        # read back from the bytes that were written: an unpaired surrogate has become U+FFFD on the way in
        return got == J.utf8_of_js_string(exp).decode("utf-8")
    return got == exp


def field_classes(s):
    return ",".join(f.key for _, f in s.fields)


def make_job(structs, lay, outdir):
    job = {"outdir": outdir, "structs": []}
    meta = {}
    for s in structs:
        l = lay[s.name]
        cases = []
        for vals in s.values():
            exp, slices = J.expected_bytes(s, vals, lay)
            rb = bytearray([0xAA] * l["size"])
            for o, b in exp.items():
                rb[o] = b
            pre = []
            at = 0xA000
            for (off, ft, v) in slices:
                content, elem = slice_bytes(ft, v)
                rb[off:off + 4] = struct.pack("<I", at if content else 0)
                if content:
                    pre.append({"at": at, "hex": content.hex()})
                at += 64
            cases.append({"vals": [enc_val(f, v) for (_, f), v in zip(s.fields, vals)], "read_bytes": bytes(rb).hex(), "read_pre": pre,
                          "slices": [{"off": off, "elem": slice_bytes(ft, v)[1]} for (off, ft, v) in slices]})
            meta.setdefault(s.name, []).append((vals, exp, slices))
        fl = J.flatten_spec(s, s.values()[0], lay)
        wrappers = []
        if not s.lifetime:
            sbytes = cases[0]["read_bytes"]
            kind = {"()": "unit", "u8": "u8", "u64": "u64", "En": "en", "@": "struct", "Zs": "zst"}
            for w, (okt, errt) in J.WRAPPERS.items():
                wl = lay["%s|%s" % (s.name, w)]
                # both arms zero-sized: the record is the flag alone, a single scalar that the export returns directly
                wrappers.append({"w": w, "direct": wl["size"] == 1, "flag_off": wl["flag"], "ok_kind": kind[okt], "err_kind": kind[errt],
                                 "ok_hex": sbytes if okt == "@" else J.ARM_BYTES[okt].hex(), "err_hex": sbytes if errt == "@" else J.ARM_BYTES[errt].hex()})
        job["structs"].append({"name": s.name, "owner": s.owner, "lifetime": s.lifetime, "out": s.out, "size": l["size"], "align": l["align"], "single_scalar": "buffer" not in fl[0],
                               "fields": [{"name": n, "ft": ft_json(f)} for n, f in s.fields], "cases": cases, "wrappers": wrappers})
    return job, meta


def arg_matches(slot, arg, mem, lay):
    """slot from the reference flattening vs one recorded argument"""
    if "pad" in slot:
        return arg == 0 or arg is False or arg == {"f": "-0"} or arg == {"big": "0"}
    if "unionslot" in slot:
        if slot["unionslot"] is None:
            return True  # inactive union: any bits
        w = slot["w"]
        want = bytes.fromhex(slot["unionslot"])
        if isinstance(arg, dict) and "big" in arg:
            gotb = (int(arg["big"]) & ((1 << 64) - 1)).to_bytes(8, "little")[:w]
        elif isinstance(arg, bool):
            gotb = bytes([int(arg)]) + b"\0" * (w - 1)
        elif isinstance(arg, int):
            gotb = (arg & ((1 << (8 * w)) - 1)).to_bytes(w, "little")
        else:
            return False
        return all((not m) or want[i] == gotb[i] for i, m in enumerate(slot["mask"]))
    if "sliceptr" in slot:
        v = slot["sliceptr"]
        content = J.slice_enc(v)[0]
        if not content:
            return isinstance(arg, int)
        return mem is not None and mem.startswith(content.hex())
    k, v = slot["k"], slot["v"]
    if k == "u64":
        return arg == v
    if k in ("f32", "f64"):
        return (isinstance(arg, dict) and "f" in arg and feq(v["f"], arg["f"])) or (isinstance(arg, (int, float)) and not isinstance(arg, bool) and feq(v["f"], repr(float(arg))))
    if k == "bool":
        return arg is v or arg == int(v)
    if k in ("u32", "usize", "char", "ptr"):
        return isinstance(arg, int) and not isinstance(arg, bool) and (arg & 0xFFFFFFFF) == (v & 0xFFFFFFFF)
    if k in ("i16", "u8", "u16", "i8", "en", "i32"):
        return isinstance(arg, int) and not isinstance(arg, bool) and arg == v
    return arg == v


class _Norm:
    """maps the many symptoms of two known root causes onto one key each"""

    def __init__(self, rep, abi, s, lay):
        self.rep, self.abi, self.s = rep, abi, s
        fl = J.flatten_spec(s, s.values()[0], lay)
        self.single = None
        if "buffer" not in fl[0] and fl[0].get("k") in ("en", "ptr"):
            self.single = fl[0]["k"]

    def violation(self, key, witness, what):
        if self.single:
            key = "C08|%s|single-scalar-struct-not-passed-as-scalar|%s" % (self.abi, self.single)
        elif "|flatten|union|" in key and any(f.kind == "struct" for _, f in self.s.fields):
            key = "C08|%s|flatten|union+nested-struct-padding" % self.abi
        return self.rep.violation(key, witness, what)


ARM_VALUE = {"u8": 0x7B, "u64": {"big": str(0x0102030405060708)}, "en": {"en": 5}, "unit": "unit", "zst": "zst"}


def judge_wrapped(rep, abi, s, lay, meta, res, stats, cls):
    """methods returning Result<..> / Option<..> around the struct: the receive buffer must hold Rust's record (payload union + flag),
    be aligned for it, and the arm JS decodes must be the one whose flag Rust wrote, with the payload values intact"""
    if s.lifetime:
        return
    vals0 = meta[s.name][0][0]
    want_struct = [enc_val(f, v) for (_, f), v in zip(s.fields, vals0)]
    for rec in res.get("wrapped") or []:
        w = rec["w"]
        okt, errt = J.WRAPPERS[w]
        wl = lay["%s|%s" % (s.name, w)]
        stats["wrapped"] = stats.get("wrapped", 0) + 1
        sig = "Option<S>" if w == "o" else "Result<%s, %s>" % (okt.replace("@", "S"), errt.replace("@", "S"))
        base = {"struct": s.name, "fields": cls, "returns": sig, "rust_layout": wl, "record": rec}
        if "error" in rec:
            raise MachineryError("driver error on %s wrapper %s: %s" % (s.name, w, rec["error"]))
        if not rec.get("called"):
            rep.violation("C08|%s|wrapped|%s|export-not-called" % (abi, sig), base, "method returning %s around struct {%s} never calls its export" % (sig, cls))
            continue
        allocs = rec.get("allocs") or []
        direct = wl["size"] == 1
        if direct:
            if allocs:
                rep.violation("C08|%s|wrapped|%s|flag-only-record-uses-buffer" % (abi, sig), base, "method returning %s: the record is the flag alone and is returned directly, yet a receive buffer is allocated" % sig)
                continue
        elif not allocs or not rec.get("ptr_is_alloc"):
            rep.violation("C08|%s|wrapped|%s|no-receive-buffer" % (abi, sig), base, "method returning %s around struct {%s}: first argument is not a receive buffer" % (sig, cls))
            continue
        a = allocs[0] if allocs else {"size": 1 << 30, "align": 1 << 10}
        if a["size"] < wl["flag"] + 1:
            rep.violation("C08|%s|wrapped|%s|buffer-too-small" % (abi, sig), base,
                          "method returning %s around struct {%s}: receive buffer of %d bytes, Rust writes the flag at offset %d (record size %d)" % (sig, cls, a["size"], wl["flag"], wl["size"]))
            continue
        if a["align"] % wl["align"] != 0:
            rep.violation("C08|%s|wrapped|%s|buffer-under-aligned" % (abi, sig), base,
                          "method returning %s around struct {%s}: receive buffer aligned to %d, Rust's record needs %d" % (sig, cls, a["align"], wl["align"]))
        flag = rec["flag"]
        arm = (okt if flag else errt)
        kind = {"()": "unit", "u8": "u8", "u64": "u64", "En": "en", "@": "struct", "Zs": "zst"}[arm]
        want = want_struct if kind == "struct" else ARM_VALUE[kind]
        # how each arm surfaces in JS: Ok -> return value; Err(()) / None -> null; Err(E) -> exception with cause
        if flag or arm == "()":
            got_arm_ok = not rec["thrown"]
            got = rec.get("ret")
            if not flag:
                want = None
            elif kind == "unit":
                want = "unit"
        else:
            got_arm_ok = rec["thrown"]
            got = rec.get("cause")

        def same(wv, gv):
            if kind == "struct" and wv is not None and gv is not None:
                return all(same_val(ft, e, g) for (_, ft), e, g in zip(s.fields, wv, gv))
            return wv == gv
        if not got_arm_ok:
            rep.violation("C08|%s|wrapped|%s|wrong-arm|flag=%d" % (abi, sig, flag), dict(base, expected=want),
                          "method returning %s around struct {%s}: Rust wrote is_ok=%d at offset %d, JS took the other arm" % (sig, cls, flag, wl["flag"]))
        elif not same(want, got):
            rep.violation("C08|%s|wrapped|%s|payload|flag=%d" % (abi, sig, flag), dict(base, expected=want, got=got),
                          "method returning %s around struct {%s}: is_ok=%d payload decoded as %s, Rust stored %s" % (sig, cls, flag, json.dumps(got)[:120], json.dumps(want)[:120]))


def judge_probe(rep, abi, probe, stats):
    """DiplomatBuf.slice / strs of the bundled runtime for every view kind, allocated at the very end of the wasm memory"""
    if len(probe) < 15:
        raise MachineryError("runtime probe incomplete: %s" % json.dumps(probe)[:300])
    for r in probe:
        stats["probe"] = stats.get("probe", 0) + 1
        if "error" in r:
            rep.violation("C08|runtime|slice-at-end-of-memory-throws|%s" % r["ty"], {"probe": r},
                          "DiplomatBuf.%s of %d elements (%d bytes each) placed 64 bytes before the end of the wasm memory throws: %s" % (
                              "strs" if r["ty"].startswith("strs") else "slice(%s)" % r["ty"], r["n"], r["elem"], r["error"]))
            continue
        if r["ty"].startswith("strs-grow"):
            if r.get("pairs") != r.get("want_pairs"):
                rep.violation("C08|runtime|strs-pairs-lost-when-memory-grows|%s" % r["ty"].split(":")[1], {"probe": r},
                              "DiplomatBuf.strs with an allocation that grows the wasm memory: the (ptr, len) array holds %s, the strings were allocated as %s" % (r.get("pairs"), r.get("want_pairs")))
            continue
        want = {"size": r["n"] * r["elem"], "align": 4 if r["ty"].startswith("strs") else r["elem"]}
        al = r.get("alloc") or {}
        if (al.get("size"), al.get("align")) != (want["size"], want["align"]) or r["len"] != r["n"] or al.get("ptr") != r["ptr"]:
            rep.violation("C08|runtime|slice-allocation|%s" % r["ty"], {"probe": r, "want": want},
                          "DiplomatBuf.slice(%s): %d elements allocated as %s, reported length %s; need size %d align %d" % (r["ty"], r["n"], al, r["len"], want["size"], want["align"]))
        elif not r["ty"].startswith("strs") and (r["back_len"] != r["n"] or r["back_last"] != r["want_last"]):
            rep.violation("C08|runtime|slice-roundtrip|%s" % r["ty"], {"probe": r},
                          "a %s list written by DiplomatBuf.slice reads back through DiplomatSlicePrimitive as length %s, last element %s (stored %s)" % (
                              r["ty"], r["back_len"], r["back_last"], r["want_last"]))


def judge(rep0, abi, structs, lay, meta, results, stats):
    byname = {s.name: s for s in structs}
    for res in results:
        if res["name"] == "$runtime_probe":
            judge_probe(rep0, abi, res["probe"], stats)
            continue
        s = byname[res["name"]]
        rep = _Norm(rep0, abi, s, lay)
        l = lay[s.name]
        cls = field_classes(s)
        for e in res.get("errors", []):
            raise MachineryError("driver error on %s: %s" % (s.name, e))
        # receive buffer
        rv = res.get("recv") or {}
        allocs = rv.get("allocs") or []
        stats["recv"] += 1
        one_scalar = len(J.flatten_spec(s, s.values()[0], lay)) == 1 and "buffer" not in J.flatten_spec(s, s.values()[0], lay)[0]
        if one_scalar:
            if allocs:
                rep.violation("C08|%s|receive-buffer|single-scalar-uses-buffer|fields=%s" % (abi, cls), {"struct": s.name, "fields": cls, "allocs": allocs},
                              "method returning single-scalar struct {%s} allocates a receive buffer although the value is returned directly" % cls)
        elif not allocs or (allocs[0]["size"], allocs[0]["align"]) != (l["size"], l["align"]):
            rep.violation("C08|%s|receive-buffer|fields=%s" % (abi, cls), {"struct": s.name, "fields": cls, "expected": [l["size"], l["align"]], "allocs": allocs, "give_exc": res.get("give_exc")},
                          "method returning struct {%s}: receive buffer %s, Rust layout size/align %s" % (cls, allocs[:1], (l["size"], l["align"])))
        judge_wrapped(rep, abi, s, lay, meta, res, stats, cls)
        for (vals, exp, slices), c in zip(meta[s.name], res["cases"]):
            stats["cases"] += 1
            encv = [enc_val(f, v) for (_, f), v in zip(s.fields, vals)]
            # ---- write path (out structs are only ever returned: nothing to write, nothing to pass)
            if s.out:
                pass
            elif "write_error" in c:
                rep.violation("C08|%s|write-throws|fields=%s|%s" % (abi, cls, re.sub(r"\d+", "N", c["write_error"])[:60]), {"struct": s.name, "fields": cls, "vals": encv, "error": c["write_error"]},
                              "_writeToArrayBuffer threw for struct {%s} with %s: %s" % (cls, encv, c["write_error"]))
            else:
                got = bytes.fromhex(c["written"])
                bad = [(o, b, got[o]) for o, b in sorted(exp.items()) if got[o] != b and not any(off <= o < off + 4 for (off, _, _) in slices)]
                if bad:
                    which = "option-flag" if any(f.kind == "option" for _, f in s.fields) and all(b == 0 for (_, b, _) in bad) else "bytes"
                    rep.violation("C08|%s|write|%s|fields=%s" % (abi, which, cls), {"struct": s.name, "fields": cls, "vals": encv, "written": c["written"],
                                                                                  "expected_defined_bytes": {str(o): b for o, b in exp.items()}, "mismatch_offsets": bad[:8]},
                                  "struct {%s} value %s: bytes at offsets %s differ from the repr(C) layout (offset, want, got)" % (cls, encv, bad[:4]))
                for (off, ft, v), sl in zip(slices, c["slices"]):
                    content, elem = slice_bytes(ft, v)
                    al = sl.get("alloc")
                    if content and al and (al["size"], al["align"]) != (len(content), elem):
                        rep.violation("C08|%s|write|slice-allocation|elem=%s" % (abi, getattr(v, "elem", "u8/str")), {"struct": s.name, "vals": encv, "slice": sl, "want": [len(content), elem]},
                                      "struct {%s}: the buffer of the slice field at offset %d was allocated with (size, align) = (%d, %d), the %d elements of %d bytes need (%d, %d)" % (
                                          cls, off, al["size"], al["align"], len(content) // elem, elem, len(content), elem))
                    if sl["len"] != len(content) // elem or (content and sl["content"] != content.hex()):
                        rep.violation("C08|%s|write|slice|fields=%s" % (abi, cls), {"struct": s.name, "vals": encv, "slice": sl, "want": content.hex()},
                                      "struct {%s}: slice field at offset %d written as %s, want len %d content %s" % (cls, off, sl, len(content) // elem, content.hex()))
            # ---- read path
            if "read_error" in c:
                rep.violation("C08|%s|read-throws|fields=%s|%s" % (abi, cls, re.sub(r"\d+", "N", c["read_error"])[:60]), {"struct": s.name, "fields": cls, "vals": encv, "error": c["read_error"]},
                              "_fromFFI threw for struct {%s}: %s" % (cls, c["read_error"]))
            else:
                for (fn, ft), e, g in zip(s.fields, encv, c["read"]):
                    if not same_val(ft, e, g):
                        rep.violation("C08|%s|read|field=%s|fields=%s" % (abi, ft.key, cls), {"struct": s.name, "fields": cls, "field": fn, "stored": e, "read_back": g},
                                      "struct {%s}: field %s stored %s read back as %s" % (cls, fn, e, g))
            # ---- flattening
            if s.out:
                continue
            stats["flatten"] += 1
            if "take_error" in c:
                rep.violation("C08|%s|call-throws|fields=%s|%s" % (abi, cls, re.sub(r"\d+", "N", c["take_error"])[:60]), {"struct": s.name, "fields": cls, "vals": encv, "error": c["take_error"]},
                              "calling a method taking struct {%s} threw: %s" % (cls, c["take_error"]))
                continue
            ref = J.flatten_legacy(s, vals, lay) if abi == "legacy" else J.flatten_spec(s, vals, lay)
            args, mem = c["args"], c["mem"]
            ok = True
            why = ""
            if ref == [{"buffer": True}]:
                if len(args) != 1 or mem[0] is None:
                    ok, why = False, "expected one pointer argument"
                else:
                    got = bytes.fromhex(mem[0])[:l["size"]]
                    bad = [(o, b, got[o]) for o, b in sorted(exp.items()) if got[o] != b and not any(off <= o < off + 4 for (off, _, _) in slices)]
                    if bad:
                        ok, why = False, "buffer behind the pointer differs at %s" % bad[:4]
            elif len(args) != len(ref):
                ok, why = False, "%d arguments, reference has %d slots" % (len(args), len(ref))
            else:
                for k, (slot, a) in enumerate(zip(ref, args)):
                    if not arg_matches(slot, a, mem[k], lay):
                        ok, why = False, "slot %d: got %s want %s" % (k, json.dumps(a), json.dumps(slot))
                        break
            if not ok:
                shape = "union" if any(f.kind == "option" for _, f in s.fields) else ("direct" if len(ref) <= 2 else "padded")
                rep.violation("C08|%s|flatten|%s|fields=%s" % (abi, shape, cls), {"struct": s.name, "fields": cls, "vals": encv, "args": args, "reference": ref, "why": why},
                              "%s ABI: struct {%s} value %s passed as %s; %s" % (abi, cls, encv, json.dumps(args)[:200], why))


def run(tier):
    rep = Reporter("C08", tier, "model_checking")
    build_tool()
    wd = workdir("C08")
    structs = J.universe(tier)
    src = J.bridge_source(structs)
    entry = os.path.join(wd, "lib.rs")
    open(entry, "w").write(src)
    lay = layout_oracle(structs)
    stats = {"cases": 0, "recv": 0, "flatten": 0}
    node_runs = 0
    for abi in ("legacy", "spec"):
        out = os.path.join(wd, "js_" + abi)
        p = run_tool("js", entry, out, configs=["js.abi=" + abi], timeout=600)
        if p.returncode != 0:
            raise MachineryError("js backend failed on the struct universe (%s): %s" % (abi, p.stderr[-2000:]))
        shutil.copy(os.path.join(VERIF, "harness", "jsx", "diplomat-wasm.mjs"), os.path.join(out, "diplomat-wasm.mjs"))
        chunks = [structs[k:k + 40] for k in range(0, len(structs), 40)]

        def runchunk(arg):
            k, ch = arg
            job, meta = make_job(ch, lay, out)
            jp = os.path.join(wd, "job_%s_%d.json" % (abi, k))
            json.dump(job, open(jp, "w"))
            q = subprocess.run(["node", os.path.join(VERIF, "harness", "jsx", "driver.mjs"), jp], stdout=subprocess.PIPE, stderr=subprocess.PIPE, text=True, timeout=600)
            os.remove(jp)
            if q.returncode != 0:
                return ("error", q.stderr[-2000:], None)
            return ("ok", json.loads(q.stdout), meta)
        for (status, results, meta), ch in zip(pmap(runchunk, list(enumerate(chunks))), chunks):
            node_runs += 1
            if status != "ok":
                raise MachineryError("node driver failed: " + results)
            judge(rep, abi, ch, lay, meta, results, stats)
    shutil.rmtree(wd, ignore_errors=True)
    s0 = structs[len(structs) // 3]
    samples = [{"struct": "{%s}" % field_classes(s), "rust_layout": lay[s.name], "legacy_flattening_of_first_value": J.flatten_legacy(s, s.values()[0], lay)[:8]}
               for s in (structs[5], s0, structs[-1])]
    cov = {
        "states": len(structs) * 2,
        "transitions": stats["cases"] * 3 + stats["recv"] + stats.get("wrapped", 0),
        "traces_validated_against_impl": stats["cases"] * 3 + stats["recv"] + stats.get("wrapped", 0),
        "wrapped_return_judgements": stats.get("wrapped", 0),
        "evaluations": stats["cases"],
        "distinct_nontrivial": len({(field_classes(s)) for s in structs if len({f.key for _, f in s.fields}) > 1 or len(s.fields) == 1}),
        "rule": "one struct per ordered field tuple over the field alphabet; per struct every field's value alphabet with the others fixed (+ all-first / all-last); per value: bytes written, values "
                "read back, flattened call arguments; per struct: receive-buffer size/align; both js.abi settings. Reference = rustc's offsets/size/align for the same definitions with 32-bit "
                "pointers + documented wasm ABIs",
        "exhaustive": True,
        "distinct_outcomes": len({(lay[s.name]["size"], lay[s.name]["align"], tuple(lay[s.name]["offsets"])) for s in structs}),
        "bound": {"tier": tier, "structs": len(structs), "field_alphabet": [f.key for f in J.ALPHABET], "max_fields": 2 if tier == "quick" else "3 over 12 types, 4 over 6 types", "abis": ["legacy", "spec"]},
        "node_processes": node_runs,
        "samples": samples,
    }
    return rep.finish(cov, [
        "x86-64 and wasm32 agree on size/alignment of every scalar used once usize/pointers are replaced by u32 and slices by (u32,u32): host rustc is the layout engine",
        "js.abi=legacy argument flattening is judged against docs/wasm_abi_quirks.md (the legacy rustc ABI is not executable here); js.abi=spec against the wasm BasicCABI rule",
        "padding and inactive-union bytes are excluded from byte comparison; memory is prefilled with 0xAA so unwritten defined bytes are visible",
    ])


def replay(path):
    print(open(path).read()[:3000])
    return run("quick")
