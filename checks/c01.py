"""C01 — Rust extern "C" layer (real proc macro under rustc) == generated C headers (real C backend under gcc), executed."""
import json
import os
import re
import shutil
import subprocess
import time

from vlib import ffix as F
from vlib.common import Reporter, build_tool, run_tool, workdir, MachineryError, BUILD, sha


def build_all(tier, rep=None):
    """returns dict with crate dir, lib, header dir, methods, types; raises MachineryError for harness problems"""
    types, methods = F.method_set(tier)
    src = F.render_crate(types, methods)
    t0 = time.time()
    d, lib, p = F.build_crate(tier, src)
    if p.returncode != 0:
        return dict(ok=False, stage="cargo", stderr=p.stderr, crate=d, methods=methods, types=types)
    hdr = os.path.join(d, "c")
    shutil.rmtree(hdr, ignore_errors=True)
    q = run_tool("c", os.path.join(d, "src", "lib.rs"), hdr)
    if q.returncode != 0:
        return dict(ok=False, stage="tool-c", stderr=q.stderr, crate=d, methods=methods, types=types)
    return dict(ok=True, crate=d, lib=lib, hdr=hdr, methods=methods, types=types, build_s=time.time() - t0)


def compile_and_run_c(b, wd):
    headers = sorted(f for f in os.listdir(b["hdr"]) if f.endswith(".h") and not f.endswith(".d.h") and f != "diplomat_runtime.h")
    drv, cases = F.render_c_driver(b["types"], b["methods"], headers)
    cpath = os.path.join(wd, "driver.c")
    open(cpath, "w").write(drv)
    exe = os.path.join(wd, "driver")
    cmd = ["gcc", "-std=gnu11", "-O0", "-g0", "-w", "-fsanitize=address,undefined", "-fno-sanitize-recover=undefined", "-I", b["hdr"], cpath, b["lib"],
           "-o", exe, "-lpthread", "-ldl", "-lm"]
    p = subprocess.run(cmd, stdout=subprocess.PIPE, stderr=subprocess.PIPE, text=True)
    if p.returncode != 0:
        return dict(ok=False, stage="gcc", stderr=p.stderr, cases=cases)
    env = dict(os.environ)
    env["ASAN_OPTIONS"] = "detect_leaks=0:abort_on_error=0:exitcode=99"
    env["UBSAN_OPTIONS"] = "print_stacktrace=0"
    r = subprocess.run([exe], stdout=subprocess.PIPE, stderr=subprocess.PIPE, text=True, errors="replace", env=env, timeout=1200)
    return dict(ok=True, rc=r.returncode, out=r.stdout, err=r.stderr, cases=cases)


def shape_of(m):
    ps = ",".join(re.sub(r"\bL\d+\b", "Lk", t.rust("param")) for t in m["params"])
    r = "" if m["ret"] is None else " -> " + re.sub(r"\bL\d+\b", "Lk", m["ret"].rust("ret"))
    return "%s(%s)%s" % (m["kind"], ps, r)


def compare(rep, prop, cases, out, label="c"):
    """compare driver output lines with the oracle; returns stats"""
    lines = [l for l in out.splitlines() if not l.startswith(("SZ ", "XS "))]
    xs = [l for l in out.splitlines() if l.startswith("XS ")]
    if xs != F.self_expected() and (xs or "DONE" in out):
        rep.violation("%s|%s|self-spelled-option-in-result" % (prop, label), {"expected": F.self_expected(), "observed": xs,
                                                                          "rust": "impl St { fn opt_self(self, sel: u8) -> Result<Option<Self>, ()> }"},
                      "%s driver: `-> Result<Option<Self>, ()>` on a struct arrives as %s, Rust returned %s" % (label, xs, F.self_expected()))
    exp = []
    for (m, j, c) in cases:
        e = F.expected_line(m, j, c)
        exp += e if isinstance(e, list) else [e]
        exp_owner = m
    # map expected lines to their (method, case)
    owners = []
    for (m, j, c) in cases:
        e = F.expected_line(m, j, c)
        for _ in (e if isinstance(e, list) else [e]):
            owners.append((m, j, c))
    bad = 0
    n = min(len(lines), len(exp))
    outcomes = set()
    for k in range(n):
        outcomes.add(lines[k].split("|")[1].strip()[:40] if "|" in lines[k] else lines[k][:40])
        if lines[k] != exp[k]:
            m, j, c = owners[k]
            bad += 1
            if bad <= 40:
                rep.violation("%s|%s|value-mismatch|%s" % (prop, label, shape_of(m)),
                              {"method": m["name"], "owner": m["owner"], "rust": F.rust_method(m), "case": repr(c), "expected": exp[k], "observed": lines[k]},
                              "%s driver: %s_%s case %d: expected `%s` observed `%s`" % (label, m["owner"], m["name"], j, exp[k][:200], lines[k][:200]))
    if len(lines) < len(exp) or (lines and lines[-1] != "DONE" and len(lines) == len(exp)):
        m, j, c = owners[min(n, len(owners) - 1)]
        rep.violation("%s|%s|driver-died|%s" % (prop, label, shape_of(m)), {"method": m["name"], "rust": F.rust_method(m), "case": repr(c), "lines_seen": len(lines)},
                      "%s driver stopped before %s_%s case %d (crash / sanitizer abort)" % (label, m["owner"], m["name"], j))
    return dict(lines=len(lines), expected=len(exp), mismatches=bad, outcomes=len(outcomes))


def symbol_check(rep, b):
    """exported symbols (nm) == prototypes declared in the generated C headers"""
    p = subprocess.run(["nm", "-g", "--defined-only", b["lib"]], stdout=subprocess.PIPE, stderr=subprocess.DEVNULL, text=True)
    syms = {l.split()[-1] for l in p.stdout.splitlines() if " T " in l}
    names = ["Op"] + list(b["types"]["owners"]) + [t.name for t in b["types"]["structs"]] + [t.name for t in b["types"]["enums"]]
    mine = {s for s in syms if any(s.startswith(n + "_") or s.startswith("ren_" + n + "_") for n in names)}   # (TNs carries abi_rename = "ren_{0}")
    protos = set()
    for f in os.listdir(b["hdr"]):
        if f.endswith(".h") and f != "diplomat_runtime.h":
            for m in re.finditer(r"^[\w\s\*]+?\b(\w+)\(([^;{]*)\);", open(os.path.join(b["hdr"], f)).read(), re.M):
                protos.add(m.group(1))
    protos = {s for s in protos if not s.startswith("diplomat_")}
    if mine != protos:
        rep.violation("C01|symbols|nm-vs-headers", {"only_in_lib": sorted(mine - protos)[:20], "only_in_headers": sorted(protos - mine)[:20]},
                      "exported symbols and header prototypes differ: lib-only %s, header-only %s" % (sorted(mine - protos)[:5], sorted(protos - mine)[:5]))
    return len(mine)


def run(tier):
    rep = Reporter("C01", tier, "exploration")
    build_tool()
    wd = workdir("C01")
    b = build_all(tier)
    if not b["ok"]:
        # the generated crate is valid Rust by construction once diplomat attributes are erased; a failure of the macro
        # expansion to type-check, or of the C backend to generate, on accepted input is a finding of C09/C15 - here it blocks the check
        raise MachineryError("ffix build failed at %s:\n%s" % (b["stage"], b["stderr"][-6000:]))
    r = compile_and_run_c(b, wd)
    if not r["ok"]:
        rep.violation("C01|c|driver-does-not-compile", {"stderr": r["stderr"][-4000:]},
                      "a C driver calling every declared function through the generated headers does not compile: %s" % r["stderr"][:600])
        return rep.finish({"evaluations": 1, "distinct_nontrivial": 2, "rule": "n/a", "samples": ["driver failed to compile"], "exhaustive": False})
    st = compare(rep, "C01", r["cases"], r["out"])
    if r["rc"] != 0 and not rep.violations:
        rep.violation("C01|c|driver-exit", {"rc": r["rc"], "stderr": r["err"][-3000:]}, "C driver exited with %d: %s" % (r["rc"], r["err"][-400:]))
    nsym = symbol_check(rep, b)
    methods = b["methods"]
    samples = []
    for (m, j, c) in r["cases"][::max(1, len(r["cases"]) // 6)][:6]:
        e = F.expected_line(m, j, c)
        samples.append({"rust": F.rust_method(m)[:300], "case": repr(c)[:200], "expected_driver_output": e if isinstance(e, str) else e[-1]})
    cov = {
        "evaluations": st["expected"],
        "distinct_nontrivial": len({F.expected_line(m, j, c) if isinstance(F.expected_line(m, j, c), str) else F.expected_line(m, j, c)[-1] for (m, j, c) in r["cases"]}),
        "rule": "one case per (method, argument/return value tuple); every method is a generated Rust method compiled by the real proc macro, called from a generated C driver "
                "through the header the real C backend produced; distinct = distinct expected output lines (value dumps)",
        "exhaustive": True,
        "distinct_outcomes": st["outcomes"],
        "states": len(methods),
        "transitions": st["expected"],
        "bound": {"tier": tier, "methods": len(methods), "calls": len(r["cases"]), "struct_layouts": len(b["types"]["structs"]),
                  "kinds": {k: sum(1 for m in methods if m["kind"] == k) for k in ("P", "R", "PR", "W", "CB", "CL")}},
        "symbols_checked": nsym,
        "sanitizers": "gcc -fsanitize=address,undefined",
        "build_s": round(b["build_s"], 1),
        "samples": samples,
    }
    return rep.finish(cov, [
        "values whose construction is the caller's UB (bool other than 0/1, non-variant enum values, invalid UTF-8 behind &str, dangling slices) are not in any alphabet",
        "value alphabets per type are listed in lib/vlib/abi.py (extremes, sign bit, byte patterns, NaN payloads, surrogates, NULL+0 slices)",
        "expected values are computed from the Rust source-level types only, never from the generated header",
    ])


def replay(path):
    w = json.load(open(path))
    print(json.dumps(w, indent=1)[:3000])
    return run("quick")
