"""C17 — configuration precedence: config.toml < --config < #[diplomat::config], language-scoped key beats the shared key for
that language only, kebab-case == snake_case in the file.

Exhaustive enumeration (nothing sampled) of the configuration lattice K: for every setting, every subset of its slots
(source x scope), distinct values per slot, every documented spelling, every backend that observes the setting.  Every lattice
point is pushed through the REAL diplomat-tool binary; the effective value is read back from the generated output only and
compared with a reference precedence function written from book/src/config.md.
"""
import itertools
import json
import os
import re
import subprocess
from collections import OrderedDict, defaultdict

from vlib.common import Reporter, build_tool, run_tool, workdir, pmap, MachineryError, sha

SOURCES = ("file", "cli", "attr")  # documented precedence, weakest first
UNSET = "<unset>"

# ---------------------------------------------------------------------------------------------
# fixed inputs

BRIDGE_MAIN = """#[diplomat::bridge]
mod ffi {
    #[diplomat::opaque]
    pub struct Op(u8);

    pub struct Pair {
        pub a: u8,
        pub b: u32,
    }

    impl Op {
        #[diplomat::attr(auto, constructor)]
        pub fn new() -> Box<Op> { Box::new(Op(0)) }
        pub fn take(&self, p: Pair) -> u32 { p.b }
        pub fn get(&self, write: &mut DiplomatWrite) { let _ = write; }
        #[diplomat::demo(generate)]
        pub fn get2(&self, write: &mut DiplomatWrite) { let _ = write; }
    }
}
"""

# callback whose parameter is a reference: accepted iff unsafe_references_in_callbacks is in effect
BRIDGE_CB = """#[diplomat::bridge]
mod ffi {
    #[diplomat::opaque]
    pub struct Op(u8);

    pub struct Holder {
        pub a: u8,
    }

    impl Holder {
        pub fn run(f: impl Fn(&Op) -> u8) -> u8 { let _ = f; 0 }
    }
}
"""

REF_MSG = "Callbacks cannot take references"
ALL7 = ["c", "cpp", "js", "dart", "kotlin", "nanobind", "demo_gen"]
# accepted non-canonical spellings of the CLI backend argument: the configuration keys stay those of the canonical name
CLI_ALIAS = {"py-nanobind": "nanobind"}
ALL8 = ALL7 + ["py-nanobind"]


def canon(b):
    return CLI_ALIAS.get(b, b)


def _other_backend(b):
    """a *different* backend whose scoped keys the tool knows about; where another backend's name is a prefix of this one's (or
    the other way round) it is that one: `c.key` must not reach cpp, `cpp.key` must not reach c"""
    return {"kotlin": "nanobind", "c": "cpp", "cpp": "c"}.get(canon(b), "kotlin")


# ---------------------------------------------------------------------------------------------
# observation helpers (outputs only)


def _panic(stderr):
    m = re.search(r"panicked at ([^:\n]+):\d+:\d+:\n([^\n]*)", stderr)
    if m:
        return "panic[%s]: %s" % (m.group(1), m.group(2).strip())
    if "panicked at" in stderr:
        return "panic[?]: " + stderr.strip().splitlines()[0][:160]
    return None


def _fail(p):
    """tool did not produce output: normalised reason"""
    pn = _panic(p.stderr)
    if pn:
        return pn
    if p.returncode != 0:
        lines = [l for l in p.stderr.strip().splitlines() if l.strip()]
        return "error(rc=%d): %s" % (p.returncode, lines[0][:200] if lines else "")
    return None


def _read(path):
    try:
        with open(path, errors="replace") as fh:
            return fh.read()
    except OSError:
        return None


def _find_lib_kt(out):
    root = os.path.join(out, "src", "main", "kotlin")
    hits = []
    for r, _, files in os.walk(root):
        if "Lib.kt" in files:
            hits.append(os.path.relpath(os.path.join(r, "Lib.kt"), root))
    return root, sorted(hits)


def _kotlin_parts(out):
    """(directory of Lib.kt relative to src/main/kotlin, package declared in Lib.kt, set of Native.load library names)"""
    root, hits = _find_lib_kt(out)
    if len(hits) != 1:
        raise MachineryError("UNDECIDED: expected exactly one Lib.kt under %s, found %r" % (root, hits))
    txt = _read(os.path.join(root, hits[0]))
    m = re.search(r"^package (.*?);?\s*$", txt, re.M)
    loads = sorted(set(re.findall(r'Native\.load\("(.*?)", libClass', txt)))
    if not m or not loads:
        raise MachineryError("UNDECIDED: Lib.kt without package line / Native.load: %s" % hits[0])
    return os.path.dirname(hits[0]), m.group(1), loads, txt


def obs_lib_name(backend, p, out):
    f = _fail(p)
    if f:
        return f
    backend = canon(backend)
    if backend == "kotlin":
        d, pkg, loads, _ = _kotlin_parts(out)
        a = d[len("dev/verif/"):] if d.startswith("dev/verif/") else "dir:" + d
        b = pkg[len("dev.verif."):] if pkg.startswith("dev.verif.") else "pkg:" + pkg
        if a == b and loads == [a]:
            return "lib=" + a
        return "lib=INCONSISTENT dir:%s pkg:%s load:%s" % (a, b, ",".join(loads))
    if backend == "nanobind":
        exts = sorted(f for f in os.listdir(out) if f.endswith("_ext.cpp"))
        if len(exts) != 1:
            raise MachineryError("UNDECIDED: nanobind output without exactly one *_ext.cpp: %r" % exts)
        a = exts[0][:-len("_ext.cpp")]
        m = re.search(r"^NB_MODULE\((.*), (.*)_mod\)\s*$", _read(os.path.join(out, exts[0])), re.M)
        if not m:
            raise MachineryError("UNDECIDED: no NB_MODULE line in %s" % exts[0])
        if m.group(1) == a and m.group(2) == a:
            return "lib=" + a
        return "lib=INCONSISTENT file:%s NB_MODULE:%s,%s" % (a, m.group(1), m.group(2))
    raise MachineryError("lib_name is not observable on " + backend)


def obs_domain(backend, p, out):
    f = _fail(p)
    if f:
        return f
    d, pkg, _, _ = _kotlin_parts(out)
    if not d.endswith("/auxlib") or not pkg.endswith(".auxlib"):
        raise MachineryError("UNDECIDED: kotlin output does not end in the auxiliary lib name: %s / %s" % (d, pkg))
    d, pkg = d[:-len("/auxlib")], pkg[:-len(".auxlib")]
    if pkg.replace(".", "/") == d:
        return "domain=" + pkg
    return "domain=INCONSISTENT dir:%s pkg:%s" % (d, pkg)


def obs_finalizers(backend, p, out):
    f = _fail(p)
    if f:
        return f
    _, _, _, txt = _kotlin_parts(out)
    return "finalizers=" + ("false" if "val CLEANER = java.lang.ref.Cleaner.create()" in txt else "true")


def obs_unsafe_refs(backend, p, out):
    pn = _panic(p.stderr)
    low = [l for l in p.stderr.splitlines() if l.startswith("Lowering error")]
    if any(REF_MSG in l for l in low):
        return "reject"
    if pn and not low:
        return pn
    rest = [l for l in low if "Callback arguments are not supported by this backend" not in l]
    if rest:
        raise MachineryError("UNDECIDED: unexpected lowering error: %s" % rest[0])
    if p.returncode == 0 or low:
        return "accept"
    return _fail(p)


def obs_abi(backend, p, out):
    f = _fail(p)
    if f:
        return f
    path = os.path.join(out, "Op.mjs") if backend == "js" else os.path.join(out, "js", "Op.mjs")
    txt = _read(path)
    if txt is None:
        return "abi=NO-JS-OUTPUT"
    leg = "wasm.Op_take(this.ffiValue, ...Pair." in txt
    spec = "wasm.Op_take(this.ffiValue, Pair." in txt
    if leg == spec:
        raise MachineryError("UNDECIDED: cannot tell the wasm ABI from %s" % path)
    return "abi=" + ("legacy" if leg else "spec")


def obs_demo_import(backend, p, out):
    f = _fail(p)
    if f:
        return f
    txt = _read(os.path.join(out, "Op.mjs")) or ""
    m = re.search(r'^import \{ Op \} from "(.*)"\s*$', txt, re.M)
    if not m:
        raise MachineryError("UNDECIDED: no import line in demo_gen Op.mjs")
    return "import=%s;jsdir=%d" % (m.group(1), os.path.isdir(os.path.join(out, "js")))


def obs_demo_explicit(backend, p, out):
    f = _fail(p)
    if f:
        return f
    txt = _read(os.path.join(out, "index.mjs")) or ""
    if '"Op.get2"' not in txt:
        raise MachineryError("UNDECIDED: demo_gen index.mjs lacks the explicitly requested terminus")
    return "explicit=" + ("false" if '"Op.get"' in txt else "true")


def obs_demo_hide(backend, p, out):
    f = _fail(p)
    if f:
        return f
    return "hide=" + ("false" if os.path.isdir(os.path.join(out, "rendering")) else "true")


def _b(v):
    return "true" if v else "false"


# ---------------------------------------------------------------------------------------------
# settings


class Setting:
    def __init__(self, name, kind, shared, backends, bridge, observe, model, values=None, domain=None, aux=None,
                 file_spellings=("snake", "kebab"), placements=("struct", "impl", "mod", "stacked")):
        self.name, self.kind, self.shared, self.backends, self.bridge = name, kind, shared, backends, bridge
        self.key_name = name.split("+")[0]    # "a.b+note" = a second lattice over the key a.b under other side conditions
        self.observe, self.model, self.values, self.domain = observe, model, values, domain
        self.aux = aux or (lambda b: [])
        self.file_spellings = file_spellings
        self.placements = placements
        self.scopes = ("shared", "this", "other") if shared else ("own",)
        self.attr_spellings = ("lit",) if kind == "bool" else ("quoted", "bare")

    def slots(self):
        return [(src, sc) for sc in self.scopes for src in SOURCES]

    def key(self, backend, scope):
        if scope in ("shared", "own"):
            return self.key_name
        return (canon(backend) if scope == "this" else _other_backend(backend)) + "." + self.key_name


def _aux_lib(b):
    return {"kotlin": ["lib_name=auxlib", "kotlin.domain=dev.verif"], "nanobind": ["lib_name=auxlib"]}.get(canon(b), [])


DEMO_SPELLINGS = ("snake", "kebab", "table-snake/key-kebab", "table-kebab/key-snake")

SETTINGS = OrderedDict((s.name, s) for s in [
    Setting("lib_name", "str", True, ["kotlin", "nanobind", "py-nanobind"], BRIDGE_MAIN, obs_lib_name, lambda b, v: "lib=" + v,
            values=lambda src, sc, asp: "lib" + src[0] + sc[0],
            aux=lambda b: ["kotlin.domain=dev.verif"] if canon(b) == "kotlin" else [], placements=("struct", "stacked")),
    Setting("kotlin.domain", "str", False, ["kotlin"], BRIDGE_MAIN, obs_domain, lambda b, v: "domain=" + v,
            values=lambda src, sc, asp: "dattr" if (src == "attr" and asp == "bare") else "org.d" + src,
            aux=lambda b: ["lib_name=auxlib"]),
    Setting("js.abi", "enum", False, ["js", "demo_gen"], BRIDGE_MAIN, obs_abi, lambda b, v: "abi=" + v,
            domain=("legacy", "spec")),
    Setting("kotlin.use_finalizers_not_cleaners", "bool", False, ["kotlin"], BRIDGE_MAIN, obs_finalizers,
            lambda b, v: "finalizers=" + _b(v), domain=(False, True), aux=_aux_lib),
    Setting("demo_gen.module_name", "str", False, ["demo_gen"], BRIDGE_MAIN, obs_demo_import,
            lambda b, v: "import=%s;jsdir=0" % v, values=lambda src, sc, asp: "mod" + src, file_spellings=DEMO_SPELLINGS),
    Setting("demo_gen.relative_js_path", "str", False, ["demo_gen"], BRIDGE_MAIN, obs_demo_import,
            lambda b, v: "import=%sindex.mjs;jsdir=0" % v,
            values=lambda src, sc, asp: "relattr" if (src == "attr" and asp == "bare") else "../rel%s/" % src,
            file_spellings=DEMO_SPELLINGS),
    # the same key while a module name is given too (first --config value): the import is <relative_js_path><module_name>, whichever
    # source either of them comes from
    Setting("demo_gen.relative_js_path+module_name", "str", False, ["demo_gen"], BRIDGE_MAIN, obs_demo_import,
            lambda b, v: "import=%sauxmod.mjs;jsdir=0" % v,
            values=lambda src, sc, asp: "relattr" if (src == "attr" and asp == "bare") else "../rel%s/" % src,
            aux=lambda b: ["demo_gen.module_name=auxmod.mjs"], file_spellings=("snake",), placements=("struct",)),
    Setting("demo_gen.explicit_generation", "bool", False, ["demo_gen"], BRIDGE_MAIN, obs_demo_explicit,
            lambda b, v: "explicit=" + _b(v), domain=(False, True), file_spellings=DEMO_SPELLINGS),
    Setting("demo_gen.hide_default_renderer", "bool", False, ["demo_gen"], BRIDGE_MAIN, obs_demo_hide,
            lambda b, v: "hide=" + _b(v), domain=(False, True), file_spellings=DEMO_SPELLINGS),
    Setting("unsafe_references_in_callbacks", "bool", True, ALL8, BRIDGE_CB, obs_unsafe_refs,
            lambda b, v: "accept" if v else "reject", domain=(False, True), aux=_aux_lib, placements=("struct", "stacked")),
])

QUICK = ["lib_name", "kotlin.domain", "js.abi", "kotlin.use_finalizers_not_cleaners", "demo_gen.module_name",
         "demo_gen.relative_js_path", "demo_gen.relative_js_path+module_name", "demo_gen.explicit_generation", "demo_gen.hide_default_renderer", "unsafe_references_in_callbacks"]


# ---------------------------------------------------------------------------------------------
# the reference model (book/src/config.md): scoped key for this language beats the shared key; then attr > cli > file;
# keys scoped to another language never apply.


def reference_effective(assign):
    """assign: {(source, scope): value} of the slots that are present -> (winning slot | None, effective value | UNSET)"""
    for scope in ("this", "own", "shared"):
        for src in reversed(SOURCES):
            if (src, scope) in assign:
                return (src, scope), assign[(src, scope)]
    return None, UNSET


# ---------------------------------------------------------------------------------------------
# lattice enumeration


def _subsets(xs):
    for n in range(len(xs) + 1):
        for c in itertools.combinations(xs, n):
            yield c


QUICK_MAX_PRESENT = {"unsafe_references_in_callbacks": 3}   # quick tier: lattice points with at most this many slots present


def enumerate_cases(setting, tier):
    """every lattice point of one setting (all backends); pure function of (setting, tier)"""
    s = setting
    out = []
    cap = QUICK_MAX_PRESENT.get(s.name) if tier == "quick" else None
    for backend in s.backends:
        for present in _subsets(s.slots()):
            if cap is not None and len(present) > cap:
                continue
            has = {src: [sl for sl in present if sl[0] == src] for src in SOURCES}
            fsps = s.file_spellings if has["file"] else (None,)
            asps = s.attr_spellings if has["attr"] else (None,)
            pls = s.placements if has["attr"] else (None,)
            revs = (False, True) if (tier == "thorough" and (len(has["cli"]) > 1 or len(has["attr"]) > 1)) else (False,)
            for asp in asps:
                if s.kind == "str":
                    assigns = [{sl: s.values(sl[0], sl[1], asp) for sl in present}]
                else:
                    # two-valued domain: the reference winner gets X, every other present slot the other value (any
                    # implementation that lets a different present slot, or none, decide is exposed for one of the X)
                    w, _ = reference_effective({sl: None for sl in present})
                    assigns = []
                    for x in (s.domain if present else s.domain[:1]):
                        o = [v for v in s.domain if v != x][0]
                        assigns.append({sl: (x if (w is None or sl == w) else o) for sl in present})
                for assign in assigns:
                    for fsp in fsps:
                        for pl in pls:
                            for rev in revs:
                                out.append({"setting": s.name, "backend": backend, "assign": assign, "fsp": fsp, "asp": asp,
                                            "placement": pl, "rev": rev})
    return out


def _spell(seg, kebab):
    return seg.replace("_", "-") if kebab else seg


def _toml_val(v):
    return _b(v) if isinstance(v, bool) else json.dumps(v)


def materialize(case):
    """-> (entry source text, config.toml text | None, list of --config values incl. auxiliary ones)"""
    s = SETTINGS[case["setting"]]
    b = case["backend"]
    order = list(case["assign"])
    if case["rev"]:
        order.reverse()
    # file
    fsp = case["fsp"]
    tk = fsp in ("kebab", "table-kebab/key-snake")
    kk = fsp in ("kebab", "table-snake/key-kebab")
    top, tables = [], OrderedDict()
    for sl in order:
        if sl[0] != "file":
            continue
        parts = s.key(b, sl[1]).split(".")
        v = _toml_val(case["assign"][sl])
        if len(parts) == 1:
            top.append("%s = %s" % (_spell(parts[0], kk), v))
        else:
            tables.setdefault(_spell(parts[0], tk), []).append("%s = %s" % (_spell(parts[1], kk), v))
    ftxt = None
    if top or tables:
        ftxt = "".join(l + "\n" for l in top)
        for t, ls in tables.items():
            ftxt += "\n[%s]\n" % t + "".join(l + "\n" for l in ls)
        if tk:
            # (in the kebab-spelled variant of every file) tables of other tools sharing the file (book/src/config.md shows one): they are skipped, wherever their names sort
            ftxt += "\n[a0-other-tool]\nlib-name = \"foreign\"\nverbose = true\n\n[zz-other-tool]\nunsafe-references-in-callbacks = \"maybe\"\n"
    # cli
    cli = list(s.aux(b))
    for sl in order:
        if sl[0] == "cli":
            v = case["assign"][sl]
            cli.append("%s=%s" % (s.key(b, sl[1]), _b(v) if isinstance(v, bool) else v))
    # attr
    pre = ""
    i = 0
    stacked = []
    for sl in order:
        if sl[0] != "attr":
            continue
        v = case["assign"][sl]
        vs = _b(v) if isinstance(v, bool) else ('"%s"' % v if case["asp"] == "quoted" else v)
        a = "#[diplomat::config(%s = %s)]\n" % (s.key(b, sl[1]), vs)
        if case["placement"] == "stacked":
            stacked.append(a)
        elif case["placement"] == "struct":
            pre += a + "pub struct VerifCfg%d;\n\n" % i
        elif case["placement"] == "impl":
            pre += "pub struct VerifCfg%d;\n\n" % i + a + "impl VerifCfg%d {}\n\n" % i
        else:
            pre += a + "mod verif_cfg%d {}\n\n" % i
        i += 1
    if stacked:
        # every attribute of this case on ONE item, behind an unrelated config attribute that is written first
        # (a key that cannot influence what is observed for this setting / backend)
        if s.name.startswith("kotlin.") or canon(b) == "kotlin":
            lead = '#[diplomat::config(demo_gen.module_name = "stackaux")]\n'
        else:
            lead = '#[diplomat::config(kotlin.domain = "dev.stack")]\n'
        pre += lead + "".join(stacked) + "pub struct VerifCfgStack;\n\n"
    return pre + s.bridge, ftxt, cli


def _rank(seq, x):
    return seq.index(x) if x in seq else -1


def _slot_descr(s, case, sl):
    k = s.kind
    if sl[0] == "attr" and k != "bool":
        k += ":" + case["asp"]
    return "%s.%s(%s)" % (sl[0], sl[1], k)


def _sig(s, case, slots=None):
    """signature of a lattice point for the sub-case relation (values and order ignored)"""
    slots = list(case["assign"]) if slots is None else slots
    return (case["setting"], case["backend"], frozenset(_slot_descr(s, case, sl) for sl in slots),
            case["fsp"] if any(sl[0] == "file" for sl in slots) else None,
            case["placement"] if any(sl[0] == "attr" for sl in slots) else None)


# ---------------------------------------------------------------------------------------------
# execution


class Runner:
    def __init__(self, wd):
        self.wd = wd
        self.n = 0
        self.cache = {}

    def execute(self, items):
        """items: list of (setting name, backend, entry, ftxt, cli); runs every distinct one once; returns list of results"""
        todo = OrderedDict()
        for it in items:
            k = sha(json.dumps(it, sort_keys=True))
            if k not in self.cache and k not in todo:
                todo[k] = it
        base = self.n
        self.n += len(todo)
        res = pmap(lambda ki: self._one(base + ki[0], ki[1][1]), list(enumerate(todo.items())))
        for (k, _), r in zip(todo.items(), res):
            self.cache[k] = r
        return [self.cache[sha(json.dumps(it, sort_keys=True))] for it in items]

    def _one(self, idx, it, keep=False):
        name, backend, entry, ftxt, cli = it
        d = os.path.join(self.wd, "%06d" % idx)
        os.makedirs(d)
        ep = os.path.join(d, "lib.rs")
        with open(ep, "w") as fh:
            fh.write(entry)
        cf = None
        if ftxt is not None:
            cf = os.path.join(d, "config.toml")
            with open(cf, "w") as fh:
                fh.write(ftxt)
        out = os.path.join(d, "out")
        p = run_tool(backend, ep, out, config_file=cf, configs=cli, cwd=d, timeout=60)
        if p.returncode == -999:
            raise MachineryError("diplomat-tool timed out on %s" % d)
        obs = SETTINGS[name].observe(backend, p, out)
        if not keep:
            _rm(d, out)
        return {"obs": obs, "rc": p.returncode, "stderr": "\n".join(
            l for l in p.stderr.splitlines() if not re.match(r"^\s+(\d+:|at )|^stack backtrace|^note: ", l))[-1200:]}

    def rerun(self, items):
        """unconditional second execution (determinism guard); results are not cached"""
        base = self.n
        self.n += len(items)
        return pmap(lambda ii: self._one(base + ii[0], ii[1]), list(enumerate(items)))


def _rm(d, out):
    """delete one scratch dir; big output trees through rm(1) so that the worker threads do not serialise on the GIL"""
    if os.path.isdir(out):
        subprocess.run(["rm", "-rf", d])
    else:
        for f in os.listdir(d):
            os.unlink(os.path.join(d, f))
        os.rmdir(d)


def _show(v):
    return _b(v) if isinstance(v, bool) else v


def _repro(case_item):
    name, backend, entry, ftxt, cli = case_item
    lines = ["mkdir -p /var/tmp/c17-repro && cd /var/tmp/c17-repro && rm -rf out",
             "cat > lib.rs <<'EOF'\n%sEOF" % entry]
    if ftxt is not None:
        lines.append("cat > config.toml <<'EOF'\n%sEOF" % ftxt)
    lines.append("diplomat-tool %s out --entry lib.rs --config-file %s -s %s" % (
        backend, "config.toml" if ftxt is not None else "/nonexistent.toml",
        " ".join("--config '%s'" % c for c in cli)))
    return lines


def _symptom(s, case, obs, baseline):
    b = case["backend"]
    w, eff = reference_effective(case["assign"])
    if w is not None and obs == baseline:
        return "value ignored (behaves as if unset)"
    if obs.startswith("panic"):
        return obs
    if w is not None and s.kind != "bool" and obs == s.model(b, '"%s"' % eff):
        return "value keeps its quote characters"
    if s.kind == "str":
        for sl, v in sorted(case["assign"].items()):
            if sl != w and obs == s.model(b, v):
                return "precedence: %s wins over %s" % (_slot_descr(s, case, sl), _slot_descr(s, case, w) if w else "nothing for this backend")
    if w is None:
        return "a key scoped to another backend changed the output"
    if s.kind == "str":
        return "unexpected value"
    return "observed %s" % obs


UNSPECIFIED = [
    # (label, setting used as observer, backend, attr lines, config.toml, cli)  -- recorded, never judged
    ("cli value with literal quote characters in argv: --config 'lib_name=\"qlib\"'", "lib_name", "nanobind", "", None, ['lib_name="qlib"']),
    ("cli 'key = value' with spaces in one argv element", "lib_name", "nanobind", "", None, ["lib_name = blib"]),
    ("cli kebab-case key: --config lib-name=klib", "lib_name", "nanobind", "", None, ["lib-name=klib"]),
    ("attr bare dotted value: #[diplomat::config(kotlin.domain = org.bare)]", "kotlin.domain", "kotlin",
     "#[diplomat::config(kotlin.domain = org.bare)]\npub struct C;\n", None, ["lib_name=auxlib"]),
    ("CamelCase key in the file: LibName = \"camel\"", "lib_name", "nanobind", "", 'LibName = "camel"\n', []),
    ("backend alias py-nanobind with scoped key nanobind.lib_name", "lib_name", "py-nanobind", "", None, ["nanobind.lib_name=alias"]),
    ("backend alias py-nanobind with shared key lib_name", "lib_name", "py-nanobind", "", None, ["lib_name=alias"]),
    ("unknown js.abi value: --config js.abi=other", "js.abi", "js", "", None, ["js.abi=other"]),
    ("two attributes for the same key (first a, then b)", "lib_name", "nanobind",
     "#[diplomat::config(lib_name = a)]\npub struct C0;\n#[diplomat::config(lib_name = b)]\npub struct C1;\n", None, []),
    ("several key/value pairs in one attribute", "lib_name", "nanobind",
     "#[diplomat::config(lib_name = a, nanobind.lib_name = b)]\npub struct C0;\n", None, []),
    ("dotted key at top level of the file: kotlin.lib_name = \"dotted\"", "lib_name", "kotlin", "",
     'kotlin.lib_name = "dotted"\n', ["kotlin.domain=dev.verif"]),
]


def _run_unspecified(runner):
    items = []
    for label, name, backend, attrs, ftxt, cli in UNSPECIFIED:
        items.append((name, backend, attrs + SETTINGS[name].bridge, ftxt, cli))

    def one(ii):
        i, it = ii
        name, backend = it[0], it[1]
        real = "nanobind" if backend == "py-nanobind" else backend
        d = os.path.join(runner.wd, "u%03d" % i)
        os.makedirs(d)
        ep = os.path.join(d, "lib.rs")
        open(ep, "w").write(it[2])
        cf = None
        if it[3] is not None:
            cf = os.path.join(d, "config.toml")
            open(cf, "w").write(it[3])
        p = run_tool(backend, ep, os.path.join(d, "out"), config_file=cf, configs=it[4], cwd=d, timeout=60)
        try:
            o = SETTINGS[name].observe(real, p, os.path.join(d, "out"))
        except MachineryError as e:
            o = str(e)
        subprocess.run(["rm", "-rf", d])
        return o
    obs = pmap(one, list(enumerate(items)))
    return [{"spelling": u[0], "backend": u[2], "observed": o} for u, o in zip(UNSPECIFIED, obs)]


def run(tier):
    rep = Reporter("C17", tier, "model_checking")
    build_tool()
    wd = workdir("C17")
    runner = Runner(wd)
    names = list(SETTINGS) if tier == "thorough" else QUICK

    all_cases, per_setting = [], OrderedDict()
    for n in names:
        cs = enumerate_cases(SETTINGS[n], tier)
        per_setting[n] = {"lattice_points": len(cs)}
        all_cases += cs
    items = []
    for c in all_cases:
        e, f, cli = materialize(c)
        c["item"] = (c["setting"], c["backend"], e, f, cli)
        items.append(c["item"])
    results = runner.execute(items)
    states = len(runner.cache)
    print("C17 %s: lattice points=%d, distinct concrete inputs executed=%d (identical inputs of different spellings merged=%d)" % (
        tier, len(all_cases), states, len(all_cases) - states))

    # baselines: what the tool does when no source mentions the setting
    baseline = {}
    for c, r in zip(all_cases, results):
        if not c["assign"]:
            baseline[(c["setting"], c["backend"])] = r["obs"]
    # judge
    fails, judged, nontrivial = [], 0, 0
    outcomes = set()
    for c, r in zip(all_cases, results):
        s = SETTINGS[c["setting"]]
        c["obs"] = r["obs"]
        outcomes.add((c["setting"], r["obs"]))
        if not c["assign"]:
            continue
        w, eff = reference_effective(c["assign"])
        c["winner"] = w
        c["expected"] = baseline[(c["setting"], c["backend"])] if eff is UNSET else s.model(c["backend"], eff)
        judged += 1
        if len(c["assign"]) > 1:
            nontrivial += 1
        if r["obs"] != c["expected"]:
            c["stderr"] = r["stderr"]
            fails.append(c)
    per = defaultdict(lambda: [0, 0])
    for c in all_cases:
        if c["assign"]:
            per[c["setting"]][0] += 1
            per[c["setting"]][1] += c["obs"] != c["expected"]
    for n in names:
        per_setting[n].update({"judged": per[n][0], "disagree_with_reference": per[n][1], "backends": SETTINGS[n].backends,
                               "slots": ["%s.%s" % sl for sl in SETTINGS[n].slots()]})

    # determinism: every failing input once more
    uniq = OrderedDict((sha(json.dumps(c["item"], sort_keys=True)), c) for c in fails)
    again = runner.rerun([c["item"] for c in uniq.values()])
    flaky = OrderedDict()
    for (k, c), r in zip(uniq.items(), again):
        if r["obs"] != c["obs"]:
            flaky[k] = {"backend": c["backend"], "config_toml": c["item"][3], "cli": c["item"][4],
                        "attrs": c["item"][2].split("#[diplomat::bridge]")[0], "first": c["obs"], "second": r["obs"]}
    if flaky:
        # not reported as violations (protocol: only identically failing cases are); if nothing else fails the run is exit 2
        print("C17: %d failing inputs did not fail identically when re-run; not reported as violations" % len(flaky))
        fails = [c for c in fails if sha(json.dumps(c["item"], sort_keys=True)) not in flaky]

    # minimal failing lattice points (no proper sub-assignment with the same spellings fails)
    failing_sigs = set(_sig(SETTINGS[c["setting"]], c) for c in fails)
    groups = defaultdict(list)
    explained = 0
    for c in fails:
        s = SETTINGS[c["setting"]]
        slots = list(c["assign"])
        sub_fails = any(_sig(s, c, list(sub)) in failing_sigs
                        for n in range(1, len(slots)) for sub in itertools.combinations(slots, n))
        sym = _symptom(s, c, c["obs"], baseline[(c["setting"], c["backend"])])
        c["symptom"] = sym
        if sub_fails and not sym.startswith("precedence:"):
            explained += 1
            continue
        # a precedence inversion is identified by the pair (who won, who should have) alone, whatever else is present
        descr = "*" if sym.startswith("precedence:") else "+".join(sorted(_slot_descr(s, c, sl) for sl in slots))
        groups[(c["setting"], descr, sym)].append(c)

    enumerated_fsp = {n: set(c["fsp"] for c in all_cases if c["setting"] == n and c["fsp"]) for n in names}
    enumerated_pl = {n: set(c["placement"] for c in all_cases if c["setting"] == n and c["placement"]) for n in names}
    summary = []
    for (name, descr, sym), cs in sorted(groups.items()):
        backs = sorted(set(c["backend"] for c in cs))
        key = "C17|%s|%s|%s|backends=%s" % (name, descr, sym, ",".join(backs))
        fs = set(c["fsp"] for c in cs if c["fsp"])
        if fs and fs != enumerated_fsp[name]:
            key += "|file-spelling=" + ",".join(sorted(fs))
        ps = set(c["placement"] for c in cs if c["placement"])
        if ps and ps != enumerated_pl[name]:
            key += "|attr-on=" + ",".join(sorted(ps))
        s_ = SETTINGS[name]
        cs.sort(key=lambda c: (len(c["assign"]), ALL8.index(c["backend"]), c["rev"], _rank(s_.file_spellings, c["fsp"]),
                               _rank(s_.placements, c["placement"]),
                               json.dumps(sorted((k, str(v)) for k, v in c["assign"].items()))))
        c = cs[0]
        s = SETTINGS[name]
        witness = {
            "setting": name, "backend": c["backend"],
            "assignment": [{"source": sl[0], "scope": sl[1], "key": s.key(c["backend"], sl[1]), "value": v}
                           for sl, v in c["assign"].items()],
            "file_spelling": c["fsp"], "attr_spelling": c["asp"], "attr_on": c["placement"], "reversed_order": c["rev"],
            "reference_winner": "%s.%s" % c["winner"] if c["winner"] else None,
            "expected": c["expected"], "observed": c["obs"], "stderr": c.get("stderr", ""),
            "entry_rs": c["item"][2], "config_toml": c["item"][3], "cli": c["item"][4],
            "baseline": {"cli": list(s.aux(c["backend"])), "entry_rs": s.bridge},
            "repro": _repro(c["item"]),
            "minimal_failing_points_with_this_key": len(cs),
        }
        what = "%s on %s: %s -> expected %s, observed %s" % (
            name, c["backend"], ", ".join("%s %s=%s" % (a["source"], a["key"], _show(a["value"])) for a in witness["assignment"]),
            c["expected"], c["obs"])
        rep.violation(key, witness, what)
        summary.append({"key": key, "minimal_points": len(cs), "example": what})

    if flaky and not rep.violations:
        raise MachineryError("non-deterministic outcomes only, e.g. %s" % json.dumps(list(flaky.values())[0]))

    unspecified = _run_unspecified(runner)

    samples = []
    picks = [c for c in all_cases if len(c["assign"]) >= 2 and c["obs"] == c.get("expected")]
    step = max(1, len(picks) // 6)
    for c in picks[::step][:6] + fails[:2]:
        samples.append({"setting": c["setting"], "backend": c["backend"],
                        "assignment": {"%s.%s" % sl: v for sl, v in c["assign"].items()},
                        "file": c["item"][3], "cli": c["item"][4], "attrs": c["item"][2].split("#[diplomat::bridge]")[0],
                        "reference_winner": "%s.%s" % c["winner"] if c["winner"] else None,
                        "expected": c["expected"], "observed": c["obs"]})
    transitions = runner.n + len(UNSPECIFIED)
    cov = {
        "states": states,
        "transitions": transitions,
        "traces_validated_against_impl": judged,
        "evaluations": judged,
        "distinct_nontrivial": nontrivial,
        "rule": "state = one concrete configuration assignment (backend, entry source with its #[diplomat::config] attributes, "
                "config.toml text, --config list); a transition is one execution of the real diplomat-tool binary on it; every "
                "judged lattice point compares the observation with reference_effective(); non-trivial = at least two slots "
                "present, so that precedence or scoping decides the outcome; lattice points whose concrete inputs coincide "
                "(kebab == snake when the key has no underscore) are executed once",
        "exhaustive": True,
        "distinct_outcomes": len(outcomes),
        "lattice_points": len(all_cases),
        "failing_points": len(fails),
        "failing_points_explained_by_a_smaller_failing_point": explained,
        "failing_inputs_rerun_identically": len(uniq) - len(flaky),
        "failing_inputs_not_reproduced_identically": list(flaky.values())[:5],
        "bound": {"settings": per_setting, "sources": list(SOURCES),
                  "scopes": "shared key / key scoped to this backend / key scoped to another backend (kotlin, or nanobind for kotlin), all 2^9 "
                            "subsets for lib_name and unsafe_references_in_callbacks; all 2^3 subsets for backend-specific keys",
                  "values": "strings: pairwise distinct per slot; two-valued settings: reference winner = X, all others = not X, both X",
                  "file_spellings": "snake_case, kebab-case (tables and keys); for [demo_gen] also the two mixed forms",
                  "attr_spellings": "strings quoted (book/src/config.md) and bare identifier (feature_tests/src/lib.rs); booleans literal",
                  "cli_spelling": "key=value as one argv element, no quote characters (what a shell passes for book's lib_name=\"MyLibrary\")",
                  "attr_placement": "struct / impl / inline mod for backend-specific keys, struct for the 9-slot lattices",
                  "order": "thorough: the --config list and the attribute list also reversed when a source holds more than one slot"},
        "violations_summary": summary,
        "unspecified_spellings_recorded_not_judged": unspecified,
        "samples": samples,
    }
    subprocess.run(["rm", "-rf", wd])
    return rep.finish(cov, [
        "documented spellings only are judged: TOML literals in the file, bare key=value on the command line, quoted string / bare identifier / "
        "boolean literal in #[diplomat::config]; other spellings are executed and recorded under unspecified_spellings_recorded_not_judged",
        "the effective value is read from generated output only (Kotlin package dir + package line + Native.load, nanobind *_ext.cpp + NB_MODULE, "
        "JS call shape of Op.take(Pair), lowering error text for a callback taking &Op, demo_gen import line / termini / rendering dir)",
        "the outcome for 'no source sets the key' is measured on the tool (empty assignment) and not judged; defaults are outside C17",
        "auxiliary required keys (kotlin.domain, lib_name for backends that need them) are passed with --config and are never the key under test",
        "two-valued settings cannot take pairwise distinct values on up to 9 slots; winner-vs-rest assignments are used instead (see bound.values)",
    ])


def replay(path):
    w = json.load(open(path))["witness"]
    build_tool()
    wd = workdir("C17-replay")
    runner = Runner(wd)
    s = SETTINGS[w["setting"]]
    r = runner._one(0, (w["setting"], w["backend"], w["entry_rs"], w["config_toml"], w["cli"]))
    expected = w["expected"]
    if w["reference_winner"] is None:
        expected = runner._one(1, (w["setting"], w["backend"], w["baseline"]["entry_rs"], None, w["baseline"]["cli"]))["obs"]
    print("setting   : %s   backend: %s" % (w["setting"], w["backend"]))
    for a in w["assignment"]:
        print("  %-5s %s = %r" % (a["source"], a["key"], a["value"]))
    print("repro:\n  " + "\n  ".join(w["repro"]))
    print("expected  : %s   (reference winner: %s)" % (expected, w["reference_winner"]))
    print("observed  : %s" % r["obs"])
    if r["stderr"].strip():
        print("stderr    : " + r["stderr"].strip().replace("\n", "\n            "))
    subprocess.run(["rm", "-rf", wd])
    bad = r["obs"] != expected
    print("STILL FAILING" if bad else "no longer failing")
    return 1 if bad else 0
