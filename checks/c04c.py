"""C04 nested-struct half: a struct that holds a field of a borrowing struct type forwards its own lifetimes to the slots of the
inner struct.  For every instantiation of the inner slots with the outer struct's lifetimes (the same lifetime may feed several
slots; 'static in the in-process part) this judges

  (1) StructBorrowInfo::compute_for_struct_field (what Dart and JS build their struct code from) against the reference
      {inner definition slot i -> the outer lifetime written at slot i};
  (2) the generated Dart struct: `_fieldsForLifetime<L>` must list every inner slot fed by L (and the direct fields of L), and
      `_toFfi` must hand L's append arrays to every such slot;
  (3) the generated JS struct: the `_fieldsForLifetime<L>` getters are *executed* under Node on real instances and must return
      exactly the objects held by the inner fields of the slots fed by L; `_intoFFI` / `_writeToArrayBuffer` must forward L's
      append arrays to those slots.
"""
import itertools
import json
import os
import re
import shutil
import subprocess

from vlib.common import build_harness, run_tool, workdir, MachineryError, read_tree, default_configs, REPO

# inner struct definitions: name -> (definition lifetimes, [(field, kind, slot index)])
INNERS = {
    "In1": (("x",), [("p", "op", 0)]),
    "In2": (("x", "y"), [("p", "op", 0), ("q", "op", 1)]),
    "InS2": (("x", "y"), [("s", "slice", 0), ("t", "str16", 1), ("n", "u8", None)]),
    "In3": (("x", "y", "z"), [("p", "op", 0), ("s", "slice", 1), ("q", "op", 2)]),
    # a reference to an opaque that has a lifetime parameter of its own: the field lives in both slots
    "InR": (("x", "y"), [("r", "oplref", (0, 1)), ("n", "u8", None)]),
}
FIELD_TY = {"op": "&'%s Op", "slice": "DiplomatSlice<'%s, u8>", "str16": "DiplomatStr16Slice<'%s>", "u8": "u8", "oplref": "&'%s OpL<'%s>"}


def _slots(i):
    return () if i is None else (i if isinstance(i, tuple) else (i,))
OUTER_LTS = ("a", "b")


def inner_decl(name):
    lts, fields = INNERS[name]
    fs = ", ".join("pub %s: %s" % (f, (FIELD_TY[k] % tuple(lts[j] for j in _slots(i))) if i is not None else FIELD_TY[k]) for f, k, i in fields)
    return "    pub struct %s<%s> { %s }" % (name, ", ".join("'" + l for l in lts), fs)


class Outer:
    """struct Ou<k><used lifetimes> { inner: In<sigma>, [o: &'delta Op,] n: u8 }   (opt: the inner field is a DiplomatOption)"""

    def __init__(self, k, inner, sigma, delta, opt=False):
        self.k, self.inner, self.sigma, self.delta, self.opt = k, inner, tuple(sigma), delta, opt
        self.name = "Ou%d" % k
        used = [l for l in OUTER_LTS if l in self.sigma or l == delta]
        self.lts = tuple(used)

    def decl(self):
        args = ", ".join("'" + s for s in self.sigma)
        ity = "%s<%s>" % (self.inner, args)
        if self.opt:
            ity = "DiplomatOption<%s>" % ity
        fs = ["pub inner: %s" % ity]
        if self.delta:
            fs.append("pub o: &'%s Op" % self.delta)
        fs.append("pub n: u8")
        gen = "<%s>" % ", ".join("'" + l for l in self.lts) if self.lts else ""
        return "    pub struct %s%s { %s }" % (self.name, gen, ", ".join(fs))

    def text(self):
        return self.decl().strip()

    # ---- reference
    def field_map(self):
        """{inner slot: [outer lifetime]} for the non-static slots; None when every slot is 'static"""
        lts = INNERS[self.inner][0]
        m = {lts[i]: [s] for i, s in enumerate(self.sigma) if s != "static"}
        return m or None

    def slots_of(self, L):
        lts = INNERS[self.inner][0]
        return {lts[i] for i, s in enumerate(self.sigma) if s == L}

    def labels_of(self, L):
        """identities `_fieldsForLifetime<L>` must return: inner fields living in a slot fed by L, plus the direct field"""
        lts, fields = INNERS[self.inner]
        out = {"inner." + f for f, k, i in fields if any(self.sigma[j] == L for j in _slots(i))}
        if self.delta == L:
            out.add("o")
        return out

    def slot_has_slice(self, i):
        """only slots that hold slice fields need an arena tied to the borrowing lifetime"""
        return any(k in ("slice", "str16") and i in _slots(j) for _f, k, j in INNERS[self.inner][1])

    def shape(self):
        same = len(set(self.sigma)) < len(self.sigma)
        return "%s|%s|%s%s" % (self.inner, "repeated-lifetime" if same else "distinct", "direct" if self.delta else "nodirect", "|optional" if self.opt else "")


def outers(tier, with_static):
    out = []
    k = 0
    dom = OUTER_LTS + (("static",) if with_static else ())
    for inner, (lts, _f) in INNERS.items():
        for sigma in itertools.product(dom, repeat=len(lts)):
            for delta in (None,) + OUTER_LTS:
                if tier == "quick" and delta == "b" and "b" not in sigma:
                    continue
                k += 1
                out.append(Outer(k, inner, sigma, delta))
    if not with_static:
        for inner in ("In2", "InS2"):
            for sigma in itertools.product(OUTER_LTS, repeat=2):
                k += 1
                out.append(Outer(k, inner, sigma, "a", opt=True))
    return out


def program(os_):
    L = ["#[diplomat::bridge]", "mod ffi {", "    #[diplomat::opaque]", "    pub struct Op(u8);", "    #[diplomat::opaque]", "    pub struct OpL<'a>(&'a u8);"]
    L += [inner_decl(n) for n in INNERS]
    L += [o.decl() for o in os_]
    # one method per outer struct so that every backend has to generate it as a parameter type
    L.append("    impl Op {")
    for o in os_:
        gen = "<%s>" % ", ".join("'" + l for l in o.lts) if o.lts else ""
        L.append("        pub fn f%d%s(x: %s%s) -> u8 { 0 }" % (o.k, gen, o.name, gen))
    L.append("    }")
    L.append("}")
    return "\n".join(L) + "\n"


# ------------------------------------------------------------------------------------------------
# (1) in-process


def inprocess(rep, tier, wd):
    hirx = os.path.join(build_harness("hirx"), "hirx")
    os_ = outers(tier, with_static=True)
    inp, outp = os.path.join(wd, "nf.in"), os.path.join(wd, "nf.out")
    with open(inp, "w") as fh:
        fh.write(json.dumps({"id": 0, "src": program(os_)}) + "\n")
    p = subprocess.run([hirx, "borrow", inp, outp], stdout=subprocess.PIPE, stderr=subprocess.PIPE, text=True)
    if p.returncode != 0:
        raise MachineryError("hirx failed: " + p.stderr[-2000:])
    r = json.loads(open(outp).readline())
    if r["status"] != "ok":
        raise MachineryError("nested-struct program not accepted by the lowering gate: %s" % json.dumps(r)[:600])
    fm = r["methods"].get("$field_maps")
    if fm is None:
        raise MachineryError("hirx did not dump $field_maps")
    n = nontrivial = 0
    for o in os_:
        n += 1
        got = (fm.get(o.name) or {}).get("inner", "missing")
        want = o.field_map()
        if want:
            nontrivial += 1
        if isinstance(got, dict) and "panic" in got:
            rep.violation("C04|nested-field-map|panic|%s" % o.shape(), {"struct": o.text(), "panic": got},
                          "compute_for_struct_field panicked on `%s`: %s" % (o.text(), json.dumps(got)[:200]))
            continue
        norm = {k: sorted(v) for k, v in got.items()} if isinstance(got, dict) else got
        if norm != want:
            rep.violation("C04|nested-field-map|%s" % o.shape(), {"struct": o.text(), "got": got, "expected": want},
                          "compute_for_struct_field(`%s`, inner) maps inner slots to %s, the struct definition says %s" % (
                              o.text(), json.dumps(norm), json.dumps(want)))
    return {"structs": n, "nontrivial": nontrivial}


# ------------------------------------------------------------------------------------------------
# (2) Dart

DART_GETTER = re.compile(r"core\.List<Object> get _fieldsForLifetime(\w+) => \[(.*?)\];")
DART_TOFFI = re.compile(r"struct\.inner = (?:inner|(\w+))\._toFfi\(temp(.*?)\);")


def _split_top(s):
    out, depth, cur = [], 0, ""
    for ch in s:
        if ch in "([{":
            depth += 1
        elif ch in ")]}":
            depth -= 1
        if ch == "," and depth == 0:
            out.append(cur.strip())
            cur = ""
        else:
            cur += ch
    if cur.strip():
        out.append(cur.strip())
    return out


def _parse_append_args(s, where, js=False):
    """`xAppendArray: [...aAppendArray], yAppendArray: [...]` -> {x: {a}, y: set()}"""
    res = {}
    for part in _split_top(s):
        m = re.fullmatch(r"(\w)AppendArray: \[(.*)\]", part)
        if not m:
            raise MachineryError("UNDECIDED: cannot interpret append argument %r in %s" % (part[:120], where))
        srcs = set()
        for el in _split_top(m.group(2)):
            mm = re.fullmatch(r"\.\.\.\(appendArrayMap\['(\w)AppendArray'\] \?\? \[\]\)", el) if js else re.fullmatch(r"\.\.\.(\w)AppendArray", el)
            if not mm:
                raise MachineryError("UNDECIDED: cannot interpret append element %r in %s" % (el[:120], where))
            srcs.add(mm.group(1))
        res[m.group(1)] = srcs
    return res


def judge_dart(rep, os_, tree):
    n = 0
    for o in os_:
        path = "%s.g.dart" % o.name
        if path not in tree:
            raise MachineryError("UNDECIDED: dart output has no %s" % path)
        s = tree[path].decode("utf8", "replace")
        getters = {m.group(1).lower(): m.group(2) for m in DART_GETTER.finditer(s)}
        if set(getters) != set(o.lts):
            raise MachineryError("UNDECIDED: dart %s declares getters for %s, struct lifetimes are %s" % (path, sorted(getters), o.lts))
        for L in o.lts:
            n += 1
            got_slots, got_direct = set(), set()
            for el in _split_top(getters[L]):
                m = re.fullmatch(r"\.\.\.inner\._fieldsForLifetime(\w+)", el) if not o.opt else re.fullmatch(r"\.\.\.\?inner\?\._fieldsForLifetime(\w+)", el)
                if m:
                    got_slots.add(m.group(1).lower())
                elif el == "inner" and not any(o.slot_has_slice(i) for i in range(len(o.sigma))):
                    # the inner struct object itself: it holds the opaque wrappers of all its slots (nothing natively allocated)
                    got_slots |= set(INNERS[o.inner][0])
                elif re.fullmatch(r"\w+", el):
                    got_direct.add(el)
                else:
                    raise MachineryError("UNDECIDED: cannot interpret element %r of dart %s._fieldsForLifetime%s" % (el, o.name, L.upper()))
            want_slots = o.slots_of(L)
            want_direct = {"o"} if o.delta == L else set()
            if not (want_slots <= got_slots and want_direct <= got_direct):
                rep.violation("C04|dart|nested-fields-for-lifetime|%s" % o.shape(),
                              {"struct": o.text(), "lifetime": L, "getter": getters[L], "expected_inner_slots": sorted(want_slots), "expected_direct": sorted(want_direct)},
                              "dart `%s`._fieldsForLifetime%s = [%s] misses inner slot(s) %s / direct field(s) %s" % (
                                  o.text(), L.upper(), getters[L], sorted(want_slots - got_slots), sorted(want_direct - got_direct)))
        # append arrays handed to the inner conversion
        tof = re.search(r"struct\.inner = (.*?);\n", s)
        if o.opt and tof and not re.search(r"\b%s\? inner = this\.inner;\n\s*struct\.inner = inner != null \? " % o.inner, s):
            raise MachineryError("UNDECIDED: dart %s converts its optional inner field in an unknown way: %s" % (path, tof.group(1)[:200]))
        if not tof:
            raise MachineryError("UNDECIDED: dart %s has no `struct.inner = ...;`" % path)
        call = re.search(r"\binner\._toFfi\(temp(?:, ([^()]*))?\)", tof.group(1))
        if not call:
            raise MachineryError("UNDECIDED: cannot interpret dart %s inner conversion %r" % (path, tof.group(1)[:200]))
        args = _parse_append_args(call.group(1) or "", "dart:" + path)
        lts = INNERS[o.inner][0]
        for i, sg in enumerate(o.sigma):
            if not o.slot_has_slice(i):
                continue
            n += 1
            if sg not in args.get(lts[i], set()):
                rep.violation("C04|dart|nested-append-array|%s" % o.shape(),
                              {"struct": o.text(), "inner_slot": lts[i], "fed_by": sg, "conversion": tof.group(1)},
                              "dart `%s`._toFfi does not hand %sAppendArray to inner slot '%s (fed by '%s): %s" % (
                                  o.text(), sg, lts[i], sg, tof.group(1)[:200]))
    return n


# ------------------------------------------------------------------------------------------------
# (3) JS

JS_DRIVER = r"""
import wasm from "./diplomat-wasm.mjs";
import * as rt from "./diplomat-runtime.mjs";
import * as api from "./index.mjs";
import fs from "node:fs";
const jobs = JSON.parse(fs.readFileSync(process.argv[2], "utf8"));
const out = {};
let nextPtr = 0x1000;
for (const j of jobs) {
    const labels = new Map();
    const mk = (kind, label) => {
        let v;
        if (kind === "op") v = new api.Op(rt.internalConstructor, (nextPtr += 16), [1]);
        else if (kind === "oplref") v = new api.OpL(rt.internalConstructor, (nextPtr += 16), [1], [1]);
        else if (kind === "slice") v = [1, 2, 3];
        else if (kind === "str16") v = new String("s-" + label).toString() + label;
        else v = 7;
        if (kind !== "u8") labels.set(v, label);
        return v;
    };
    const res = {};
    try {
        const innerFields = {};
        for (const [f, kind] of j.inner_fields) innerFields[f] = mk(kind, "inner." + f);
        const inner = new api[j.inner](innerFields);
        const fields = { inner, n: 1 };
        if (j.direct) fields.o = mk("op", "o");
        const outer = new api[j.name](fields);
        for (const L of j.lts) {
            try {
                const got = outer["_fieldsForLifetime" + L.toUpperCase()];
                if (!Array.isArray(got)) { res[L] = { error: "not an array: " + String(got) }; continue; }
                res[L] = { labels: got.map((v) => labels.has(v) ? labels.get(v) : "?" + typeof v) };
            } catch (e) {
                res[L] = { error: e.constructor.name + ": " + e.message };
            }
        }
        if (j.opt) {
            // the same struct with the optional inner field absent: nothing of the inner struct can be borrowed
            const f2 = { n: 1 };
            if (j.direct) f2.o = fields.o;
            const outer2 = new api[j.name](f2);
            for (const L of j.lts) {
                try {
                    const got = outer2["_fieldsForLifetime" + L.toUpperCase()];
                    res[L + ":absent"] = { labels: got.map((v) => labels.has(v) ? labels.get(v) : "?" + typeof v) };
                } catch (e) {
                    res[L + ":absent"] = { error: e.constructor.name + ": " + e.message };
                }
            }
        }
    } catch (e) {
        res["$construct"] = { error: e.constructor.name + ": " + e.message };
    }
    out[j.name] = res;
}
fs.writeFileSync(process.argv[3], JSON.stringify(out));
"""


def judge_js(rep, os_, outdir, tree, wd):
    # execution of the getters
    stub = os.path.join(os.path.dirname(os.path.dirname(os.path.abspath(__file__))), "harness", "jsx", "diplomat-wasm.mjs")
    shutil.copy(stub, os.path.join(outdir, "diplomat-wasm.mjs"))
    rtm = os.path.join(outdir, "diplomat-runtime.mjs")
    if not os.path.exists(rtm):
        shutil.copy(os.path.join(REPO, "tool", "templates", "js", "runtime.mjs"), rtm)
    with open(os.path.join(outdir, "nf-driver.mjs"), "w") as fh:
        fh.write(JS_DRIVER)
    jobs = [{"name": o.name, "inner": o.inner, "inner_fields": [[f, k] for f, k, _i in INNERS[o.inner][1]], "direct": bool(o.delta),
             "lts": list(o.lts), "opt": o.opt} for o in os_]
    jp, rp = os.path.join(wd, "nf-jobs.json"), os.path.join(wd, "nf-res.json")
    json.dump(jobs, open(jp, "w"))
    p = subprocess.run(["node", os.path.join(outdir, "nf-driver.mjs"), jp, rp], stdout=subprocess.PIPE, stderr=subprocess.PIPE, text=True, timeout=300)
    if p.returncode != 0:
        raise MachineryError("node driver for nested structs failed: %s" % p.stderr[-1500:])
    res = json.load(open(rp))
    n = 0
    for o in os_:
        r = res[o.name]
        if "$construct" in r:
            raise MachineryError("UNDECIDED: cannot construct JS %s: %s" % (o.name, r["$construct"]["error"]))
        for L in o.lts:
            n += 1
            g = r[L]
            want = o.labels_of(L)
            if "error" in g:
                rep.violation("C04|js|nested-fields-for-lifetime|throws|%s" % ("optional" if o.opt else "plain"),
                              {"struct": o.text(), "lifetime": L, "error": g["error"]},
                              "js `%s`._fieldsForLifetime%s throws %s: no method can attach the edges of this struct" % (o.text(), L.upper(), g["error"]))
                continue
            got = set(g["labels"])
            if not want <= got:
                rep.violation("C04|js|nested-fields-for-lifetime|%s" % o.shape(), {"struct": o.text(), "lifetime": L, "got": sorted(got), "expected": sorted(want)},
                              "js `%s`._fieldsForLifetime%s returns %s, misses %s" % (o.text(), L.upper(), sorted(got), sorted(want - got)))
            if o.opt:
                ga = r[L + ":absent"]
                if "error" in ga:
                    rep.violation("C04|js|nested-fields-for-lifetime|throws|optional-absent", {"struct": o.text(), "lifetime": L, "error": ga["error"]},
                                  "js `%s`._fieldsForLifetime%s throws with the optional field absent: %s" % (o.text(), L.upper(), ga["error"]))
        # append arrays handed to the inner conversions (both the list form and the buffer form)
        s = tree["%s.mjs" % o.name].decode("utf8", "replace")
        calls = re.findall(r"this\.#inner\)\._(intoFFI|writeToArrayBuffer)\((.*?)\{(.*?)\}", s)
        if not o.opt and not calls:
            raise MachineryError("UNDECIDED: js %s.mjs has no inner conversion call" % o.name)
        lts = INNERS[o.inner][0]
        for kind, _pre, args in calls:
            parsed = _parse_append_args(args.rstrip(", "), "js:%s.mjs" % o.name, js=True)
            for i, sg in enumerate(o.sigma):
                if not o.slot_has_slice(i):
                    continue
                n += 1
                if sg not in parsed.get(lts[i], set()):
                    rep.violation("C04|js|nested-append-array|%s" % o.shape(), {"struct": o.text(), "inner_slot": lts[i], "fed_by": sg, "call": kind, "args": args},
                                  "js `%s`._%s does not hand %sAppendArray to inner slot '%s: {%s}" % (o.text(), kind, sg, lts[i], args[:200]))
    return n


def nested_half(rep, tier):
    wd = workdir("C04-nested")
    try:
        ip = inprocess(rep, tier, wd)
        os_ = outers(tier, with_static=False)
        src = os.path.join(wd, "lib.rs")
        with open(src, "w") as fh:
            fh.write(program(os_))
        judged = {}
        for b in ("dart", "js"):
            out = os.path.join(wd, "out-" + b)
            p = run_tool(b, src, out, configs=list(default_configs(b)), timeout=600)
            if p.returncode != 0:
                raise MachineryError("diplomat-tool %s failed on the nested-struct program: %s" % (b, p.stderr[-1500:]))
            tree = read_tree(out)
            judged[b] = judge_dart(rep, os_, tree) if b == "dart" else judge_js(rep, os_, out, tree, wd)
        return {"inprocess_structs": ip["structs"], "inprocess_nontrivial": ip["nontrivial"], "generated_structs": len(os_),
                "dart_judgements": judged["dart"], "js_judgements": judged["js"],
                "inner_structs": {k: list(v[0]) for k, v in INNERS.items()},
                "bound": "every instantiation of the inner slots over the outer lifetimes {a,b} (+'static in-process), x direct field of {none,a,b}; "
                         "DiplomatOption<inner> for the two-slot inner structs"}
    finally:
        shutil.rmtree(wd, ignore_errors=True)
