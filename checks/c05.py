"""C05 — the lowering gate accepts exactly the documented shapes: three-valued reference gate (from the book + the
property statement) vs the real TypeContext::from_syn, over the exhaustively enumerated bridge grammar."""
import json
import os
import re
import subprocess
import itertools

from vlib import gram as G
from vlib import sigs as S
from vlib.common import Reporter, build_harness, build_tool, run_tool, workdir, MachineryError, pmap, BACKENDS, default_configs


def _hirx(hirx, wd, name, items, prelude=None, mode="gate"):
    inp, outp = os.path.join(wd, name + ".in"), os.path.join(wd, name + ".out")
    with open(inp, "w") as fh:
        if prelude is not None:
            fh.write(json.dumps({"prelude": prelude}) + "\n")
        for it in items:
            fh.write(json.dumps(it) + "\n")
    p = subprocess.run([hirx, mode, inp, outp], stdout=subprocess.PIPE, stderr=subprocess.PIPE, text=True)
    if p.returncode != 0:
        raise MachineryError("hirx failed: " + p.stderr[-2000:])
    res = [json.loads(l) for l in open(outp)]
    os.remove(inp)
    os.remove(outp)
    if len(res) != len(items):
        raise MachineryError("hirx returned %d results for %d items" % (len(res), len(items)))
    return res


def _shape(t):
    """coarse shape class of a type term, used in violation keys"""
    return re.sub(r"\b(u8|i8|u16|i16|u32|i32|u64|i64|usize|isize|f32|f64|bool|char|DiplomatChar|DiplomatByte)\b", "prim", G.render(t, "'a"))


class Stats:
    def __init__(self):
        self.n = 0
        self.by = {"ACCEPT": [0, 0], "REJECT": [0, 0], "UNSPEC": [0, 0]}  # [accepted, rejected] by impl
        self.panics = {}
        self.samples = []
        self.distinct = set()


def _judge(rep, st, verdict, rule, res, what, key_shape, witness, ctx_expected=None):
    st.n += 1
    impl_ok = res["status"] == "ok"
    st.by[verdict][0 if impl_ok else 1] += 1
    st.distinct.add((verdict, impl_ok, rule))
    if res["status"] == "panic":
        pm = (res.get("panic") or {})
        k = "%s|%s" % (re.sub(r":\d+$", "", pm.get("loc", "?")).replace("/repo/", ""), pm.get("msg", "?")[:60])
        st.panics[k] = st.panics.get(k, 0) + 1
    if verdict == "ACCEPT" and not impl_ok and "Could not resolve symbol char" in json.dumps(res.get("panic") or ""):
        # the book lists `char` as a builtin, the AST does not know it: one finding, whatever the position
        rep.violation("C05|must-accept-rejected|char", dict(witness, impl=res), "documented builtin `char` is not resolved: %s" % what)
    elif verdict == "ACCEPT" and not impl_ok:
        why = res.get("errors") or res.get("panic")
        rep.violation("C05|must-accept-rejected|%s|%s" % (rule, key_shape), dict(witness, impl=res),
                      "documented shape rejected: %s — %s" % (what, json.dumps(why)[:300]))
    elif verdict == "REJECT" and impl_ok and rule.startswith("R6") and witness.get("type", "").startswith("DiplomatOption<"):
        # one root cause: TypeName::is_ffi_safe() does not look inside DiplomatOption<..>
        rep.violation("C05|must-reject-accepted|R6|DiplomatOption<std slice>|%s" % witness.get("position"), dict(witness, impl=res),
                      "shape violating rule `%s` accepted: %s" % (rule, what))
    elif verdict == "REJECT" and impl_ok:
        rep.violation("C05|must-reject-accepted|%s|%s" % (rule, key_shape), dict(witness, impl=res),
                      "shape violating rule `%s` accepted: %s" % (rule, what))
    elif verdict == "REJECT" and res["status"] == "rejected" and ctx_expected:
        ctxs = [e[0] for e in res["errors"]]
        # a type-level fault (field rules) is reported under the type alone; a method-level one under `Type::method`
        if not any(c == ctx_expected for c in ctxs):
            rep.violation("C05|error-context|%s|%s" % (rule, key_shape), dict(witness, impl=res),
                          "rejection of %s reported under context(s) %s, expected %s" % (what, sorted(set(ctxs)), ctx_expected))


# valid types with methods that are lowered BEFORE the focus types `Fo` / `Op` (lowering goes out-structs, structs, opaques, enums,
# each by name): a context left over from them must not leak into the diagnostics of the focus type
DECOYS = ("    pub struct Aa { pub a: u8 }\n    impl Aa { pub fn aam(self) -> u8 { 0 } }\n"
          "    #[diplomat::out]\n    pub struct Ab { pub a: u8 }\n    impl Ab { pub fn abm() -> u8 { 0 } }\n"
          "    #[diplomat::opaque]\n    pub struct Ac(u8);\n    impl Ac { pub fn acm(&self) -> u8 { 0 } }\n")


def _with_decoys(src):
    head = "#[diplomat::bridge]\nmod ffi {\n"
    if not src.startswith(head):
        raise MachineryError("focus program does not start with the bridge header")
    return head + DECOYS + src[len(head):]


def single_focus(rep, hirx, wd, depth, st):
    items, meta = [], []
    for t in G.universe(depth):
        for pos in G.POSITIONS:
            if not G.applicable(pos, t):
                continue
            src, ctx = G.focus_program(pos, t)
            src = _with_decoys(src)
            items.append({"id": len(items), "src": src})
            meta.append((pos, t, ctx, src))
    res = _hirx(hirx, wd, "focus", items)
    for (pos, t, ctx, src), r in zip(meta, res):
        verdict, rule = G.spec(pos, t)
        _judge(rep, st, verdict, rule, r, "%s in position %s" % (G.render(t), pos), "%s|%s" % (pos, _shape(t)),
               {"position": pos, "type": G.render(t), "source": src, "spec": verdict, "rule": rule}, ctx_expected=ctx)
        if len(st.samples) < 4 and verdict != "UNSPEC" and st.n % 397 == 0:
            st.samples.append({"position": pos, "type": G.render(t), "spec": verdict, "rule": rule, "impl": r["status"]})
    return len(items)


SELF_CASES = [
    ("Op", "&self", "ACCEPT", "A self &opaque"),
    ("Op", "&mut self", "ACCEPT", "A self &mut opaque"),
    ("Op", "self", "REJECT", "R1 opaque by value"),
    ("St", "self", "ACCEPT", "A self struct by value"),
    ("St", "&self", "REJECT", "R3 reference to / box of a struct"),
    ("St", "&mut self", "REJECT", "R3 reference to / box of a struct"),
    ("En", "self", "ACCEPT", "A self enum by value"),
    # enums cross by value like structs (a `&En` parameter is refused with "found &T in input where T is a custom type, but not
    # opaque"); every backend declares an enum receiver by value while the macro compiles `&self` to a pointer
    ("En", "&self", "REJECT", "R3 reference to / box of a struct (enum receiver behind a reference)"),
    ("En", "&mut self", "REJECT", "R3 reference to / box of a struct (enum receiver behind a reference)"),
    ("OutSt", "self", "REJECT", "R2 out-struct in input"),
    ("OutSt", "&self", "REJECT", "R3 reference to / box of a struct"),
]


def pairs_and_self(rep, hirx, wd, st, tier):
    items, meta = [], []
    for owner, selff, verdict, rule in SELF_CASES:
        src = "#[diplomat::bridge]\nmod ffi {\n%s\n    impl %s { pub fn f(%s) { unimplemented!() } }\n}\n" % (G.PRELUDE, owner, selff)
        items.append({"id": len(items), "src": src})
        meta.append((verdict, rule, "self `%s` on %s" % (selff, owner), "self|%s|%s" % (owner, selff), src, "%s::f" % owner))
    # every documented param shape x every documented return shape (valid APIs must be accepted)
    uni = G.universe(2)
    acc_params = [t for t in uni if G.applicable("param", t) and G.spec("param", t)[0] == "ACCEPT" and t != ("ref", True, ("write",))]
    acc_rets = [t for t in uni if G.applicable("ret", t) and G.spec("ret", t)[0] == "ACCEPT"]
    if tier == "quick":
        acc_params = acc_params[::5]
        acc_rets = acc_rets[::3]
    for p in acc_params:
        for r in acc_rets:
            lt = "<'a>" if (G.has_lt(p) or G.has_lt(r)) else ""
            src = "#[diplomat::bridge]\nmod ffi {\n%s\n    impl Op { pub fn f%s(x: %s) -> %s { unimplemented!() } }\n}\n" % (
                G.PRELUDE, lt, G.render(p), G.render(r))
            items.append({"id": len(items), "src": src})
            meta.append(("ACCEPT", "A param x return", "fn f(x: %s) -> %s" % (G.render(p), G.render(r)),
                         "pair|%s|%s" % (_shape(p), _shape(r)), src, "Op::f"))
    # DiplomatWrite placement with a second parameter of every documented kind
    for p in acc_params:
        lt = "<'a>" if G.has_lt(p) else ""
        for order, verdict, rule in (("x: %s, w: &mut DiplomatWrite", "ACCEPT", "A write last"), ("w: &mut DiplomatWrite, x: %s", "REJECT", "R7 DiplomatWrite not as last parameter")):
            src = "#[diplomat::bridge]\nmod ffi {\n%s\n    impl Op { pub fn f%s(&self, %s) { unimplemented!() } }\n}\n" % (G.PRELUDE, lt, order % G.render(p))
            items.append({"id": len(items), "src": src})
            meta.append((verdict, rule, "fn f(&self, %s)" % (order % G.render(p)), "write|%s|%s" % (verdict, _shape(p)), src, "Op::f"))
    src = "#[diplomat::bridge]\nmod ffi {\n%s\n    impl Op { pub fn f(a: &mut DiplomatWrite, b: &mut DiplomatWrite) { unimplemented!() } }\n}\n" % G.PRELUDE
    items.append({"id": len(items), "src": src})
    meta.append(("REJECT", "R7 DiplomatWrite not as last parameter", "two DiplomatWrite params", "write|two", src, "Op::f"))
    # struct with several fields: every documented field type next to every rule-breaking one (the bad one must still reject)
    acc_fields = [t for t in uni if G.spec("field", t)[0] == "ACCEPT"][::4]
    bad_fields = [("opt", G.P("u8")), ("opt", G.N("En")), ("box", G.N("Op")), ("ref", False, ("slice", "u8")), ("res", G.P("u8"), ("unit",)), G.N("Op"), ("ref", False, G.N("St"))]
    for a in acc_fields:
        for b in bad_fields:
            lt = "<'a>" if (G.has_lt(a) or G.has_lt(b)) else ""
            src = "#[diplomat::bridge]\nmod ffi {\n%s\n    pub struct Fo%s { pub x: %s, pub y: %s }\n}\n" % (G.PRELUDE, lt, G.render(a), G.render(b))
            items.append({"id": len(items), "src": src})
            meta.append(("REJECT", G.spec("field", b)[1], "struct Fo { x: %s, y: %s }" % (G.render(a), G.render(b)), "field-pair|%s|%s" % (_shape(a), _shape(b)), src, "Fo"))
    res = _hirx(hirx, wd, "pairs", items)
    for (verdict, rule, what, shape, src, ctx), r in zip(meta, res):
        _judge(rep, st, verdict, rule, r, what, shape, {"source": src, "spec": verdict, "rule": rule}, ctx_expected=ctx)
    st.samples.append({"pair_case": meta[len(SELF_CASES) + 1][2], "spec": "ACCEPT"})
    return len(items)


ELIDED_RETURNS = [
    ("&self", "&Op"), ("&self", "Option<&Op>"), ("&self", "&str"), ("&self", "&[u8]"), ("&self", "Box<OpL>"), ("&self", "SB"),
    ("&self", "Result<&Op, ()>"), ("&self", "&DiplomatStr16"), ("&self", "Result<(), &Op>"), ("&self", "OpL<'_>"),
    ("&self", "Result<u8, &Op>"), ("&self", "Result<Box<Op>, &Op>"), ("&self", "Result<u8, Box<OpL>>"), ("&self", "Result<St, SB>"), ("&self", "Result<&Op, u8>"),
    ("&self", "Option<&str>"), ("&self", "Option<SB>"), ("&self", "Result<(), SB>"), ("&self", "Result<SB, ()>"),
    ("p: &Op", "&Op"), ("p: &Op", "Box<OpL>"), ("&self, p: &Op", "&Op"), ("p: &[u8]", "&[u8]"), ("p: SB", "SB"),
    # several lifetime positions in one returned type, one of them named, another one elided (either order).  The receiver is
    # `&self`, so Rust's elision rules resolve the elided position to the receiver's *anonymous* lifetime.  (With `&'a self`
    # the elided position resolves to the named 'a and the lowerer accepts it: nothing is left unnamed, not judged here.)
    ("&self, p: &'a Op", "&OpL<'a>"), ("&self, p: &'a Op", "&'a OpL<'_>"), ("&self, p: &'a Op", "&'a OpL"), ("&self, p: &'a Op", "Option<&OpL<'a>>"),
    ("&self, p: &'a Op", "SB2<'a, '_>"), ("&self, p: &'a Op", "SB2<'_, 'a>"), ("&self, p: &'a Op", "Result<&OpL<'a>, ()>"),
    ("&self, p: &'a Op", "Result<(), SB2<'a, '_>>"), ("&self, p: &'a Op", "Result<SB<'a>, SB>"), ("&self, p: &'a Op", "Result<SB, SB<'a>>"),
    ("&self, p: SB<'a>", "SB2<'a, '_>"), ("&self, p: &'a Op", "&OpL<'static>"), ("&self, p: &'a Op", "SB2<'static, '_>"),
]
NAMED_RETURNS = [
    ("&'a self", "&'a Op"), ("&'a self", "Option<&'a Op>"), ("&'a self", "&'a str"), ("&'a self", "&'a [u8]"), ("&'a self", "Box<OpL<'a>>"),
    ("&'a self", "SB<'a>"), ("&'a self", "Result<&'a Op, ()>"), ("p: &'a Op", "&'a Op"), ("p: &'a [u8]", "&'a [u8]"), ("p: SB<'a>", "SB<'a>"),
    ("&self", "Box<Op>"), ("&self", "u8"), ("&self, p: &Op", "Option<Box<Op>>"),
    ("&'a self", "&'a OpL<'a>"), ("&'a self", "&'a OpL<'static>"), ("&'a self", "SB2<'a, 'a>"), ("&'a self", "SB2<'static, 'a>"), ("&'a self", "Result<SB<'a>, SB<'a>>"),
]


def lifetime_rules(rep, hirx, wd, st, tier):
    items, meta = [], []
    for args, ret in ELIDED_RETURNS:
        lt = "<'a>" if "'a" in args + ret else ""
        src = "#[diplomat::bridge]\nmod ffi {\n%s\n    impl Op { pub fn f%s(%s) -> %s { unimplemented!() } }\n}\n" % (G.PRELUDE, lt, args, ret)
        items.append({"id": len(items), "src": src})
        meta.append(("REJECT", "R9 elided lifetime in return type", "fn f(%s) -> %s" % (args, ret), "elided|%s|%s" % (re.sub(r"p: ", "", args), ret), src, "Op::f"))
    for args, ret in NAMED_RETURNS:
        lt = "<'a>" if "'a" in args + ret else ""
        src = "#[diplomat::bridge]\nmod ffi {\n%s\n    impl Op { pub fn f%s(%s) -> %s { unimplemented!() } }\n}\n" % (G.PRELUDE, lt, args, ret)
        items.append({"id": len(items), "src": src})
        meta.append(("ACCEPT", "A named lifetimes in return", "fn f%s(%s) -> %s" % (lt, args, ret), "named|%s|%s" % (args, ret), src, "Op::f"))
    # DiplomatWrite next to a success type: the written string IS the success value, so only (), Result<(), E>, Option<()> fit
    for ret, verdict in (("()", "ACCEPT"), ("Result<(), En>", "ACCEPT"), ("Result<(), ()>", "ACCEPT"), ("Option<()>", "ACCEPT"),
                         ("u8", "REJECT"), ("St", "REJECT"), ("Box<Op>", "REJECT"), ("Result<u8, ()>", "REJECT"), ("Result<St, En>", "REJECT"),
                         ("Option<u8>", "REJECT"), ("Option<Box<Op>>", "REJECT"), ("En", "REJECT")):
        for args in ("&self, w: &mut DiplomatWrite", "x: u8, w: &mut DiplomatWrite"):
            src = "#[diplomat::bridge]\nmod ffi {\n%s\n    impl Op { pub fn f(%s) -> %s { unimplemented!() } }\n}\n" % (G.PRELUDE, args, ret)
            items.append({"id": len(items), "src": src})
            meta.append((verdict, "R7 DiplomatWrite next to a success type other than unit" if verdict == "REJECT" else "A write-out method",
                         "fn f(%s) -> %s" % (args, ret), "write-ret|%s|%s" % (args.split(",")[0], ret), src, "Op::f"))
    # the write-out parameter is `&mut DiplomatWrite` (book: writeable.md); any other way of taking a DiplomatWrite is not a custom type
    # behind a reference / by value and has to be refused
    for args in ("&self, w: &DiplomatWrite", "x: u8, w: &DiplomatWrite", "w: &DiplomatWrite, x: u8", "&self, w: DiplomatWrite", "&self, w: Box<DiplomatWrite>",
                 "&self, w: Option<&mut DiplomatWrite>", "&self, w: Option<&DiplomatWrite>", "&self, w: &mut [DiplomatWrite]"):
        src = "#[diplomat::bridge]\nmod ffi {\n%s\n    impl Op { pub fn f(%s) { unimplemented!() } }\n}\n" % (G.PRELUDE, args)
        items.append({"id": len(items), "src": src})
        meta.append(("REJECT", "R7 a DiplomatWrite is taken as `&mut DiplomatWrite` only", "fn f(%s)" % args, "write-form|%s" % args.split(", ", 1)[-1] if args.startswith("&self") else "write-form|" + args, src, "Op::f"))
    res = _hirx(hirx, wd, "lts", items)
    for (verdict, rule, what, shape, src, ctx), r in zip(meta, res):
        _judge(rep, st, verdict, rule, r, what, shape, {"source": src, "spec": verdict, "rule": rule}, ctx_expected=ctx)
    n = len(items)
    # implied bounds: every signature over 2 (thorough 3) lifetimes with every declared bound set
    sigs = list(S.enumerate_sigs(("a", "b"), ["none", "&'x self on Op", "self: SB<'x>", "self: S2<'x,'y>"],
                                 ["&'x Op", "&'x OpL<'y>", "S2b<'x,'y>", "S2<'x,'y>", "SB<'x>", "&'x [u8]", S.S3_PARAM, S.SREF_PARAM, S.SOPTREF_PARAM, "Option<&'x OpL<'y>>"], 1,
                                 [f for f in S.RET_FORMS if f.name in ("&'r Op", "&'r OpL<'s>", "Box<OpL<'r>>", "S2<'r,'s>", "S2b<'r,'s>", "&'r [u8]", "Result<u8, S2b<'r,'s>>", "Result<S2b<'r,'s>, u8>", "Option<S2b<'r,'s>>")] + [S.S3_RET]))
    if tier == "thorough":
        sigs += list(S.enumerate_sigs(("a", "b", "c"), ["none", "&'x self on Op"], ["&'x OpL<'y>", "S2b<'x,'y>", "&'x Op", S.S3_PARAM], 1,
                                      [f for f in S.RET_FORMS if f.name in ("&'r Op", "&'r OpL<'s>", "Box<OpL<'r>>", "S2b<'r,'s>", "Result<u8, S2b<'r,'s>>")] + [S.S3_RET]))
    items = [{"id": i, "impl": s.impl_header(), "method": s.render_method("m")} for i, s in enumerate(sigs)]
    res = _hirx(hirx, wd, "implied", items, prelude=S.PRELUDE)
    for s, r in zip(sigs, res):
        implied = s.implied_bounds()
        defsite = s.def_site_bounds()
        declared = set(s.bounds)
        # bounds implied by `&'x T<'y>` are inserted by the lowerer itself (core/src/hir/type_context.rs test
        # `test_required_implied_bounds` documents this), so only bounds from type *definitions* must be restated
        closure = s.outlives_closure(with_implied=True)
        s2 = S.Sig(s.lts, frozenset(declared | s.ref_implied_bounds()), s.selff, s.self_l, [], S.RET_FORMS[0], (s.lts[0],))
        closure_wo_def = s2.outlives_closure(with_implied=False)
        if implied <= declared:
            verdict, rule = "ACCEPT", "A all implied bounds spelled out"
        elif not defsite <= closure_wo_def:
            verdict, rule = "REJECT", "R10 implied lifetime bound not spelled out"
        else:
            verdict, rule = "UNSPEC", ""  # only &-reference bounds missing, or the def-site bound follows transitively
        d = s.describe()
        shape = "implied|self=%s|params=%s|ret=%s|missing=%d" % (d["self"], ",".join(re.sub(r"'[a-z]\b", "'_", p) for p in d["params"]),
                                                               re.sub(r"'[a-z]\b", "'_", d["ret"]), len(implied - declared))
        _judge(rep, st, verdict, rule, r, d["text"], shape, {"signature": d, "spec": verdict, "rule": rule,
                                                             "implied": sorted(map(str, implied)), "declared": sorted(map(str, declared))},
               ctx_expected="%s::m" % s.owner())
    st.samples.append({"implied_bound_case": sigs[len(sigs) // 2].render_method("m"), "implied": sorted(map(str, sigs[len(sigs) // 2].implied_bounds()))})
    return n + len(sigs)


PROFILE_SHAPES = {
    # (a top-level `-> Option<T>` return is a nullable return that every backend supports: not profile-dependent)
    "option": ["impl Op { pub fn f(x: Option<u8>) { unimplemented!() } }", "impl Op { pub fn f(x: Option<En>) { unimplemented!() } }",
               "impl Op { pub fn f(x: DiplomatOption<St>) { unimplemented!() } }", "pub struct Fo { pub x: DiplomatOption<u8> }",
               # an Option nested in a Result arm is a real DiplomatOption on the wire (only the TOP-LEVEL `-> Option<T>` is a nullable return)
               "impl Op { pub fn f() -> Result<Option<u8>, ()> { unimplemented!() } }", "impl Op { pub fn f() -> Result<Option<En>, ()> { unimplemented!() } }",
               "impl Op { pub fn f() -> Result<u8, Option<St>> { unimplemented!() } }",
               "#[diplomat::out] pub struct Fo { pub x: DiplomatOption<En> }"],
    "callbacks": ["impl Op { pub fn f(cb: impl Fn(u8) -> u8) { unimplemented!() } }", "impl Op { pub fn f(&self, cb: impl FnMut()) { unimplemented!() } }"],
    "static_slices": ["impl Op { pub fn f(x: &'static str) { unimplemented!() } }", "impl Op { pub fn f(x: &'static [u8]) { unimplemented!() } }"],
}


def profiles(rep, wd, st):
    """profile-dependent shapes through the real binary: accepted iff the backend's own `supports = <feature>` answer is yes"""
    build_tool()
    jobs = []
    for b in BACKENDS:
        for feat, shapes in PROFILE_SHAPES.items():
            probe = ("#[diplomat::bridge]\nmod ffi {\n    #[diplomat::opaque]\n    pub struct Op(u8);\n    impl Op {\n"
                     "        #[diplomat::attr(not(supports = %s), disable)]\n        pub fn zq_probe_on(&self) {}\n"
                     "        #[diplomat::attr(supports = %s, disable)]\n        pub fn zq_probe_off(&self) {}\n    }\n}\n" % (feat, feat))
            jobs.append((b, feat, "probe", probe))
            for i, sh in enumerate(shapes):
                jobs.append((b, feat, "shape%d" % i, "#[diplomat::bridge]\nmod ffi {\n%s\n    %s\n}\n" % (G.PRELUDE, sh)))

    def runj(j):
        b, feat, name, src = j
        d = os.path.join(wd, "prof_%s_%s_%s" % (b, feat, name))
        os.makedirs(d, exist_ok=True)
        entry = os.path.join(d, "lib.rs")
        open(entry, "w").write(src)
        p = run_tool(b, entry, os.path.join(d, "out"), configs=default_configs(b))
        txt = ""
        if p.returncode == 0:
            for root, _, fs in os.walk(os.path.join(d, "out")):
                for f in fs:
                    try:
                        txt += open(os.path.join(root, f), errors="replace").read()
                    except OSError:
                        pass
        return (b, feat, name, src, p.returncode, p.stderr, txt)

    out = pmap(runj, jobs)
    support = {}
    for (b, feat, name, src, rc, err, txt) in out:
        if name == "probe":
            if rc != 0:
                raise MachineryError("feature probe failed for %s/%s: %s" % (b, feat, err[-500:]))
            on = re.search(r"zq_?[pP]robe_?[oO]n", txt) is not None
            off = re.search(r"zq_?[pP]robe_?[oO]ff", txt) is not None
            if on == off:
                raise MachineryError("UNDECIDED: feature probe for %s/%s shows on=%s off=%s" % (b, feat, on, off))
            support[(b, feat)] = on
    n = 0
    for (b, feat, name, src, rc, err, txt) in out:
        if name == "probe":
            continue
        n += 1
        st.n += 1
        sup = support[(b, feat)]
        lowering_err = "Lowering error" in err
        panicked = "panicked at" in err
        accepted = not lowering_err and not (panicked and rc != 0 and "Lowering" in err)
        st.distinct.add(("profile", feat, sup, accepted))
        if panicked and not lowering_err:
            # backend crash after lowering is C15's business - except that a crash inside the backend proves the gate let the shape through
            if not sup and re.search(r"panicked at tool/src/", err):
                rep.violation("C05|profile|%s|%s|unsupported-but-accepted|%s" % (b, feat, name), {"backend": b, "feature": feat, "source": src, "stderr": err[-600:]},
                              "%s says it does not support %s but lowering accepts a %s shape (the backend then panics)" % (b, feat, feat))
            continue
        if sup and lowering_err:
            rep.violation("C05|profile|%s|%s|supported-but-rejected|%s" % (b, feat, name), {"backend": b, "feature": feat, "source": src, "stderr": err[-800:]},
                          "%s says supports=%s but rejects a %s shape" % (b, feat, feat))
        if not sup and not lowering_err:
            rep.violation("C05|profile|%s|%s|unsupported-but-accepted|%s" % (b, feat, name), {"backend": b, "feature": feat, "source": src},
                          "%s says it does not support %s but accepts a %s shape" % (b, feat, feat))
    st.samples.append({"profiles": {"%s/%s" % k: v for k, v in sorted(support.items())}})
    return n, support


def run(tier):
    rep = Reporter("C05", tier, "model_checking")
    hirx = os.path.join(build_harness("hirx"), "hirx")
    wd = workdir("C05")
    st = Stats()
    n1 = single_focus(rep, hirx, wd, 3, st)
    n2 = pairs_and_self(rep, hirx, wd, st, tier)
    n3 = lifetime_rules(rep, hirx, wd, st, tier)
    n4, support = profiles(rep, wd, st)
    judged = st.by["ACCEPT"][0] + st.by["ACCEPT"][1] + st.by["REJECT"][0] + st.by["REJECT"][1]
    cov = {
        "states": st.n,
        "transitions": st.n,
        "traces_validated_against_impl": judged + n4,
        "evaluations": st.n,
        "distinct_nontrivial": judged,
        "rule": "one case per (position, type expression) single-focus program, per self form, per (param shape, return shape) pair, per DiplomatWrite placement, "
                "per elided/named return signature, per (signature, declared bound set) for implied bounds, per (backend, feature, shape); non-trivial = the "
                "reference gate pins the verdict (MUST_ACCEPT or MUST_REJECT); UNSPEC cases are executed and counted but never judged",
        "exhaustive": True,
        "distinct_outcomes": len(st.distinct),
        "bound": {"type_depth": 3, "positions": G.POSITIONS, "single_focus": n1, "pairs_self_write": n2, "lifetime_rules": n3, "profile_runs": n4},
        "spec_vs_impl": {k: {"impl_accepts": v[0], "impl_rejects": v[1]} for k, v in st.by.items()},
        "impl_panics_during_lowering": st.panics,
        "samples": st.samples[:8],
    }
    return rep.finish(cov, [
        "MUST_ACCEPT is written from book/src/{types,option,result,structs,opaque,writeable,callbacks,lifetimes}.md, MUST_REJECT from the ten rules in the property statement; everything else is UNSPECIFIED and not judged",
        "in-process runs use an all-features attribute validator; profile-dependent shapes are judged against each backend's own `supports = X` answer through the real binary",
        "a panic during lowering counts as rejection (the tool does not accept the module) and is tallied separately",
        "an implied bound that only follows transitively from the declared bounds is UNSPECIFIED",
    ])


def replay(path):
    w = json.load(open(path))
    hirx = os.path.join(build_harness("hirx"), "hirx")
    wd = workdir("C05-replay")
    wit = w["witness"]
    if "source" in wit:
        r = _hirx(hirx, wd, "r", [{"id": 0, "src": wit["source"]}])[0]
    else:
        d = wit["signature"]
        return run("quick")
    print(json.dumps({"spec": wit.get("spec"), "rule": wit.get("rule"), "impl": r}, indent=1))
    bad = (wit.get("spec") == "ACCEPT") != (r["status"] == "ok")
    if bad:
        print("VIOLATION property=C05 replay=%s" % path)
    return 1 if bad else 0
