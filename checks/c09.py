"""C09 — whatever the tool accepts builds: macro, C, C++ and JS outputs are well-formed.

E  (A) the shared ffix crate (c01.build_all), (B) whole-module shapes generated here and built as one crate with the real macro
   (cyclic references, several bridge modules per file, namespaces, renames, every callback parameter / return kind, every C / C++ /
   JS reserved or predeclared name in every role), (C) the repository's feature_tests and example bridges.
O  exit status of cargo build (macro expansion type-checks), gcc -std=c11 -fsyntax-only on every .h alone, g++ -std=c++17 / c++20
   -fsyntax-only on every .hpp alone, one TU with all headers sorted / reversed (+ every rotation and every ordered pair for the small
   modules), node --check on every .mjs, and closure of #include "..." / import ... from "..." over the generated files.
"""
import itertools
import json
import os
import re
import shutil
import threading
import time

from vlib import c09util as U
from vlib import ffix as F
from vlib.common import Reporter, build_tool, run_tool, workdir, MachineryError, pmap, sha, REPO
from checks import c01

STDS = ("c++17", "c++20")
RUNTIME_FILES = {"diplomat_runtime.h", "diplomat_runtime.hpp", "diplomat-runtime.mjs", "diplomat-wasm.mjs", "diplomat-runtime.d.ts"}
# documented user-supplied file (docs/npm_packaging.md): the only import that may leave the generated tree
JS_EXTERNAL = {("diplomat-wasm.mjs", "../diplomat.config.mjs")}
# wall budget for the compile phases, counted from the end of the (possibly cold) cargo builds
BUDGET = {"quick": 85.0, "thorough": 1800.0}


class Unit:
    """one bridge input (entry file) and the output trees the real tool produced for it"""

    def __init__(self, uid, entry, source=None, config_file=None, configs=(), small=False, labels=None, ffix_tier=None, langs=("c", "cpp", "js"), js_configs=None):
        self.uid = uid
        self.entry = entry
        self.source = source
        self.config_file = config_file
        self.configs = list(configs)
        self.small = small
        self.labels = labels or {}
        self.ffix_tier = ffix_tier
        self.langs = langs
        self.js_configs = js_configs or [()]
        self.out = {}
        self.rejected = {}
        self.optional = False   # a backend may refuse this module: it is judged only where it is accepted

    def witness_base(self, lang, variant=()):
        w = {"unit": self.uid, "lang": lang, "config_file": self.config_file, "configs": self.configs + list(variant)}
        if self.source is not None:
            w["source"] = self.source
        elif self.ffix_tier:
            w["entry_kind"] = "ffix:" + self.ffix_tier
        else:
            w["entry"] = self.entry
        return w


class Counter:
    def __init__(self):
        self.lock = threading.Lock()
        self.n = {}

    def add(self, k, v=1):
        with self.lock:
            self.n[k] = self.n.get(k, 0) + v


def type_of(rel):
    return re.sub(r"\.d\.hpp$|\.hpp$|\.d\.h$|\.h$|\.mjs$|\.d\.ts$", "", rel)


def headers_of(lang, d):
    if lang == "c":
        return U.list_files(d, [".h"])
    if lang == "cpp":
        return U.list_files(d, [".hpp"])
    return U.list_files(d, [".mjs"])


def cmd_for(lang, std, path, inc, pch=None):
    if lang == "c":
        return U.c_cmd(path, inc)
    if lang == "cpp":
        return U.cpp_cmd(path, inc, std, pch)
    return U.js_cmd(path)


def decl_implied_by_impl(d, rel):
    """X.d.hpp alone is a textual prefix of X.hpp alone when X.hpp's first #include is "X.d.hpp" (then X.hpp passing implies X.d.hpp passes
    and X.d.hpp failing implies X.hpp fails)"""
    if not rel.endswith(".d.hpp"):
        return False
    impl = rel[:-len(".d.hpp")] + ".hpp"
    p = os.path.join(d, impl)
    if not os.path.exists(p):
        return False
    m = re.search(r'^\s*#\s*include\s+["<]([^">]+)[">]', open(p, errors="replace").read(), re.M)
    return bool(m) and m.group(1) == os.path.basename(rel)


# ---------------------------------------------------------------------------------------------
# running the tool


def generate(unit, wd, rep_notes):
    for lang in unit.langs:
        variants = unit.js_configs if lang == "js" else [()]
        for variant in variants:
            tag = lang + ("-" + sha("".join(variant))[:4] if variant else "")
            out = os.path.join(wd, "out", unit.uid.replace(":", "_").replace("/", "_"), tag)
            shutil.rmtree(out, ignore_errors=True)
            r = run_tool(lang, unit.entry, out, config_file=unit.config_file, configs=unit.configs + list(variant))
            if r.returncode != 0:
                unit.rejected[tag] = (r.stderr or "").strip()[-600:]
                rep_notes.append("unit %s: %s backend did not accept the module: %s" % (unit.uid, lang, unit.rejected[tag][:200].replace("\n", " / ")))
                continue
            unit.out[tag] = (lang, out, variant)


# ---------------------------------------------------------------------------------------------
# jobs


def make_tu(wd, unit, tag, lang, name, order):
    d = os.path.join(wd, "tu", unit.uid.replace(":", "_").replace("/", "_"), tag)
    os.makedirs(d, exist_ok=True)
    p = os.path.join(d, "%s.%s" % (name, "c" if lang == "c" else "cpp"))
    txt = "".join('#include "%s"\n' % h for h in order)
    open(p, "w").write(txt)
    return p, txt


def run_job(job):
    rc, text = U.run_cmd(job["cmd"])
    job["rc"] = rc
    job["text"] = text if rc != 0 else ""
    return job


def run_jobs(jobs, deadline, skipped):
    done = []
    B = 64
    for i in range(0, len(jobs), B):
        if time.time() > deadline:
            skipped.extend(jobs[i:])
            break
        done += pmap(run_job, jobs[i:i + B])
    return done


# ---------------------------------------------------------------------------------------------
# keyword isolation


class KwProber:
    """reserved names: a packed module per role (many names per type) is the fast path; when it does not build, every suspect name is
    generated in types of its own (one header per name) and judged alone, the single-name module is generated as the witness, and
    the packed module without the failing names must build (so that no name hides behind another)"""

    def __init__(self, wd, tier, counter, pch):
        self.wd = wd
        self.tier = tier
        self.counter = counter
        self.pch = pch  # {std: dir} (quick) or {}
        self.seen_files = {}
        self.lock = threading.Lock()
        self.stats = {}

    def _gen(self, lang, tagname, src):
        d = os.path.join(self.wd, "kw", "%s-%s-%s" % (lang, tagname, sha(src)))
        os.makedirs(d, exist_ok=True)
        entry = os.path.join(d, "lib.rs")
        open(entry, "w").write(src)
        out = os.path.join(d, "out")
        shutil.rmtree(out, ignore_errors=True)
        r = run_tool(lang, entry, out)
        self.counter.add("tool_runs")
        return d, out, r

    def _jobs(self, lang, out, files, plain, mode="pack"):
        """quick tier, C++: a packed module is compiled file by file under c++17 and once as a whole (one TU including every header)
        under c++20; single-name types are compiled under c++20 only (its reserved words are a superset of c++17's). thorough: every
        file under both standards, plain command."""
        jobs = []
        for f in files:
            if lang == "cpp":
                if self.tier == "quick" and decl_implied_by_impl(out, f):
                    continue
                stds = STDS if self.tier != "quick" else (("c++17",) if mode == "pack" else ("c++20",))
                for std in stds:
                    jobs.append(dict(lang=lang, std=std, rel=f, cmd=cmd_for(lang, std, os.path.join(out, f), out, None if plain else self.pch.get(std)),
                                     plain=cmd_for(lang, std, os.path.join(out, f), out)))
            else:
                c = cmd_for(lang, None, os.path.join(out, f), out)
                jobs.append(dict(lang=lang, std=None, rel=f, cmd=c, plain=c))
        if lang == "cpp" and self.tier == "quick" and mode == "pack" and jobs:
            tu = os.path.join(os.path.dirname(out), "all.cpp")
            open(tu, "w").write("".join('#include "%s"\n' % j["rel"] for j in jobs))
            jobs.append(dict(lang=lang, std="c++20", rel=jobs[0]["rel"], tu=open(tu).read(), cmd=cmd_for(lang, "c++20", tu, out, None if plain else self.pch.get("c++20")),
                             plain=cmd_for(lang, "c++20", os.path.join(out, jobs[0]["rel"]), out)))
        return jobs

    def _run(self, lang, role, out, jobs, parallel=True):
        res = pmap(run_job, jobs) if parallel else [run_job(j) for j in jobs]
        self.counter.add("evaluations", len(res))
        self.counter.add("evaluations_" + lang, len(res))
        with self.lock:
            for j in res:
                self.seen_files[(lang, sha(open(os.path.join(out, j["rel"]), "rb").read()))] = 1
        return res

    def pack(self, lang, role, names, full=False, parallel=True):
        """packed module: tool + every generated file alone. `full`: the official check (plain command, runtime files included)"""
        src = U.kw_source(role, names)
        d, out, r = self._gen(lang, role, src)
        if r.returncode != 0:
            return dict(status="reject", text=r.stderr or "", base=out, fails=[], source=src)
        plain = full or self.tier != "quick"
        files = [f for f in headers_of(lang, out) if full or os.path.basename(f) not in RUNTIME_FILES]
        res = self._run(lang, role, out, self._jobs(lang, out, files, plain), parallel)
        fails = [j for j in res if j["rc"] != 0]
        return dict(status="fail" if fails else "ok", text="\n".join(j["text"] for j in fails), base=out, fails=fails, source=src)

    def singles(self, lang, role, names):
        """{name: result} for every name of `names` whose own types do not build (or which the backend refuses)"""
        plain = self.tier != "quick"
        src = U.kw_single_source(role, names)
        d, out, r = self._gen(lang, role + "-singles", src)
        bad = {}
        if r.returncode != 0:
            # a refused name takes the whole module down: offer every name alone
            for n, res in zip(names, pmap(lambda n: self.single(lang, role, n, None), names)):
                if res["status"] != "ok":
                    bad[n] = res
            return bad
        files = [f for f in headers_of(lang, out) if os.path.basename(f) not in RUNTIME_FILES]
        owner = {}
        for n in names:
            for t in U.kw_types(role, n):
                owner[t] = n
        jobs = []
        for j in self._jobs(lang, out, files, plain, mode="single"):
            j["name"] = owner.get(os.path.basename(type_of(j["rel"])))
            if j["name"] is not None:
                jobs.append(j)
        res = self._run(lang, role, out, jobs)
        failing = {}
        for j in res:
            if j["rc"] != 0:
                failing.setdefault(j["name"], []).append(j)
        for n, res1 in zip(sorted(failing), pmap(lambda n: self.single(lang, role, n, (out, failing[n])), sorted(failing))):
            if res1["status"] != "ok":
                bad[n] = res1
        return bad

    def single(self, lang, role, n, known):
        """the single-name module (= the witness). `known` = (out dir, failing jobs) of the same types generated inside a bigger module:
        when the single-name module's files are byte-identical the verdict carries over, otherwise they are compiled"""
        src = U.kw_single_source(role, [n])
        d, out, r = self._gen(lang, role + "-1", src)
        if r.returncode != 0:
            return dict(status="reject", text=r.stderr or "", base=out, fails=[], source=src)
        files = [f for f in headers_of(lang, out) if os.path.basename(f) not in RUNTIME_FILES]
        if known:
            kout, kjobs = known
            same = all(os.path.exists(os.path.join(kout, f)) and open(os.path.join(kout, f), "rb").read() == open(os.path.join(out, f), "rb").read() for f in files)
            if same:
                self.counter.add("single_name_modules_identical_to_packed_types")
                fails = [dict(j, plain=cmd_for(lang, j["std"], os.path.join(out, j["rel"]), out)) for j in kjobs]
                return dict(status="fail", text="\n".join(j["text"] for j in fails), base=out, fails=fails, source=src)
        res = self._run(lang, role, out, self._jobs(lang, out, files, self.tier != "quick", mode="single"), parallel=False)
        fails = [j for j in res if j["rc"] != 0]
        return dict(status="fail" if fails else "ok", text="\n".join(j["text"] for j in fails), base=out, fails=fails, source=src)

    def analyse(self, lang, role, names):
        """returns (first pack result, {name | ('pack', names): result})"""
        t = time.time()
        first = self.pack(lang, role, names, full=True)
        bad = {}
        if first["status"] != "ok":
            cur, res = list(names), first
            for rnd in range(3):
                # a diagnostic can hide later ones in the same construct: the second round offers every remaining name
                sus = U.suspects(cur, res["text"], res["base"]) if rnd == 0 else []
                if not sus or res["status"] == "reject":
                    sus = list(cur)
                found = self.singles(lang, role, sus)
                bad.update(found)
                cur = [n for n in cur if n not in found]
                if not cur:
                    break
                res = self.pack(lang, role, cur)
                if res["status"] == "ok":
                    break
                if not found and len(sus) == len(cur):
                    # every name builds alone but the packed module does not
                    bad[("pack", tuple(cur))] = res
                    break
            else:
                bad[("pack", tuple(cur))] = res
        self.stats["%s/%s" % (lang, role)] = {"names": len(names), "failing": sum(1 for k, r in bad.items() if r["status"] == "fail" and isinstance(k, str)),
                                             "refused_by_backend": sorted(k for k, r in bad.items() if r["status"] == "reject" and isinstance(k, str)),
                                             "packed_module": first["status"], "wall_s": round(time.time() - t, 1)}
        return first, bad


# ---------------------------------------------------------------------------------------------
# replay machinery (also used to confirm witnesses before they are reported)


_FFIX_JS = {}


def ffix_js_entry(b, d, info=None):
    key = (b["crate"], len(b["methods"]))
    if key in _FFIX_JS and os.path.exists(_FFIX_JS[key]):
        return _FFIX_JS[key]
    _FFIX_JS[key] = _ffix_js_entry(b, d, info)
    return _FFIX_JS[key]


def _ffix_js_entry(b, d, info=None):
    """the JS backend refuses some method shapes of the ffix crate (its own gate: callbacks; crashes: C15's domain): every method is
    offered to the JS backend alone (methods are independent units) and the accepted ones form the JS input"""
    os.makedirs(d, exist_ok=True)

    decl = {st.name: st.decl() for st in b["types"]["structs"]}

    def small_types(m):
        # only the structs the method mentions (transitively): every probe would otherwise regenerate the whole struct universe
        text, need, grew = F.rust_method(m), set(), True
        while grew:
            grew = False
            for name, dtext in decl.items():
                if name not in need and re.search(r"\b%s\b" % re.escape(name), text):
                    need.add(name)
                    text += dtext
                    grew = True
        return dict(b["types"], structs=[st for st in b["types"]["structs"] if st.name in need], owners=[m["owner"]])

    def one(m):
        pd = os.path.join(d, "m%d" % m["i"])
        os.makedirs(pd, exist_ok=True)
        p = os.path.join(pd, "lib.rs")
        open(p, "w").write(F.render_crate(small_types(m), [m]))
        r = run_tool("js", p, os.path.join(pd, "out"))
        shutil.rmtree(pd, ignore_errors=True)
        return (m, r.returncode, (r.stderr or "").strip().splitlines()[:2])
    res = pmap(one, b["methods"])
    ok = [m for (m, rc, _e) in res if rc == 0]
    if info is not None:
        info["offered"] = len(res)
        info["accepted"] = len(ok)
        rej = {}
        for (m, rc, e) in res:
            if rc != 0:
                rej.setdefault(" / ".join(e)[:160], []).append(c01.shape_of(m))
        info["refused"] = {k: sorted(set(v))[:12] for k, v in rej.items()}
    p = os.path.join(d, "lib.rs")
    open(p, "w").write(F.render_crate(b["types"], ok))
    return p


_BUILD_ALL = {}


def build_all_once(tier):
    if tier not in _BUILD_ALL:
        _BUILD_ALL[tier] = c01.build_all(tier)
    return _BUILD_ALL[tier]


def materialise(w, d):
    """write the witness' bridge source, run the real tool, return (out dir, tool result)"""
    os.makedirs(d, exist_ok=True)
    if w.get("source") is not None:
        entry = os.path.join(d, "lib.rs")
        open(entry, "w").write(w["source"])
    elif w.get("entry_kind", "").startswith("ffix:"):
        b = build_all_once(w["entry_kind"].split(":")[-1])
        entry = os.path.join(b["crate"], "src", "lib.rs")
        if w["entry_kind"].startswith("ffix:js:"):
            entry = ffix_js_entry(b, os.path.join(d, "ffix-js"))
    else:
        entry = w["entry"].replace("/repo/", REPO + "/") if w["entry"].startswith("/repo/") else w["entry"]
    out = os.path.join(d, "out")
    shutil.rmtree(out, ignore_errors=True)
    cf = w.get("config_file")
    if cf and cf.startswith("/repo/"):
        cf = cf.replace("/repo/", REPO + "/")
    r = run_tool(w["lang"], entry, out, config_file=cf, configs=w.get("configs") or [])
    return out, r


def recheck(w, d):
    """re-run exactly the witness' compiler command on freshly generated output. returns (failed?, text, command string)"""
    if w.get("stage") == "cargo":
        dd, p = U.build_shapes_crate("quick", {w["module"]: w["source"]}, variant="-replay")
        return p.returncode != 0, p.stderr, "cargo build --offline  (in %s)" % dd
    if w.get("stage") == "closure":
        out, r = materialise(w, d)
        if r.returncode != 0:
            raise MachineryError("replay: the tool no longer accepts the witness: " + (r.stderr or "")[-800:])
        bad = closure_problems(w["lang"], out)
        return bool(bad), "\n".join("%s -> %s: %s" % b for b in bad), "closure(%s)" % out
    out, r = materialise(w, d)
    if r.returncode != 0:
        raise MachineryError("replay: the tool no longer accepts the witness: " + (r.stderr or "")[-800:])
    if w.get("tu") is not None:
        path = os.path.join(d, "tu." + ("c" if w["lang"] == "c" else "cpp"))
        open(path, "w").write(w["tu"])
    else:
        path = os.path.join(out, w["file"])
    cmd = cmd_for(w["lang"], w.get("std"), path, out)
    rc, text = U.run_cmd(cmd)
    return rc != 0, text, " ".join(cmd)


def closure_problems(lang, out):
    bad = []
    if lang in ("c", "cpp"):
        hs = headers_of(lang, out)
        _n, b = U.include_closure(out, hs)
        bad += [(f, t, "not a generated file") for (f, t) in b]
        for g, fs in U.guards(out, hs).items():
            if len(fs) > 1:
                bad.append((fs[0], fs[1], "same include guard " + g))
            elif g.startswith("<none>:"):
                bad.append((fs[0], fs[0], "no include guard"))
    else:
        fs = U.list_files(out, [".mjs", ".d.ts"])
        _n, b = U.js_import_closure(out, fs, JS_EXTERNAL)
        bad += b
    return bad


# ---------------------------------------------------------------------------------------------


def ffix_shapes(b, out, text):
    """method shapes mentioned around the diagnostics of a failing ffix header"""
    by_name = {m["name"]: m for m in b["methods"]}
    shapes = []
    for (f, ln) in U.error_locations(text):
        p = f if os.path.isabs(f) else os.path.join(out, f)
        try:
            lines = open(p, errors="replace").read().splitlines()
        except OSError:
            continue
        for k in range(ln - 1, max(-1, ln - 8), -1):
            if 0 <= k < len(lines):
                ms = [x for x in re.findall(r"\b(?:T\w+?_)?((?:pr|cb|p|r|w)\d+)\b", lines[k]) if x in by_name]
                if ms:
                    s = c01.shape_of(by_name[ms[0]])
                    if s not in shapes:
                        shapes.append((s, by_name[ms[0]]))
                    break
    seen, out2 = set(), []
    for s, m in shapes:
        if s not in seen:
            seen.add(s)
            out2.append((s, m))
    return out2[:6]


def rustc_errors(stderr):
    """{module: [error lines]} from `cargo build --message-format=short`"""
    out = {}
    for l in stderr.splitlines():
        m = re.match(r"^src/(\w+)\.rs:\d+:\d+: error", l)
        if m:
            out.setdefault(m.group(1), []).append(l)
    return out


def macro_isolate(tier, modules, role_names, stderr, crate, rep, cnt, cb_ok=()):
    """the crate holding every generated module does not build: attribute the rustc errors to modules, and inside keyword packs to
    names (confirmed by single-name modules in a second crate); returns the set of modules / names whose expansion does not type-check"""
    cur = dict(modules)
    left = {r: list(role_names[r]) for r in U.ROLES}
    cb_left = list(cb_ok)
    failed = set()
    crate_dir = crate
    for _it in range(4):
        errs = rustc_errors(stderr)
        if not errs:
            raise MachineryError("shapes crate failed to build without a located error:\n" + stderr[-4000:])
        iso = {}
        for mod, lines in sorted(errs.items()):
            role = next((r for r in U.ROLES if "kw_" + r.replace("-", "_") == mod), None)
            sus = U.suspects(left[role], "\n".join(lines), crate_dir) if role else []
            if role and sus and len(sus) < len(left[role]):
                for n in sus:
                    iso["kwx_%s_%s" % (role.replace("-", "_"), sha(n)[:6])] = (role, n, U.kw_source(role, [n], sfx="X" + sha(n)[:6]))
                left[role] = [n for n in left[role] if n not in sus]
                cur[mod] = U.kw_source(role, left[role])
            elif mod == "cb" and len(cb_left) > 1:
                # rustc locates errors of the expansion at the attribute (1:1): every callback construct goes into a module of its own
                names = [it[0] for it in cb_left]
                for (name, label, _snip) in cb_left:
                    x = "X" + sha(name)[:6]
                    item = next(it for it in U.cb_items(tier, x) if it[0] == name + x)
                    iso["cbx_" + sha(name)[:6]] = (label, None, U.cb_source([item], x))
                cb_left = []
                cur.pop(mod, None)
            else:
                failed.add(mod)
                msg = re.sub(r"^src/\w+\.rs:\d+:\d+: ", "", lines[0])
                rep.violation("C09|macro|%s|%s" % (mod, U.norm_error(msg)), {"stage": "cargo", "module": mod, "source": cur.get(mod, ""), "errors": lines[:8], "cmd": "cargo build --offline"},
                              "bridge module `%s` is accepted by the tool but its proc-macro expansion does not type-check: %s" % (mod, msg[:200]))
                cur.pop(mod, None)
        mods2 = dict(cur)
        mods2.update({k: v[2] for k, v in iso.items()})
        crate_dir, p2 = U.build_shapes_crate(tier, mods2, variant="-iso")
        cnt.add("cargo_builds")
        errs2 = rustc_errors(p2.stderr)
        for k, (role, n, src) in sorted(iso.items()):
            if k in errs2 and n is None:
                parts = role.split("|")
                if len(parts) == 3:
                    bad_labels = {v[0] for kk, v in iso.items() if kk in errs2 and v[1] is None}
                    alone = [x for x in ("%s|%s" % (parts[0], parts[1]), "%s|%s" % (parts[0], parts[2])) if x in bad_labels]
                    role = alone[0] if alone else role
                failed.add(role)
                msg = re.sub(r"^src/\w+\.rs:\d+:\d+: ", "", errs2[k][0])
                rep.violation("C09|macro|%s" % role, {"stage": "cargo", "module": k, "source": src, "errors": errs2[k][:8], "cmd": "cargo build --offline"},
                              "construct `%s` is accepted by the tool but the proc-macro expansion does not type-check: %s" % (role, msg[:200]))
            elif k in errs2:
                failed.add("%s:%s" % (role, n))
                msg = re.sub(r"^src/\w+\.rs:\d+:\d+: ", "", errs2[k][0])
                rep.violation("C09|macro|name-clash|%s|%s" % (role, n), {"stage": "cargo", "module": k, "source": src, "errors": errs2[k][:8], "cmd": "cargo build --offline"},
                              "the proc-macro expansion does not type-check when a %s is named `%s`: %s" % (role, n, msg[:200]))
        remaining = {m: l for m, l in errs2.items() if not m.startswith(("kwx_", "cbx_"))}
        if p2.returncode == 0 or not remaining:
            if p2.returncode != 0 and not errs2:
                raise MachineryError("isolation crate failed to build without a located error:\n" + p2.stderr[-4000:])
            return failed
        stderr = "\n".join(l for ls in remaining.values() for l in ls)
    raise MachineryError("macro isolation did not converge:\n" + stderr[-3000:])


def run(tier):
    rep = Reporter("C09", tier, "exploration")
    t0 = time.time()
    deadline = t0 + BUDGET[tier]
    build_tool()
    wd = workdir("C09")
    cnt = Counter()
    notes = []
    timing = {}

    # ------------------------------------------------------------------ (A) shared ffix crate
    b = build_all_once(tier)
    if not b["ok"]:
        if b["stage"] == "cargo":
            rep.violation("C09|macro|ffix|" + U.norm_error(b["stderr"]), {"stage": "cargo", "crate": b["crate"], "errors": U.first_errors(b["stderr"], 12)},
                          "the proc-macro expansion of the generated ffix bridge crate does not type-check: %s" % U.first_errors(b["stderr"], 1))
            return rep.finish({"evaluations": 1, "distinct_nontrivial": 1, "rule": "n/a", "exhaustive": False, "samples": ["ffix crate failed to build"], "distinct_outcomes": 2})
        raise MachineryError("ffix: C backend refused the generated crate:\n" + b["stderr"][-4000:])
    cnt.add("cargo_builds")
    timing["ffix_build"] = round(time.time() - t0, 1)
    units = []
    ua = Unit("ffix", os.path.join(b["crate"], "src", "lib.rs"), ffix_tier=tier, langs=("cpp",))
    units.append(ua)
    ffix_js_info = {}
    tj = time.time()
    units.append(Unit("ffix-js", ffix_js_entry(b, os.path.join(wd, "ffix-js"), ffix_js_info), ffix_tier="js:" + tier, langs=("js",)))
    cnt.add("tool_runs", ffix_js_info["offered"])
    timing["ffix_js_gate"] = round(time.time() - tj, 1)

    # ------------------------------------------------------------------ (B) generated shapes, one crate
    allnames = U.universe()
    legal = U.rust_legal(allnames, os.path.join(wd, "rustnames"))
    value_names = [n for n in allnames if legal[n]["value"]]
    type_names = [n for n in allnames if legal[n]["type"] and U.type_role_name_ok(n)]
    rust_illegal = [n for n in allnames if not legal[n]["value"]]
    role_names = {r: (type_names if r == "type" else value_names) for r in U.ROLES}

    # callbacks: keep the shapes the lowering gate accepts (each probed alone through the real tool)
    cb_all = U.cb_items(tier)

    def cb_gate(item):
        name, label, snip = item
        d = os.path.join(wd, "cbgate", name)
        os.makedirs(d, exist_ok=True)
        p = os.path.join(d, "lib.rs")
        open(p, "w").write(U.cb_source([item]))
        r = run_tool("c", p, os.path.join(d, "out"), configs=["unsafe_references_in_callbacks=true"])
        return (item, r.returncode, r.stderr or "")
    cb_ok, cb_rejected = [], []
    for item, rc, err in pmap(cb_gate, cb_all):
        cnt.add("tool_runs")
        if rc == 0:
            cb_ok.append(item)
        elif "Lowering error" in err:
            cb_rejected.append(item[1])
        else:
            raise MachineryError("callback probe %s: C backend failed without a lowering error: %s" % (item[0], err[-600:]))
    if not cb_ok:
        raise MachineryError("no callback shape accepted by the gate")
    shutil.rmtree(os.path.join(wd, "cbgate"), ignore_errors=True)

    modules = dict(U.SHAPE_GROUPS)
    modules.update(U.OPTIONAL_GROUPS)
    modules.update(U.GATE_OPTIONAL_GROUPS)
    modules["cb"] = U.cb_source(cb_ok)
    for r in U.ROLES:
        modules["kw_" + r.replace("-", "_")] = U.kw_source(r, role_names[r])
    tb = time.time()
    crate, p = U.build_shapes_crate(tier, modules)
    cnt.add("cargo_builds")
    macro_failed = set()
    if p.returncode != 0:
        macro_failed = macro_isolate(tier, modules, role_names, p.stderr, crate, rep, cnt, cb_ok)
    timing["shapes_build"] = round(time.time() - tb, 1)
    cb_labels = {name: label for (name, label, _s) in cb_ok}
    for g in sorted(U.SHAPE_GROUPS):
        units.append(Unit("shape:" + g, os.path.join(crate, "src", g + ".rs"), source=modules[g], small=True))
    units.append(Unit("shape:cb", os.path.join(crate, "src", "cb.rs"), source=modules["cb"], configs=["unsafe_references_in_callbacks=true"], small=False, labels=cb_labels))
    for g in sorted(U.OPTIONAL_GROUPS):
        u = Unit("shape:" + g, os.path.join(crate, "src", g + ".rs"), source=modules[g], small=True)
        u.optional = True
        units.append(u)
    for g in sorted(U.GATE_OPTIONAL_GROUPS):
        u = Unit("shape:" + g, os.path.join(crate, "src", g + ".rs"), source=modules[g], small=True)
        u.optional = True
        u.gate_optional = True   # the lowering gate itself may refuse it (it does on the unchanged tree)
        units.append(u)

    # ------------------------------------------------------------------ (C) the repository's own bridges
    for name in ("feature_tests", "example"):
        cf = os.path.join(REPO, name, "config.toml")
        units.append(Unit("repo:" + name, os.path.join(REPO, name, "src", "lib.rs"), config_file=cf if os.path.exists(cf) else None,
                          js_configs=[("js.abi=spec",), ("js.abi=legacy",)] if name == "feature_tests" else [("js.abi=spec",)]))

    tg = time.time()
    deadline = tg + BUDGET[tier]
    pmap(lambda u: generate(u, wd, notes), units)
    ua.out["c"] = ("c", b["hdr"], ())  # generated by c01.build_all just now
    cnt.add("tool_runs", sum(len(u.out) + len(u.rejected) for u in units))
    timing["generate"] = round(time.time() - tg, 1)
    for u in units:
        for tag in list(u.rejected):
            if "Lowering error" in u.rejected[tag] and not u.uid.startswith("repo:") and not getattr(u, "gate_optional", False):
                raise MachineryError("generated module %s is rejected by the gate (%s): %s" % (u.uid, tag, u.rejected[tag]))
        if not u.out and not u.optional:
            raise MachineryError("no backend accepted %s: %s" % (u.uid, u.rejected))

    # ------------------------------------------------------------------ standalone jobs
    jobs = []
    bound = {"tier": tier, "units": {}, "cpp_quick_subset": None}
    implied = 0
    checked_files = {}
    for u in units:
        for tag, (lang, out, variant) in sorted(u.out.items()):
            files = headers_of(lang, out)
            if not files:
                raise MachineryError("%s %s: the tool produced no files" % (u.uid, tag))
            sel = files
            if lang == "cpp" and tier == "quick":
                if u.uid == "ffix":
                    def keep(f):
                        m = re.match(r"^L(\d+)$", type_of(f))
                        return (not m) or int(m.group(1)) % 6 == 0
                    sel = [f for f in files if keep(f)]
                    bound["cpp_quick_subset"] = "ffix C++ headers alone: every type except struct-universe members L<k> with k % 6 != 0 (" + "%d of %d files)" % (len(sel), len(files))
                sel2 = []
                for f in sel:
                    if decl_implied_by_impl(out, f):
                        implied += 1
                    else:
                        sel2.append(f)
                sel = sel2
            bound["units"].setdefault(u.uid, {})[tag] = {"files": len(files), "checked_alone": len(sel)}
            for f in sel:
                # quick: every header alone under c++17; c++20 sees every header through the all-headers TUs (sorted / reversed) and
                # alone again wherever c++17 or a c++20 TU fails. thorough: every header alone under both standards.
                for std in ((None,) if lang != "cpp" else (STDS if tier == "thorough" else ("c++17",))):
                    jobs.append(dict(kind="alone", unit=u, tag=tag, lang=lang, std=std, rel=f, out=out, variant=variant,
                                     cmd=cmd_for(lang, std, os.path.join(out, f), out)))
                checked_files[(lang, sha(open(os.path.join(out, f), "rb").read()))] = (u.uid, f)
    prio = {"shape": 0, "ffix": 1, "repo": 2}
    jobs.sort(key=lambda j: (prio.get(j["unit"].uid.split(":")[0], 3), j["lang"] != "cpp"))
    skipped = []

    # ------------------------------------------------------------------ keyword packs (own thread pool; compiler processes share U._SLOTS)
    tk = time.time()
    pch = {}
    if tier == "quick":
        anycpp = next((o for u in units for (l, o, _v) in u.out.values() if l == "cpp"), None)

        def mk_pch(std):
            d = os.path.join(wd, "pch", std)
            os.makedirs(d, exist_ok=True)
            shutil.copy(os.path.join(anycpp, "diplomat_runtime.hpp"), os.path.join(d, "diplomat_runtime.hpp"))
            rc, text = U.run_cmd(["g++", "-std=" + std, "-x", "c++-header", os.path.join(d, "diplomat_runtime.hpp"), "-o", os.path.join(d, "diplomat_runtime.hpp.gch")])
            return (std, d if rc == 0 else None)
        pch = {s: d for (s, d) in pmap(mk_pch, STDS) if d}
    prober = KwProber(wd, tier, cnt, pch)
    kw_results, kw_first, kw_err = {}, {}, []

    def kw_one(job):
        lang, role = job
        if time.time() > deadline:
            skipped.append(dict(kind="kw", lang=lang, rel=role))
            return
        try:
            first, bad = prober.analyse(lang, role, role_names[role])
            kw_results[(lang, role)] = bad
            kw_first[(lang, role)] = first
        except Exception as e:  # re-raised in the main thread
            kw_err.append(e)

    def kw_all():
        pmap(kw_one, [(lang, role) for lang in ("cpp", "c", "js") for role in U.ROLES], workers=5)
        timing["keywords"] = round(time.time() - tk, 1)
    kw_thread = threading.Thread(target=kw_all)
    kw_thread.start()

    # ------------------------------------------------------------------ run the standalone jobs
    ts = time.time()
    done = run_jobs(jobs, deadline, skipped)
    if tier == "quick":
        done += run_jobs([dict(j, std="c++20", cmd=cmd_for("cpp", "c++20", os.path.join(j["out"], j["rel"]), j["out"])) for j in done if j["lang"] == "cpp" and j["rc"] != 0],
                         deadline, skipped)
    timing["standalone"] = round(time.time() - ts, 1)

    # ------------------------------------------------------------------ TU / include-order jobs (headers that fail alone are left out)
    failing_alone = {(j["unit"].uid, j["tag"], j["rel"]) for j in done if j["rc"] != 0}
    tujobs = []
    for u in units:
        for tag, (lang, out, variant) in sorted(u.out.items()):
            if lang == "js":
                continue
            hs = [h for h in headers_of(lang, out) if (u.uid, tag, h) not in failing_alone]
            if lang == "cpp":
                hs = [h for h in hs if (u.uid, tag, h[:-len(".d.hpp")] + ".hpp" if h.endswith(".d.hpp") else h) not in failing_alone]
            if len(hs) < 2:
                continue
            orders = [("sorted", hs), ("reverse", hs[::-1])]
            stds = STDS if lang == "cpp" else (None,)
            if u.small:
                rot_stds = stds if (tier == "thorough" or lang == "c") else ("c++17",)
                for k in range(1, len(hs)):
                    for std in rot_stds:
                        orders.append(("rot%d" % k, hs[k:] + hs[:k], std))
                if tier == "thorough" or lang == "c":
                    for a, bb in itertools.permutations(hs, 2):
                        if os.path.basename(a) in RUNTIME_FILES or os.path.basename(bb) in RUNTIME_FILES:
                            continue
                        for std in stds:
                            orders.append(("pair:%s<%s" % (a, bb), [a, bb], std))
            for o in orders:
                name, order = o[0], o[1]
                for std in ((o[2],) if len(o) > 2 else stds):
                    path, txt = make_tu(wd, u, tag, lang, "%s-%s-%s" % (re.sub(r"[^\w]", "_", name)[:40], sha(name)[:6], std or "c11"), order)
                    tujobs.append(dict(kind="tu", unit=u, tag=tag, lang=lang, std=std, rel=name, out=out, variant=variant, tu=txt, cmd=cmd_for(lang, std, path, out)))
    tujobs.sort(key=lambda j: (j["rel"].startswith("pair"), j["rel"].startswith("rot"), j["lang"] == "cpp"))
    tt = time.time()
    done_tu = run_jobs(tujobs, deadline, skipped)
    if tier == "quick":
        # a c++20 TU fails: look at that unit's headers alone under c++20; if one fails alone the TU failure is its consequence
        bad20 = {(j["unit"].uid, j["tag"]) for j in done_tu if j["rc"] != 0 and j["std"] == "c++20"}
        more = run_jobs([dict(j, std="c++20", cmd=cmd_for("cpp", "c++20", os.path.join(j["out"], j["rel"]), j["out"])) for j in done
                         if j["lang"] == "cpp" and j["std"] == "c++17" and j["rc"] == 0 and (j["unit"].uid, j["tag"]) in bad20], deadline, skipped)
        done += more
        failing20 = {(j["unit"].uid, j["tag"]) for j in more if j["rc"] != 0}
        done_tu = [j for j in done_tu if not (j["rc"] != 0 and j["std"] == "c++20" and (j["unit"].uid, j["tag"]) in failing20)]
    timing["tus"] = round(time.time() - tt, 1)

    # ------------------------------------------------------------------ keyword results
    kw_thread.join()
    if kw_err:
        raise kw_err[0]
    for (lang, role), first in sorted(kw_first.items()):
        if first["status"] != "reject":
            for (f, t, why) in closure_problems(lang, first["base"]):
                rep.violation("C09|%s|%s|kw:%s|%s -> %s (%s)" % (lang, "import" if lang == "js" else "include", role, f, t, why),
                              {"unit": "kw:" + role, "lang": lang, "stage": "closure", "source": first["source"], "file": f, "target": t, "why": why, "configs": []},
                              "%s output of the %s keyword pack: `%s` refers to `%s`: %s" % (lang, role, f, t, why))
    kw_stats = prober.stats
    predeclared_failures = []
    for (lang, role), bad in sorted(kw_results.items()):
        for k, r in sorted(bad.items(), key=lambda kv: str(kv[0])):
            if r["status"] == "reject":
                continue
            j = sorted(r["fails"], key=lambda x: (len(x["rel"]), x["rel"], x["std"] or ""))[0]
            if isinstance(k, tuple):
                key = "C09|%s|keyword-pack|%s|%s" % (lang, role, sha(" ".join(k[1])))
                what = "%s output of a module using %d reserved names as %s does not build although each name alone does: %s" % (lang, len(k[1]), role, U.first_errors(j["text"], 1))
            else:
                if U.name_class(lang, k) == "predeclared":
                    # names given a meaning by system headers / the JS global object (NULL, EOF, size_t, constructor, ...) are not
                    # reserved words: no generator can avoid every macro of <stdio.h>; recorded, not judged
                    predeclared_failures.append("%s|%s|%s" % (lang, role, k))
                    continue
                key = "C09|%s|%s|%s|%s" % (lang, U.name_class(lang, k), role, k)
                if role == "type":
                    # one root cause (type names are never escaped): one key per language, the names go into the message
                    key = "C09|%s|keyword|type" % lang
                what = "%s output does not build when a %s is named `%s` (%s): %s" % (lang, role, k, " ".join(os.path.basename(x) if x.startswith("/") else x for x in j["plain"]), U.first_errors(j["text"], 1))
            w = {"unit": "kw:" + role, "lang": lang, "std": j["std"], "source": r["source"], "file": j["rel"], "cmd": " ".join(j["plain"]), "errors": U.first_errors(j["text"], 6),
                 "failing_files": sorted({"%s%s" % (x["rel"], (" -std=" + x["std"]) if x["std"] else "") for x in r["fails"]}), "configs": []}
            if j.get("tu"):
                w["tu"] = j["tu"]
            rep.violation(key, w, what)

    # ------------------------------------------------------------------ closure checks
    edges = 0
    for u in units:
        for tag, (lang, out, variant) in sorted(u.out.items()):
            fs = headers_of(lang, out) if lang != "js" else U.list_files(out, [".mjs", ".d.ts"])
            if lang == "js":
                n, _b = U.js_import_closure(out, fs, JS_EXTERNAL)
                idx = os.path.join(out, "index.mjs")
                if not os.path.exists(idx):
                    rep.violation("C09|js|import|%s|index.mjs missing" % u.uid, dict(u.witness_base(lang, variant), stage="closure"), "the JS backend wrote no index.mjs")
            else:
                n, _b = U.include_closure(out, fs)
            edges += n
            for (f, t, why) in closure_problems(lang, out):
                ty = type_of(f)
                key = "C09|%s|%s|%s|%s -> %s (%s)" % (lang, "import" if lang == "js" else "include", u.uid, ty if lang != "js" else f, t, why)
                rep.violation(key, dict(u.witness_base(lang, variant), stage="closure", file=f, target=t, why=why),
                              "%s output of %s: `%s` refers to `%s`: %s" % (lang, u.uid, f, t, why))
    cnt.add("closure_edges", edges)

    # ------------------------------------------------------------------ classify failing standalone / TU jobs
    groups = {}
    for j in done:
        if j["rc"] != 0:
            # the type whose generated file holds the first diagnostic (a header fails in every header that includes it)
            cause = j["rel"]
            if os.path.basename(type_of(cause)) not in j["unit"].labels:
                for (f, _ln) in U.error_locations(j["text"]):
                    fa = os.path.abspath(f)
                    if fa.startswith(os.path.abspath(j["out"]) + os.sep) and os.path.basename(fa) not in RUNTIME_FILES:
                        cause = os.path.relpath(fa, j["out"])
                        break
            j["cause"] = cause
            groups.setdefault((j["unit"].uid, j["lang"], j["tag"], type_of(cause)), []).append(j)
    confirm = []
    for (uid, lang, tag, ty), js in sorted(groups.items(), key=lambda kv: kv[0]):
        u = js[0]["unit"]
        stds_failed = sorted({j["std"] for j in js if j["std"]})
        std_note = "" if lang != "cpp" or len(stds_failed) == len(STDS) else "|%s-only" % stds_failed[0]
        j0 = sorted(js, key=lambda j: (type_of(j["rel"]) != ty, len(j["text"]), j["rel"], j["std"] or ""))[0]
        w = dict(u.witness_base(lang, j0["variant"]), std=j0["std"], file=j0["rel"], cmd=" ".join(j0["cmd"]), errors=U.first_errors(j0["text"], 6),
                 failing_files=sorted({"%s%s" % (x["rel"], (" -std=" + x["std"]) if x["std"] else "") for x in js}))
        base = os.path.basename(ty)
        if base in u.labels or ty in u.labels:
            label = u.labels.get(base) or u.labels.get(ty)
            # a (param kind, return kind) pair that fails together with one of its kinds alone is the same finding as that kind
            parts = label.split("|")
            if len(parts) == 3:
                failing_labels = {u.labels.get(os.path.basename(g[3])) for g in groups if g[0] == uid and g[1] == lang}
                alone = [x for x in ("%s|%s" % (parts[0], parts[1]), "%s|%s" % (parts[0], parts[2])) if x in failing_labels]
                if alone:
                    label = alone[0]
            key = "C09|%s|%s%s" % (lang, label, std_note)
            item = next((it for it in cb_ok if it[0] == base), None)
            if item:
                w["source"] = U.cb_source([item])
            what = "%s output for construct `%s` (%s) does not compile alone: %s" % (lang, label, j0["rel"], U.first_errors(j0["text"], 1))
            rep.violation(key, w, what)
            continue
        if uid == "ffix":
            shapes = ffix_shapes(b, j0["out"], "\n".join(j["text"] for j in js))
            if shapes:
                for s, m in shapes:
                    w2 = dict(w, method=F.rust_method(m))
                    rep.violation("C09|%s|ffix|%s%s" % (lang, s, std_note), w2, "%s header %s of the ffix crate does not compile alone; diagnostics point at method %s_%s `%s`: %s"
                                  % (lang, j0["rel"], m["owner"], m["name"], s, U.first_errors(j0["text"], 1)))
                continue
        key = "C09|%s|standalone|%s|%s%s" % (lang, uid, ty if lang != "js" else j0["rel"], std_note)
        rep.violation(key, w, "%s file %s generated for %s does not %s alone: %s" % (lang, j0["rel"], uid, "parse" if lang == "js" else "compile", U.first_errors(j0["text"], 1)))
    tu_groups = {}
    for j in done_tu:
        if j["rc"] != 0:
            tu_groups.setdefault((j["unit"].uid, j["lang"], j["tag"]), []).append(j)
    for (uid, lang, tag), js in sorted(tu_groups.items()):
        u = js[0]["unit"]
        pairs = sorted({j["rel"] for j in js if j["rel"].startswith("pair:")})
        if pairs:
            sel = [next(j for j in js if j["rel"] == p) for p in pairs]
        else:
            sel = [sorted(js, key=lambda j: (len(j["tu"]), j["rel"], j["std"] or ""))[0]]
        for j in sel[:12]:
            name = j["rel"] if j["rel"].startswith("pair:") else ("%s|%s" % (j["rel"] if not j["rel"].startswith("rot") else "rotation", U.norm_error(j["text"])))
            w = dict(u.witness_base(lang, j["variant"]), std=j["std"], tu=j["tu"], cmd=" ".join(j["cmd"]), errors=U.first_errors(j["text"], 6), failing_orders=sorted({x["rel"] for x in js})[:20])
            rep.violation("C09|%s|include-order|%s|%s" % (lang, uid, name), w,
                          "%s headers of %s each compile alone but not when included as %s: %s" % (lang, uid, j["rel"], U.first_errors(j["text"], 1)))

    # every reported (non-keyword) violation is re-run once from its witness (determinism + witness validity)
    for v in list(rep.violations):
        w = json.load(open(v["path"]))["witness"]
        if w.get("unit", "").startswith("kw:") or w.get("stage") == "cargo":
            continue
        failed, text, cmdline = recheck(w, os.path.join(wd, "confirm", sha(v["key"])))
        cnt.add("evaluations")
        if not failed:
            raise MachineryError("violation %s did not reproduce from its witness (%s): nondeterministic harness" % (v["key"], cmdline))

    # ------------------------------------------------------------------ evidence
    all_done = done + done_tu
    per_lang = {}
    for j in all_done:
        per_lang.setdefault(j["lang"], {"alone": 0, "alone_failed": 0, "tu": 0, "tu_failed": 0})
        per_lang[j["lang"]][j["kind"]] += 1
        if j["rc"] != 0:
            per_lang[j["lang"]][j["kind"] + "_failed"] += 1
    evaluations = len(all_done) + cnt.n.get("evaluations", 0) + cnt.n.get("cargo_builds", 0)
    outcomes = {("ok" if j["rc"] == 0 else U.norm_error(j["text"])[:40]) for j in all_done}
    for (lang, role), bad in kw_results.items():
        outcomes.add("kw-ok")
        for k, r in bad.items():
            outcomes.add("kw-" + r["status"])
    samples = []
    for j in (done[:: max(1, len(done) // 5)][:5] + done_tu[:: max(1, len(done_tu) // 3)][:3]):
        samples.append({"unit": j["unit"].uid, "file": j["rel"], "cmd": " ".join(j["cmd"]), "exit": j["rc"]})
    distinct_files = len(checked_files) + len(prober.seen_files)
    cov = {
        "evaluations": evaluations,
        "distinct_nontrivial": distinct_files,
        "rule": "evaluations = compiler / node / cargo invocations judged by exit status; distinct_nontrivial = generated files with distinct content checked alone "
                "(each C++ file under two standards, counted once)",
        "exhaustive": not skipped,
        "distinct_outcomes": len(outcomes),
        "bound": dict(bound, reserved_names=len(allnames), names_legal_in_rust=len(value_names), type_role_names=len(type_names), rust_keywords_skipped=rust_illegal,
                      roles=U.ROLES, keyword_stats=kw_stats, callback_shapes_accepted=len(cb_ok), callback_shapes_rejected_by_gate=sorted(cb_rejected),
                      decl_headers_covered_by_prefix_argument=implied, skipped_jobs=len(skipped),
                      include_order="every unit: all headers in one TU sorted and reversed (C11; C++17 and C++20); small shape modules (cyc, multi, ns, ren): every rotation "
                                    "(quick: C11 and C++17; thorough: + C++20) and every ordered pair (quick: C11; thorough: + C++17, C++20)",
                      cpp_standards="thorough: every header alone under c++17 and c++20. quick: alone under c++17, c++20 through the all-headers TUs, alone under c++20 where either fails",
                      skipped_detail=sorted({"%s:%s" % (s.get("kind"), s.get("lang")) for s in skipped}), macro_failed_modules=sorted(macro_failed),
                      backend_rejections=notes[:20], ffix_methods_offered_to_js=ffix_js_info),
        "per_language": per_lang,
        "keyword_probe_invocations": {k: v for k, v in cnt.n.items() if k.startswith("evaluations_")},
        "tool_runs": cnt.n.get("tool_runs", 0),
        "cargo_builds": cnt.n.get("cargo_builds", 0),
        "enumeration_id": sha(json.dumps([tier, sorted(modules.items()), value_names, type_names], sort_keys=True)),
        "closure_edges_checked": edges,
        "timing_s": timing,
        "samples": samples,
    }
    for n in notes:
        print("NOTE " + n)
    shutil.rmtree(os.path.join(wd, "kw"), ignore_errors=True)
    shutil.rmtree(os.path.join(wd, "tu"), ignore_errors=True)
    return rep.finish(cov, [
        "type-checking of the macro expansion is established by `cargo build` of the ffix crate and of one crate holding all generated shape and keyword modules; "
        "sub-modules used only to isolate a failing name are subsets of a module that was built and go through the tool and the target compiler only",
        "quick tier: a decl header X.d.hpp is not compiled separately when X.hpp starts by including it (textual prefix: X.hpp passing alone implies X.d.hpp passes alone); "
        "isolation probes for reserved names use a precompiled diplomat_runtime.hpp (-include) in quick, the plain command in thorough; the first probe of every pack is plain in both tiers",
        "`../diplomat.config.mjs` imported by diplomat-wasm.mjs is the documented user-supplied configuration file (docs/npm_packaging.md) and is the only import allowed to leave the generated tree",
        "a backend that refuses a module (panic / 'Found errors whilst generating') is outside this property (C15); such refusals are listed in bound.backend_rejections / keyword_stats",
        ".d.ts files are covered by the import-closure check only (no TypeScript compiler offline)",
    ])


def replay(path):
    data = json.load(open(path))
    w = data["witness"]
    print("key: %s" % data["key"])
    build_tool()
    wd = workdir("C09-replay")
    if w.get("source"):
        print("---- bridge source\n%s----" % w["source"][:3000])
    failed, text, cmdline = recheck(w, os.path.join(wd, "r"))
    print("$ " + cmdline)
    for l in U.first_errors(text, 10) if failed else []:
        print("  " + l)
    print("REPLAY: %s" % ("still fails" if failed else "passes now"))
    return 1 if failed else 0
