"""C13 — backend-conditional attributes apply exactly where their condition holds.

Exhaustive differential enumeration (no sampling) of `#[diplomat::attr(<condition>, disable | rename = "..")]`:
every condition formula of the bounded grammar x placement x payload is pushed through the real diplomat-tool
binary for every backend, side by side with a reference boolean evaluator written from book/src/attrs.md.

 * truth of backend-name atoms: fixed table (CLI name; demo_gen additionally answers to `js`);
 * truth of `supports = X` atoms: PROBED from the implementation (single-atom attribute and its negation per
   backend, which must agree), so a deliberate profile change is not an alarm but an inconsistent evaluator is;
 * observables per (case, backend): distinctive tokens (`zq7_m_0012`, `Zq7T0012`, `zq7_r_0012`...) present/absent in
   the backend's whole output tree (file names included), and byte-identity of the whole tree with the tree
   generated from the *canonical form* of the same input for that backend (every attribute whose condition is
   false removed, every attribute whose condition is true rewritten to `*`);
 * literal non-interference: one input per formula carrying that one attribute, tree == tree of the input without it;
 * error formulas (unknown supports value, misplaced `auto`, malformed cfg) get their own single runs;
 * the Rust library still exports every function: one crate expanded by the real proc macro, `nm` of the staticlib.
"""
import json
import os
import re
import shutil
import time

from vlib.common import (BACKENDS, BUILD, REPO, MachineryError, Reporter, _repo_tag, build_tool, cargo_env,
                         default_configs, pmap, read_tree, run_tool, sh, sha, workdir)

PROP = "C13"
RENAME_BACKENDS = ["cpp", "js", "dart", "nanobind"]
CHECK_CLI_ALIASES = True  # `py-nanobind` / `<name>2` spellings of the CLI backend argument

# ------------------------------------------------------------------------------------------------
# formulas: ("*",) | ("n", name) | ("s", value) | ("sq", value) | ("not", f) | ("any", (f..)) | ("all", (f..))

# backend-name atoms; `demo` is the book's spelling, no backend answers to it in tool/src/lib.rs (see assumptions)
NAME_ATOMS = ["c", "cpp", "js", "dart", "kotlin", "nanobind", "demo_gen", "demo"]
ANSWERS = {b: {b} for b in BACKENDS}
ANSWERS["demo_gen"] = {"demo_gen", "js"}
SUPPORTS_ATOMS = ["option", "callbacks", "namespacing", "iterators"]
# every value documented on BackendAttrSupport / answered by is_name_value
SUPPORTS_ALL = ["namespacing", "memory_sharing", "non_exhaustive_structs", "method_overloading", "utf8_strings",
                "utf16_strings", "static_slices", "constructors", "named_constructors", "fallible_constructors",
                "accessors", "static_accessors", "stringifiers", "comparators", "iterators", "iterables", "indexing",
                "arithmetic", "option", "callbacks", "traits", "custom_errors", "traits_are_send", "traits_are_sync"]

STAR = ("*",)


def N(x):
    return ("n", x)


def S(x):
    return ("s", x)


ATOMS_FULL = [STAR] + [N(x) for x in NAME_ATOMS] + [S(x) for x in SUPPORTS_ATOMS]
ATOMS_FULL_Q = ATOMS_FULL + [("sq", "callbacks")]  # quoted spelling `supports = "callbacks"` (used by feature_tests)
ATOMS_R4 = [STAR, N("c"), N("js"), S("option")]
ATOMS_R7 = [STAR, N("c"), N("js"), N("demo_gen"), N("kotlin"), S("option"), S("callbacks")]


def render(f):
    k = f[0]
    if k == "*":
        return "*"
    if k == "n":
        return f[1]
    if k == "s":
        return "supports = %s" % f[1]
    if k == "sq":
        return 'supports = "%s"' % f[1]
    if k == "not":
        return "not(%s)" % render(f[1])
    return "%s(%s)" % (k, ", ".join(render(x) for x in f[1]))


def size(f):
    k = f[0]
    if k == "not":
        return 1 + size(f[1])
    if k in ("any", "all"):
        return 1 + sum(size(x) for x in f[1])
    return 1


def top(f):
    return f[0] if f[0] in ("not", "any", "all") else "atom"


def ev(f, backend, probe):
    """The reference evaluator (book/src/attrs.md "Configurability")."""
    k = f[0]
    if k == "*":
        return True
    if k == "n":
        return f[1] in ANSWERS[backend]
    if k in ("s", "sq"):
        return probe[backend][f[1]]
    if k == "not":
        return not ev(f[1], backend, probe)
    if k == "any":
        return any(ev(x, backend, probe) for x in f[1])
    return all(ev(x, backend, probe) for x in f[1])


def enum_formulas(atoms, levels):
    """All formulas with at most `levels` nested operators (atoms = level 0), not/any/all, arity <= 2.
    Returned per level, each level ordered by (size, text)."""
    by_level = [list(atoms)]
    for _ in range(levels):
        prev = by_level[-1]
        prevset = set(prev)
        lower = [f for lv in by_level for f in lv]
        new = [("not", f) for f in prev]
        for op in ("any", "all"):
            new += [(op, (f,)) for f in prev]
            for f in lower:
                fin = f in prevset
                for g in lower:
                    if fin or g in prevset:
                        new.append((op, (f, g)))
        new.sort(key=lambda f: (size(f), render(f)))
        by_level.append(new)
    return by_level


CORE = [STAR, N("js"), ("not", N("js")), ("any", (N("c"), N("cpp"))), S("callbacks"),
        ("not", ("any", (N("kotlin"), N("demo_gen")))), ("all", (N("c"), N("js"))),
        ("all", (("not", N("c")), S("iterators")))]

# ------------------------------------------------------------------------------------------------
# input emitter

SINGLE_PLACEMENTS = ["method", "type", "impl", "module"]
PAIR_PLACEMENTS_DISABLE = ["mod+method", "impl+method", "type+method", "mod+type"]
PAIR_PLACEMENTS_RENAME = ["impl+method", "mod+type"]
DUP_PLACEMENTS = ("impl+method", "mod+type")  # both conditions true => "Duplicate `disable` attribute" (see assumptions)
ITEM_TOKEN = {"method": "m", "impl": "i", "type": "t", "module": "g", "mod+method": "m", "impl+method": "m",
              "type+method": "m", "mod+type": "t"}
PER_FILE = {"method": 1000, "impl": 600, "type": 200, "module": 200, "mod+method": 200, "impl+method": 600,
            "type+method": 200, "mod+type": 200}
METHOD = "        pub fn %s(w: &mut DiplomatWrite) {}"
# the method carrying (or inheriting) the attribute rotates through four forms with the case index: special methods get their
# binding name from a different formatter routine than plain ones (constructor / accessor name vs method name), and a rename whose
# condition holds replaces the name spelled in the special-method attribute as well
METHOD_FORMS = (
    "        pub fn %(n)s(w: &mut DiplomatWrite) {}",
    "        #[diplomat::attr(auto, named_constructor = \"zq7_k_%(i)04d\")]\n        pub fn %(n)s() -> Box<Self> { unimplemented!() }",
    "        pub fn %(n)s(&self) -> u8 { 0 }",
    "        #[diplomat::attr(auto, getter = \"zq7_k_%(i)04d\")]\n        pub fn %(n)s(&self) -> u8 { 0 }",
)


def method_text(name, i, opaque_host=True, rotate=False):
    """zq7_m_ methods only; special forms need an opaque host (Box<Self>, &self)"""
    if not rotate or not name.startswith("zq7_m_") or not opaque_host:
        return METHOD % name
    return METHOD_FORMS[i % 4] % {"n": name, "i": i}


# the kind of the type carrying (type placement) or inheriting (module placement) the attribute rotates with the case index, so
# every kind meets a quarter of the formulas: attributes are lowered by one routine per kind (lower_opaque / _struct / _enum / _out_struct)
KINDS = ("opaque", "struct", "enum", "out")
KIND_ATTR = {"opaque": "#[diplomat::opaque]", "out": "#[diplomat::out]"}
KIND_DECL = {"opaque": "pub struct %s;", "struct": "pub struct %s { pub a: u8 }", "enum": "pub enum %s { A, B }", "out": "pub struct %s { pub a: u8 }"}


# a second method whose signature mentions the type that carries (or inherits) the attribute: as receiver, or as return type for
# out structs - the positions where a backend prints a *reference* to the type
TYPE_USER = {"opaque": "        pub fn zq7_v_%(i)04d(&self) -> u8 { 0 }", "struct": "        pub fn zq7_v_%(i)04d(self) -> u8 { 0 }",
             "enum": "        pub fn zq7_v_%(i)04d(self) -> u8 { 0 }", "out": "        pub fn zq7_v_%(i)04d() -> Zq7T%(i)04d { unimplemented!() }"}


def _letters(h):
    return chr(65 + h // 26) + chr(97 + h % 26)


def _ptext(payload, placement, role, idx):
    if payload == "disable":
        return "disable"
    if placement in ("method", "impl"):
        name = "zq7_r_%04d" % idx
    elif placement in ("type", "module"):
        name = "Zq7R%04d" % idx
    elif placement == "impl+method":
        name = ("zq7_q_%04d" if role == "o" else "zq7_r_%04d") % idx
    elif placement == "mod+type":
        name = ("Zq7Q%04d" if role == "o" else "Zq7R%04d") % idx
    else:
        raise MachineryError("no rename payload for placement %s" % placement)
    return 'rename = "%s"' % name


def emit(placement, payload, idxs, cond, rotate=False):
    """cond(idx, role) -> condition text or None (attribute omitted); role 'i' (the item itself) / 'o' (enclosing)."""
    out = []

    def al(idx, role, ind):
        c = cond(idx, role)
        if c is not None:
            out.append("%s#[diplomat::attr(%s, %s)]" % (ind, c, _ptext(payload, placement, role, idx)))

    if placement in ("method", "impl", "impl+method"):
        out.append("#[diplomat::bridge]\nmod ffi {")
        for h in range(0, len(idxs), 100):
            chunk = idxs[h:h + 100]
            hn = "Zq7Host" + _letters(h // 100)
            out.append("    #[diplomat::opaque]\n    pub struct %s;" % hn)
            if placement == "method":
                out.append("    impl %s {" % hn)
                for i in chunk:
                    al(i, "i", "        ")
                    out.append(method_text("zq7_m_%04d" % i, i, True, rotate))
                out.append("    }")
            else:
                for i in chunk:
                    al(i, "i" if placement == "impl" else "o", "    ")
                    out.append("    impl %s {" % hn)
                    if placement == "impl+method":
                        al(i, "i", "        ")
                    out.append(method_text(("zq7_i_%04d" if placement == "impl" else "zq7_m_%04d") % i, i, True, rotate))
                    out.append("    }")
        out.append("}")
    elif placement in ("type", "type+method"):
        out.append("#[diplomat::bridge]\nmod ffi {")
        for i in idxs:
            kind = KINDS[i % 4] if placement == "type" else "opaque"
            if kind in KIND_ATTR:
                out.append("    " + KIND_ATTR[kind])
            al(i, "i" if placement == "type" else "o", "    ")
            out.append("    %s\n    impl Zq7T%04d {" % (KIND_DECL[kind] % ("Zq7T%04d" % i), i))
            if placement == "type+method":
                al(i, "i", "        ")
            out.append(method_text(("zq7_u_%04d" if placement == "type" else "zq7_m_%04d") % i, i, kind == "opaque", rotate))
            if placement == "type":
                out.append(TYPE_USER[kind] % {"i": i})
            out.append("    }")
        out.append("}")
    elif placement in ("module", "mod+method", "mod+type"):
        for i in idxs:
            out.append("#[diplomat::bridge]")
            al(i, "i" if placement == "module" else "o", "")
            kind = KINDS[i % 4] if placement == "module" else "opaque"
            out.append("mod zq7mod_%04d {" % i)
            if kind in KIND_ATTR:
                out.append("    " + KIND_ATTR[kind])
            if placement == "mod+type":
                al(i, "i", "    ")
            tn = ("Zq7T%04d" if placement == "mod+type" else "Zq7G%04d") % i
            out.append("    %s\n    impl %s {" % (KIND_DECL[kind] % tn, tn))
            if placement == "mod+method":
                al(i, "i", "        ")
            out.append(method_text(("zq7_m_%04d" if placement == "mod+method" else "zq7_u_%04d") % i, i, kind == "opaque", rotate))
            if placement in ("module", "mod+type"):
                out.append(TYPE_USER[kind] % {"i": i} if placement == "mod+type" else TYPE_USER[kind].replace("Zq7T", "Zq7G") % {"i": i})
            out.append("    }\n}")
    else:
        raise MachineryError("unknown placement %s" % placement)
    return "\n".join(out) + "\n"


# ------------------------------------------------------------------------------------------------
# running the real tool and reading the observables

TOK = re.compile(r"zq7([a-z])(\d{4})(?!\d)")


def tokens_of(tree):
    parts = []
    for p, b in tree.items():
        parts.append(p)
        parts.append(b.decode("latin-1"))
    text = "\n".join(parts).lower().replace("_", "")
    return set((m.group(1), int(m.group(2))) for m in TOK.finditer(text))


def gen(wd, name, backend, text, cli=None, bundle=False):
    """One run of the real binary. -> dict(rc, err, tree|None).  demo_gen: by default it embeds a `js/` sub-folder that is
    the output of a nested run of the *js* backend (own validator; judged under backend js, and a js-only lowering error
    would abort the demo_gen run); `demo_gen.relative_js_path` is set so that only demo_gen's own files are produced."""
    d = os.path.join(wd, name)
    if os.path.exists(d):
        shutil.rmtree(d)
    os.makedirs(d)
    src = os.path.join(d, "in.rs")
    with open(src, "w") as fh:
        fh.write(text)
    out = os.path.join(d, "out")
    cfgs = list(default_configs(backend))
    if backend == "demo_gen" and not bundle:
        cfgs.append("demo_gen.relative_js_path=./js/")
    p = run_tool(cli or backend, src, out, configs=cfgs, timeout=600)
    tree = None
    if p.returncode == 0:
        tree = read_tree(out) if os.path.isdir(out) else {}
    elif os.path.isdir(out) and read_tree(out):
        tree = read_tree(out)  # files written although the tool failed: kept so the caller can see it
    shutil.rmtree(d, ignore_errors=True)
    return {"rc": p.returncode, "err": p.stderr[-3000:], "tree": tree}


def err_kind(r):
    if r["rc"] == 0:
        return "ok"
    if "panicked at" in r["err"]:
        return "panic"
    if "Lowering error in" in r["err"]:
        return "lowering-error"
    if r["rc"] == -999:
        return "timeout"
    return "error(rc=%s)" % r["rc"]


def expected_tokens(placement, payload, to, ti, backend, idx=0):
    """token -> expected presence, only for tokens the property lets us judge in this backend."""
    it = ITEM_TOKEN[placement]
    if backend == "demo_gen" and it == "m" and idx % 4 != 0:
        # demo_gen's own files only render methods that produce a string (form 0); the other forms are judged through the
        # byte-identity with the canonical form only
        return {}
    if payload == "disable":
        return {it: not (to or ti)}
    # the original name stays visible through the ABI symbol; demo_gen's own files only carry the API name
    exp = {it: True} if (backend != "demo_gen" or not (to or ti)) else {}
    if placement in PAIR_PLACEMENTS_RENAME and "+" in placement:
        if backend in RENAME_BACKENDS:
            exp["r"] = ti
            exp["q"] = to and not ti  # a later (inner) rename overrides the inherited one (hir/attrs.rs "override extend mode")
        elif backend == "c":
            # the C backend renders no rename at all: the new names appear nowhere, whatever the conditions say
            exp["r"] = False
            exp["q"] = False
        else:
            # (kotlin renders method renames, demo_gen type renames: only the false direction is judged there)
            if not ti:
                exp["r"] = False
            if not to:
                exp["q"] = False
    else:
        if backend in RENAME_BACKENDS:
            exp["r"] = ti
        elif backend == "c" or not ti:
            exp["r"] = False
    return exp


def direction(payload, placement, tok, exp, to, ti):
    """exp: expected presence of tok; observed is the opposite."""
    effect_expected = (not exp) if tok == ITEM_TOKEN[placement] and payload == "disable" else exp
    if "+" not in placement:
        return "not-applied-but-condition-true" if effect_expected else "applied-but-condition-false"
    if not (to or ti):
        return "applied-but-both-conditions-false"
    if effect_expected:
        return "not-applied-but-condition-true(outer=%s,inner=%s)" % (str(to).lower(), str(ti).lower())
    return "applied-but-overridden-or-false(outer=%s,inner=%s)" % (str(to).lower(), str(ti).lower())


def case_text(case):
    if case["outer"] is not None:
        return "outer=%s inner=%s" % (render(case["outer"]), render(case["inner"]))
    return render(case["inner"])


def process(job):
    """One (batch, backend): real input and canonical input through the tool; judge every case."""
    wd, probe = job["wd"], job["probe"]
    placement, payload, backend, cases = job["placement"], job["payload"], job["backend"], job["cases"]
    truth = {}
    for c in cases:
        to = ev(c["outer"], backend, probe) if c["outer"] is not None else False
        truth[c["idx"]] = (to, ev(c["inner"], backend, probe))
    bycase = {c["idx"]: c for c in cases}
    dup = [i for i in truth if payload == "disable" and placement in DUP_PLACEMENTS and all(truth[i])]
    main = [c["idx"] for c in cases if c["idx"] not in set(dup)]
    res = {"job": job["name"], "backend": backend, "placement": placement, "payload": payload, "judged": 0, "fails": [],
           "outcomes": {}, "runs": 0, "batch_fail": None, "nontrivial": 0, "sample": None}

    def real_cond(i, role):
        return render(bycase[i]["outer" if role == "o" else "inner"])

    def canon_cond(i, role):
        return "*" if truth[i][0 if role == "o" else 1] else None

    def bump(k, n=1):
        res["outcomes"][k] = res["outcomes"].get(k, 0) + n

    if main:
        real = gen(wd, job["name"] + "-" + backend + "-real", backend, emit(placement, payload, main, real_cond, rotate=True))
        canon = gen(wd, job["name"] + "-" + backend + "-canon", backend, emit(placement, payload, main, canon_cond, rotate=True))
        res["runs"] += 2
        if real["rc"] != 0 or canon["rc"] != 0:
            res["batch_fail"] = {"what": "tool failed on a batch without error formulas", "real": err_kind(real),
                                 "canon": err_kind(canon), "real_err": real["err"], "canon_err": canon["err"],
                                 "ids": main}
            bump("batch:" + err_kind(real))
        else:
            toks = tokens_of(real["tree"])
            for i in main:
                to, ti = truth[i]
                exp = expected_tokens(placement, payload, to, ti, backend, i)
                bad = [(t, e) for t, e in sorted(exp.items()) if ((t, i) in toks) != e]
                res["judged"] += 1
                eff = "effect" if (to or ti) else "no-effect"
                bump("%s:%s" % (payload, eff))
                if bad:
                    t, e = bad[0]
                    res["fails"].append({"idx": i, "case": case_text(bycase[i]), "top": top(bycase[i]["inner"]) if bycase[i]["outer"] is None else "pair",
                                         "size": size(bycase[i]["inner"]) + (size(bycase[i]["outer"]) if bycase[i]["outer"] is not None else 0),
                                         "direction": direction(payload, placement, t, e, to, ti),
                                         "expected": {"zq7%s%04d" % (k, i): v for k, v in exp.items()},
                                         "observed": {"zq7%s%04d" % (k, i): ((k, i) in toks) for k in exp}})
            if real["tree"] != canon["tree"] and not res["fails"]:
                diff = sorted(k for k in set(real["tree"]) | set(canon["tree"]) if real["tree"].get(k) != canon["tree"].get(k))
                res["batch_fail"] = {"what": "output tree differs from the tree of the canonical form (false attributes removed, true ones as `*`)",
                                     "real": "ok", "canon": "ok", "differing_files": diff[:20], "ids": main}
                bump("batch:tree-differs")
            if backend == "demo_gen" and not res["fails"] and not res["batch_fail"]:
                # the js/ folder demo_gen bundles by default is JS-backend output: the attributes in it are those of the js backend
                text = emit(placement, payload, main, real_cond, rotate=True)
                bundled = gen(wd, job["name"] + "-demo_gen-bundled", "demo_gen", text, bundle=True)
                jsr = gen(wd, job["name"] + "-demo_gen-js", "js", text)
                res["runs"] += 2
                if bundled["rc"] == 0 and jsr["rc"] == 0:
                    sub = {k[3:]: v for k, v in bundled["tree"].items() if k.startswith("js/")}
                    if not sub:
                        raise MachineryError("demo_gen run without relative_js_path produced no js/ folder")
                    bump("demo_gen-bundled-js:" + ("same" if sub == jsr["tree"] else "differs"))
                    if sub != jsr["tree"]:
                        diff = sorted(k for k in set(sub) | set(jsr["tree"]) if sub.get(k) != jsr["tree"].get(k))
                        res["batch_fail"] = {"what": "the js/ folder bundled by demo_gen differs from the js backend's output for the same input",
                                             "real": "ok", "canon": "-", "differing_files": diff[:20], "ids": main}
            if res["sample"] is None and main:
                i = main[len(main) // 2]
                res["sample"] = {"formula": case_text(bycase[i]), "placement": placement, "payload": payload, "backend": backend,
                                 "reference": {"outer": truth[i][0], "inner": truth[i][1]} if bycase[i]["outer"] is not None else truth[i][1],
                                 "observed": {"zq7%s%04d" % (k, i): ((k, i) in toks) for k in expected_tokens(placement, payload, truth[i][0], truth[i][1], backend, i)},
                                 "tree_equals_canonical": real["tree"] == canon["tree"]}
    if dup:
        # both the inherited and the own `disable` hold: the lowering reports "Duplicate `disable` attribute" (implemented,
        # not documented in the book). Accepted outcomes: that diagnostic for exactly these items, or the item simply absent.
        r = gen(wd, job["name"] + "-" + backend + "-dup", backend, emit(placement, payload, dup, real_cond, rotate=True))
        res["runs"] += 1
        it = ITEM_TOKEN[placement]
        if r["rc"] == 0:
            toks = tokens_of(r["tree"])
            for i in dup:
                res["judged"] += 1
                if (it, i) in toks:
                    res["fails"].append({"idx": i, "case": case_text(bycase[i]), "top": "pair", "size": 0,
                                         "direction": "not-applied-but-condition-true(outer=true,inner=true)",
                                         "expected": {"zq7%s%04d" % (it, i): False}, "observed": {"zq7%s%04d" % (it, i): True}})
                else:
                    bump("disable:both-true:absent")
        else:
            named = set(int(x) for x in re.findall(r"Lowering error in [^\n]*?(\d{4})[^\n]*Duplicate `disable`", r["err"]))
            other = [ln for ln in r["err"].splitlines() if ln.strip() and "Duplicate `disable` attribute" not in ln]
            if err_kind(r) != "lowering-error" or other or (r["tree"] or {}):
                res["batch_fail"] = {"what": "unexpected failure on items disabled by both the enclosing and the own attribute",
                                     "real": err_kind(r), "canon": "-", "real_err": r["err"], "ids": dup}
                bump("batch:" + err_kind(r))
            else:
                for i in dup:
                    res["judged"] += 1
                    bump("disable:both-true:duplicate-diagnostic" if i in named else "disable:both-true:rejected-with-batch")
    return res


# ------------------------------------------------------------------------------------------------
# probes


def probe_supports(wd):
    """truth of `supports = X` per backend, taken from the implementation: X and not(X) must disagree."""
    forms = [S(v) for v in SUPPORTS_ALL] + [("not", S(v)) for v in SUPPORTS_ALL]
    n = len(SUPPORTS_ALL)
    text = emit("method", "disable", list(range(len(forms))), lambda i, role: render(forms[i]))

    def one(b):
        return b, gen(wd, "probe-" + b, b, text)

    probe, bad = {}, []
    for b, r in pmap(one, BACKENDS):
        if r["rc"] != 0:
            raise MachineryError("supports probe failed for %s: %s" % (b, r["err"]))
        toks = tokens_of(r["tree"])
        probe[b] = {}
        for k, v in enumerate(SUPPORTS_ALL):
            pos = ("m", k) not in toks          # disabled under `supports = v`
            neg = ("m", n + k) in toks          # kept under `not(supports = v)`
            probe[b][v] = pos
            if pos != neg:
                bad.append({"backend": b, "value": v, "disable_under_atom": pos, "disable_under_not_atom": not neg})
    return probe, bad, text


def crosscheck_behaviour(wd, probe):
    """informational: does the gate's acceptance of DiplomatOption / callback parameters agree with the probed flags?"""
    shapes = {"option": "pub fn zq7_x_0001(x: DiplomatOption<u8>) {}", "callbacks": "pub fn zq7_x_0001(f: impl Fn(u8) -> u8) {}",
              # a getter without self is only accepted where static accessors are supported; 'static slices likewise
              "static_accessors": "#[diplomat::attr(*, getter)] pub fn zq7_x_0001() -> u8 { 0 }",
              "static_slices": "pub fn zq7_x_0001(x: &'static str) {}"}
    jobs = [(b, k) for b in BACKENDS for k in shapes]

    def one(j):
        b, k = j
        text = "#[diplomat::bridge]\nmod ffi {\n    #[diplomat::opaque]\n    pub struct Zq7HostAa;\n    impl Zq7HostAa {\n        %s\n    }\n}\n" % shapes[k]
        r = gen(wd, "xc-%s-%s" % (b, k), b, text)
        return {"backend": b, "flag": k, "probed": probe[b][k], "gate": err_kind(r),
                "agrees": (err_kind(r) != "lowering-error") == probe[b][k]}

    return pmap(one, jobs)


# ------------------------------------------------------------------------------------------------
# literal non-interference: one attribute per input


def singles(wd, probe, formulas, placement, payload):
    """For every formula and backend: input carrying that single attribute. Condition false => tree byte-identical to
    the tree of the input without the attribute; condition true => byte-identical to the tree with `*`, and different
    from the bare one."""
    idx = 7

    def text(c):
        return emit(placement, payload, [idx - 1, idx, idx + 1], lambda i, role: c if i == idx else None)

    base = {}
    for b, r0, r1 in pmap(lambda b: (b, gen(wd, "sb-%s-%s-%s" % (placement, payload, b), b, text(None)),
                                     gen(wd, "ss-%s-%s-%s" % (placement, payload, b), b, text("*"))), BACKENDS):
        if r0["rc"] != 0 or r1["rc"] != 0:
            raise MachineryError("baseline generation failed (%s %s %s): %s %s" % (placement, payload, b, r0["err"], r1["err"]))
        base[b] = (r0["tree"], r1["tree"])
    jobs = [(k, f, b) for k, f in enumerate(formulas) for b in BACKENDS]

    def one(j):
        k, f, b = j
        r = gen(wd, "s-%s-%s-%d-%s" % (placement, payload, k, b), b, text(render(f)))
        t = ev(f, b, probe)
        if r["rc"] != 0:
            return {"formula": render(f), "top": top(f), "size": size(f), "backend": b, "truth": t, "fail": "tool-failed:" + err_kind(r), "err": r["err"]}
        same0, same1 = r["tree"] == base[b][0], r["tree"] == base[b][1]
        fail = None
        if not t and not same0:
            fail = "applied-but-condition-false"
        elif t and not same1:
            fail = "not-applied-but-condition-true"
        return {"formula": render(f), "top": top(f), "size": size(f), "backend": b, "truth": t, "fail": fail,
                "equals_without_attr": same0, "equals_star": same1, "star_differs_from_bare": base[b][0] != base[b][1]}

    return pmap(one, jobs), text


# ------------------------------------------------------------------------------------------------
# error formulas (own runs)

ERR_MUST = [  # (condition text, payload, accepted kinds, why)
    ("supports = zq7unknown", "disable", ("lowering-error",), "unknown supports value (hir/attrs.rs is_name_value)"),
    ("not(supports = zq7unknown)", "disable", ("lowering-error",), "unknown supports value under not"),
    ("any(supports = zq7unknown)", "disable", ("lowering-error",), "unknown supports value, sole operand"),
    ("all(supports = zq7unknown)", "disable", ("lowering-error",), "unknown supports value, sole operand"),
    ("all(*, supports = zq7unknown)", "disable", ("lowering-error",), "value decides the result in any evaluation order"),
    ("any(not(*), supports = zq7unknown)", "disable", ("lowering-error",), "value decides the result in any evaluation order"),
    ("supports = zq7unknown", 'rename = "zq7_r_0007"', ("lowering-error",), "unknown supports value, rename payload"),
    ("not(auto)", "disable", ("lowering-error",), "auto only allowed at top level and within any (satisfies_cfg doc)"),
    ("all(auto)", "disable", ("lowering-error",), "auto only allowed at top level and within any (satisfies_cfg doc)"),
    ("auto", "disable", ("lowering-error",), "disable does not work with auto (core test_auto snapshot)"),
    ("auto", 'rename = "zq7_r_0007"', ("lowering-error",), "rename does not work with auto (core test_auto snapshot)"),
    # malformed cfg: the parser (ast/attrs.rs) `expect`s => the tool aborts with "Failed to parse malformed diplomat::attr".
    # Documented nowhere as a *lowering* error, so either loud rejection is accepted; silently generating is not.
    ("not()", "disable", ("lowering-error", "panic"), "malformed cfg: empty not"),
    ("not(c, js)", "disable", ("lowering-error", "panic"), "malformed cfg: binary not"),
    ('"c"', "disable", ("lowering-error", "panic"), "malformed cfg: string literal"),
    ("c js", "disable", ("lowering-error", "panic"), "malformed cfg: missing comma"),
    ("any(c,, js)", "disable", ("lowering-error", "panic"), "malformed cfg: double comma"),
    ("supports =", "disable", ("lowering-error", "panic"), "malformed cfg: missing value"),
    ("supports == option", "disable", ("lowering-error", "panic"), "malformed cfg: =="),
    ("", "disable", ("lowering-error", "panic"), "malformed cfg: empty condition"),
]
ERR_RECORD = [  # unspecified behaviour: recorded, never judged
    ("any(*, supports = zq7unknown)", "disable", "short-circuit may skip the unknown value"),
    ("all(not(*), supports = zq7unknown)", "disable", "short-circuit may skip the unknown value"),
    ("zq7feature = on", "disable", "unknown name in name = value"),
    ("any()", "disable", "empty any (book: one or more)"),
    ("all()", "disable", "empty all (book: one or more)"),
    ("demo", "disable", "book lists `demo` as a name of the demo backend; lib.rs registers demo_gen + js only"),
]


def err_text(cond, payload):
    return ("#[diplomat::bridge]\nmod ffi {\n    #[diplomat::opaque]\n    pub struct Zq7HostAa;\n    impl Zq7HostAa {\n"
            "        pub fn zq7_m_0006(w: &mut DiplomatWrite) {}\n        #[diplomat::attr(%s, %s)]\n"
            "        pub fn zq7_m_0007(w: &mut DiplomatWrite) {}\n    }\n}\n" % (cond, payload))


def error_runs(wd):
    jobs = [(k, e, b, True) for k, e in enumerate(ERR_MUST) for b in BACKENDS]
    jobs += [(k, e, b, False) for k, e in enumerate(ERR_RECORD) for b in BACKENDS]

    def one(j):
        k, e, b, must = j
        r = gen(wd, "err-%d-%d-%s" % (must, k, b), b, err_text(e[0], e[1]))
        kind = err_kind(r)
        toks = sorted("zq7%s%04d" % t for t in tokens_of(r["tree"])) if r["tree"] is not None else None
        o = {"cond": e[0], "payload": e[1], "backend": b, "must": must, "kind": kind, "tokens": toks,
             "err": r["err"].strip().splitlines()[:3], "why": e[-1]}
        if must:
            o["ok"] = kind in e[2] and not r["tree"] and bool(r["err"].strip())
        return o

    return pmap(one, jobs)


# ------------------------------------------------------------------------------------------------
# CLI aliases of a backend


def alias_runs(wd):
    aliases = [("py-nanobind", "nanobind")] + [(b + "2", b) for b in BACKENDS]
    out = []

    def text(b):
        conds = [b, "not(%s)" % b, "any(%s, zq7nobody)" % b]
        return emit("method", "disable", [0, 1, 2, 3], lambda i, role: conds[i] if i < 3 else None)

    def one(a):
        alias, b = a
        r0 = gen(wd, "alias-p-" + alias, b, text(b))
        r1 = gen(wd, "alias-a-" + alias, b, text(b), cli=alias)
        o = {"alias": alias, "backend": b, "primary": err_kind(r0), "aliased": err_kind(r1), "input": text(b)}
        if r0["rc"] == 0 and r1["rc"] == 0:
            o["same_tree"] = r0["tree"] == r1["tree"]
            o["tokens_primary"] = sorted("zq7%s%04d" % t for t in tokens_of(r0["tree"]))
            o["tokens_alias"] = sorted("zq7%s%04d" % t for t in tokens_of(r1["tree"]))
        return o

    for o in pmap(one, aliases):
        out.append(o)
    return out


# ------------------------------------------------------------------------------------------------
# "the Rust library still exports the function": real proc macro + rustc + nm


EXPORT_CRATES = [("c13x_main", ["method", "type", "module", "mod+method", "type+method", "mod+type"]),
                 ("c13x_impl", ["impl", "impl+method"])]


def export_check(probe):
    """One crate per group of placements, expanded by the real proc macro and compiled by rustc; every method must be an
    exported `T` symbol whatever the attributes say. -> list of dict(crate, placements, compiled, want, missing, err)."""
    root = os.path.join(BUILD, "c13x" + _repo_tag())
    tdir = os.path.join(root, "target")
    out = []
    k = 0
    for cname, placements in EXPORT_CRATES:
        crate = os.path.join(root, cname)
        os.makedirs(os.path.join(crate, "src"), exist_ok=True)
        mods, want = [], []
        for placement in placements:
            for payload in ("disable", "rename"):
                if "+" in placement and payload == "rename" and placement not in PAIR_PLACEMENTS_RENAME:
                    continue
                idxs = list(range(k * 20, k * 20 + len(CORE)))
                k += 1
                forms = dict(zip(idxs, CORE))
                body = emit(placement, payload, idxs, lambda i, role: render(forms[i] if role == "i" else CORE[(i + 3) % len(CORE)]))
                body = body.replace("mod ffi {", "mod ffi_%d {" % k).replace("Zq7Host", "Zq7Host%d" % k)
                body = body.replace("(w: &mut DiplomatWrite) {}", "() {}")
                mods.append(body)
                for ty, m in re.findall(r"impl (\w+) \{\n(?:\s*#\[[^\n]*\n)*\s*pub fn (\w+)\(", body):
                    want.append("%s_%s" % (ty, m))
        if len(want) < 2 * len(CORE) or len(set(want)) != len(want):
            raise MachineryError("export crate %s: expected-symbol extraction is off (%d)" % (cname, len(want)))
        lib = "// generated by /verif/checks/c13.py\n" + "\n".join(mods)
        toml = ('[package]\nname = "%s"\nversion = "0.0.0"\nedition = "2021"\npublish = false\n\n[workspace]\n\n[lib]\n'
                'crate-type = ["staticlib"]\n\n[dependencies]\ndiplomat = { path = "%s/macro" }\n'
                'diplomat-runtime = { path = "%s/runtime" }\n\n[profile.dev]\ndebug = 0\n' % (cname, REPO, REPO))
        for p, s in ((os.path.join(crate, "Cargo.toml"), toml), (os.path.join(crate, "src", "lib.rs"), lib)):
            if not os.path.exists(p) or open(p).read() != s:
                with open(p, "w") as fh:
                    fh.write(s)
        lock = os.path.join(crate, "Cargo.lock")
        if not os.path.exists(lock):
            shutil.copy(os.path.join(REPO, "Cargo.lock"), lock)
        p = sh(["cargo", "build", "--offline"], cwd=crate, env=cargo_env({"CARGO_TARGET_DIR": tdir}), timeout=1800, check=False)
        if p.returncode != 0 and "cannot find `attr` in `diplomat`" not in p.stderr:
            shutil.copy(os.path.join(REPO, "Cargo.lock"), lock)  # the repo's lock file may have moved on: one retry with a fresh copy
            p = sh(["cargo", "build", "--offline"], cwd=crate, env=cargo_env({"CARGO_TARGET_DIR": tdir}), timeout=1800, check=False)
        o = {"crate": crate, "placements": placements, "compiled": p.returncode == 0, "want": want, "missing": [], "err": None,
             "lib_rs_sha": sha(lib)}
        if p.returncode != 0:
            errs = [ln for ln in p.stderr.splitlines() if ln.startswith("error")]
            # the only failure that is a statement about the code under test: rustc meets a diplomat attribute the macro left behind
            if errs and all("cannot find `attr` in `diplomat`" in e or "could not compile" in e or "aborting due to" in e for e in errs):
                locs = re.findall(r"--> src/lib.rs:(\d+):", p.stderr)
                lines = lib.splitlines()
                after = sorted(set("impl-block" if lines[int(n)].strip().startswith("impl ") else re.sub(r"\d+", "N", lines[int(n)].strip())
                                   for n in locs if int(n) < len(lines)))
                o["err"] = {"rustc": "cannot find `attr` in `diplomat`", "count": len(locs), "attribute_sits_on": after,
                            "first": lines[int(locs[0]) - 1].strip() if locs else None}
            else:
                raise MachineryError("export crate %s does not build: %s" % (cname, p.stderr[-3000:]))
        else:
            lib_a = os.path.join(tdir, "debug", "lib%s.a" % cname)
            q = sh(["nm", "-g", "--defined-only", lib_a])
            have = set(ln.split()[-1] for ln in q.stdout.splitlines() if " T " in ln and "zq7" in ln.lower())
            o["missing"] = sorted(set(want) - have)
        out.append(o)
    return out


# ------------------------------------------------------------------------------------------------
# plan


def plan(tier):
    """-> list of (name, placement, payload, cases) batches, plus description of the bound."""
    full = enum_formulas(ATOMS_FULL, 1)
    d2 = full[0] + full[1]                                  # depth <= 2 (atoms = depth 1), full alphabet
    batches, bound = [], {}

    def add(label, placement, payload, forms, pairs=False):
        per = PER_FILE[placement]
        for s in range(0, len(forms), per):
            chunk = forms[s:s + per]
            cases = [{"idx": i, "outer": f[0] if pairs else None, "inner": f[1] if pairs else f} for i, f in enumerate(chunk)]
            batches.append(("%s-%s-%s-%03d" % (label, placement.replace("+", "_"), payload, s // per), placement, payload, cases))

    if tier == "thorough":
        d2q = enum_formulas(ATOMS_FULL_Q, 1)
        d2 = d2q[0] + d2q[1]
    for placement in SINGLE_PLACEMENTS:
        for payload in ("disable", "rename"):
            add("d2", placement, payload, d2)
    bound["depth<=2"] = {"atoms": [render(a) for a in (ATOMS_FULL_Q if tier == "thorough" else ATOMS_FULL)], "formulas": len(d2),
                         "placements": SINGLE_PLACEMENTS, "payloads": ["disable", "rename"]}
    r4 = enum_formulas(ATOMS_R4, 2)[2]
    for payload in ("disable", "rename"):
        add("d3r4", "method", payload, r4)
    bound["depth3"] = [{"atoms": [render(a) for a in ATOMS_R4], "formulas": len(r4), "placements": ["method"], "payloads": ["disable", "rename"]}]
    if tier == "thorough":
        for placement in ("type", "impl", "module"):
            add("d3r4", placement, "disable", r4)
        bound["depth3"][0]["placements"] = SINGLE_PLACEMENTS
        bound["depth3"][0]["note"] = "rename payload on method placement only; disable on all four placements"
        r7 = [f for f in enum_formulas(ATOMS_R7, 2)[2]]
        r4set = set(r4)
        r7 = [f for f in r7 if f not in r4set]
        for payload in ("disable", "rename"):
            add("d3r7", "method", payload, r7)
        bound["depth3"].append({"atoms": [render(a) for a in ATOMS_R7], "formulas": len(r7), "placements": ["method"],
                                "payloads": ["disable", "rename"], "note": "formulas already in the 4-atom set not repeated"})
        f13 = enum_formulas(ATOMS_FULL, 2)[2]
        seen = r4set | set(r7)
        f13 = [f for f in f13 if f not in seen]
        add("d3full", "method", "disable", f13)
        bound["depth3"].append({"atoms": [render(a) for a in ATOMS_FULL], "formulas": len(f13), "placements": ["method"],
                                "payloads": ["disable"], "note": "remaining depth-3 formulas over the full alphabet"})
    pairs = [(o, i) for o in CORE for i in CORE]
    for placement in PAIR_PLACEMENTS_DISABLE:
        add("pair", placement, "disable", pairs, pairs=True)
    for placement in PAIR_PLACEMENTS_RENAME:
        add("pair", placement, "rename", pairs, pairs=True)
    bound["inheritance_pairs"] = {"core": [render(f) for f in CORE], "pairs": len(pairs), "disable": PAIR_PLACEMENTS_DISABLE,
                                  "rename": PAIR_PLACEMENTS_RENAME}
    return batches, bound, d2


# ------------------------------------------------------------------------------------------------


def minimal_repro(wd, probe, placement, payload, backend, case):
    """Re-run the smallest failing case alone (this is also the confirming second run)."""
    c = dict(case)
    c["idx"] = 4 + case["idx"] % 4  # keeps the method form of the failing case
    job = {"wd": wd, "probe": probe, "name": "min", "placement": placement, "payload": payload, "backend": backend, "cases": [c]}
    r = process(job)
    text = emit(placement, payload, [c["idx"]], lambda i, role: render(c["outer" if role == "o" else "inner"]), rotate=True)
    return r, text


ALT_FORMULAS = [N("js"), N("cpp"), N("dart"), N("kotlin"), ("not", N("js")), ("any", (N("cpp"), N("dart"))), ("all", (N("js"), ("not", N("dart")))), S("option"), STAR]


def alternatives_unit(rep, wd, probe):
    """two methods competing for a slot only one may fill (the unnamed constructor; one getter name), each disabled under the
    complement of the other's condition: a method whose disable applies is inert, so every backend accepts the pair and emits
    exactly the survivor"""
    n = 0
    for kind, attr in (("constructor", "constructor"), ("getter", 'getter = "zq7_w_0000"')):
        for fi, f in enumerate(ALT_FORMULAS):
            ret = "Box<Zq7Alt>" if kind == "constructor" else "u8"
            slf = "" if kind == "constructor" else "&self"
            body = "unimplemented!()" if kind == "constructor" else "0"
            text = ("#[diplomat::bridge]\nmod ffi {\n    #[diplomat::opaque]\n    pub struct Zq7Alt;\n    impl Zq7Alt {\n"
                    "        #[diplomat::attr(auto, %(a)s)]\n        #[diplomat::attr(%(f)s, disable)]\n        pub fn zq7_m_0001(%(s)s) -> %(r)s { %(b)s }\n"
                    "        #[diplomat::attr(auto, %(a)s)]\n        #[diplomat::attr(not(%(f)s), disable)]\n        pub fn zq7_m_0002(%(s)s) -> %(r)s { %(b)s }\n"
                    "        pub fn zq7_m_0003(w: &mut DiplomatWrite) {}\n    }\n}\n") % {"a": attr, "f": render(f), "s": slf, "r": ret, "b": body}
            for b in BACKENDS:
                r = gen(wd, "alt-%s-%d-%s" % (kind, fi, b), b, text)
                n += 1
                t = ev(f, b, probe)
                if r["rc"] != 0:
                    rep.violation("C13|disable|alternatives|%s|%s|backend=%s|rejected" % (kind, render(f), b),
                                  {"input_rs": text, "backend": b, "stderr": r["err"][-600:], "condition": render(f), "condition_true": t},
                                  "two %s methods, one disabled under `%s` and one under its negation: %s refuses the module although only one is enabled there: %s" % (
                                      kind, render(f), b, (r["err"].strip().splitlines() or ["?"])[-1][:200]))
                    continue
                if b == "demo_gen":
                    continue  # (its own files only show string-producing methods)
                toks = tokens_of(r["tree"])
                got = (("m", 1) in toks, ("m", 2) in toks)
                if got != ((not t), t):
                    rep.violation("C13|disable|alternatives|%s|%s|backend=%s|wrong-survivor" % (kind, render(f), b),
                                  {"input_rs": text, "backend": b, "condition": render(f), "condition_true": t, "present": {"zq7_m_0001": got[0], "zq7_m_0002": got[1]}},
                                  "two %s methods under `%s` / its negation in %s: present %s, expected exactly the one whose disable does not apply" % (kind, render(f), b, got))
    return n


def run(tier):
    rep = Reporter(PROP, tier, "model_checking")
    build_tool()
    wd = workdir(PROP)
    t0 = time.time()
    timing = {}

    # ---- probes
    probe, bad, probe_text = probe_supports(wd)
    for b in bad:
        rep.violation("C13|probe|supports = %s|backend=%s|atom-and-negation-disagree" % (b["value"], b["backend"]),
                      {"input_rs": probe_text, **b}, "`supports = %s` and `not(supports = %s)` both %s the method in backend %s" % (
                          b["value"], b["value"], "disable" if b["disable_under_atom"] else "keep", b["backend"]))
    xc = crosscheck_behaviour(wd, probe)
    for x in xc:
        if not x["agrees"]:
            # `supports = X` must be true exactly where the backend really supports X: the lowering gate is the backend's own behaviour
            rep.violation("C13|supports = %s|backend=%s|condition-disagrees-with-behaviour" % (x["flag"], x["backend"]), x,
                          "`supports = %s` evaluates to %s in backend %s, but the backend %s a construct that needs that feature (%s)" % (
                              x["flag"], x["probed"], x["backend"], "accepts" if x["gate"] != "lowering-error" else "rejects", x["gate"]))
    timing["probe"] = round(time.time() - t0, 1)

    # ---- packed batches
    batches, bound, d2 = plan(tier)
    jobs = []
    for name, placement, payload, cases in batches:
        for b in BACKENDS:
            jobs.append({"wd": wd, "probe": probe, "name": name, "placement": placement, "payload": payload, "backend": b, "cases": cases})
    # heavy jobs first
    jobs.sort(key=lambda j: -len(j["cases"]))
    t1 = time.time()
    results = pmap(process, jobs)
    timing["batches"] = round(time.time() - t1, 1)
    bycases = {(n, p, q): c for n, p, q, c in batches}

    states = judged = runs = 0
    outcomes = {}
    samples = []
    seen_pp = set()
    classes = {}
    nontrivial = 0
    for name, placement, payload, cases in batches:
        for c in cases:
            tv = set()
            for b in BACKENDS:
                to = ev(c["outer"], b, probe) if c["outer"] is not None else False
                tv.add((to, ev(c["inner"], b, probe)))
            nontrivial += len(tv) > 1
    for r in results:
        judged += r["judged"]
        runs += r["runs"]
        for k, v in r["outcomes"].items():
            outcomes[k] = outcomes.get(k, 0) + v
        if r["sample"] and (r["placement"], r["payload"]) not in seen_pp and len(seen_pp) % 7 == BACKENDS.index(r["backend"]):
            seen_pp.add((r["placement"], r["payload"]))
            samples.append(r["sample"])
        cases = {c["idx"]: c for c in bycases[(r["job"], r["placement"], r["payload"])]}
        for f in r["fails"]:
            k = (r["payload"], r["placement"], f["top"], f["direction"])
            classes.setdefault(k, []).append((f["size"], f["case"], r["backend"], f, cases[f["idx"]], r["job"]))
        if r["batch_fail"]:
            k = (r["payload"], r["placement"], "batch", r["batch_fail"]["what"])
            classes.setdefault(k, []).append((0, r["job"], r["backend"], r["batch_fail"], None, r["job"]))
    states = judged

    for k in sorted(classes):
        payload, placement, topop, direc = k
        lst = sorted(classes[k], key=lambda x: (x[0], x[1], BACKENDS.index(x[2])))
        _, ctext, backend, f, case, jobname = lst[0]
        listing = [{"formula": x[1], "backend": x[2]} for x in lst]
        if topop == "batch":
            # localise: rerun the batch case by case
            allcases = bycases[(jobname, placement, payload)]
            found = None
            for c in allcases:
                if c["idx"] not in f.get("ids", []):
                    continue
                r1, text = minimal_repro(wd, probe, placement, payload, backend, c)
                if r1["fails"] or r1["batch_fail"]:
                    found = (c, r1, text)
                    break
            if found:
                c, r1, text = found
                if r1["fails"]:
                    how = r1["fails"][0]["direction"]
                elif r1["batch_fail"]["real"] == "ok" and r1["batch_fail"]["canon"] in ("ok", "-"):
                    how = "tree-differs-from-canonical-form"
                else:
                    how = "tool-fails:%s(canonical:%s)" % (r1["batch_fail"]["real"], r1["batch_fail"]["canon"])
                rep.violation("C13|%s|%s|%s|backend=%s|%s" % (payload, placement, case_text(c), backend, how),
                              {"placement": placement, "payload": payload, "backend": backend, "case": {"outer": c["outer"], "inner": c["inner"]},
                               "input_rs": text, "result": {kk: vv for kk, vv in r1.items() if kk in ("fails", "batch_fail")}, "batches": listing[:50]},
                              "%s; smallest: %s / %s / `%s` in backend %s" % (direc, payload, placement, case_text(c), backend))
            else:
                rep.violation("C13|%s|%s|batch|backend=%s|%s" % (payload, placement, backend, direc),
                              {"placement": placement, "payload": payload, "backend": backend, "batch": jobname, "detail": f, "batches": listing[:50],
                               "note": "not reproducible on single-case inputs: shown by the packed batch only"},
                              "%s (batch %s, backend %s)" % (direc, jobname, backend))
            continue
        r1, text = minimal_repro(wd, probe, placement, payload, backend, case)
        if not r1["fails"] and not r1["batch_fail"]:
            # confirm on the batch itself before deciding that it is context dependent
            job = {"wd": wd, "probe": probe, "name": jobname, "placement": placement, "payload": payload, "backend": backend,
                   "cases": bycases[(jobname, placement, payload)]}
            r2 = process(job)
            if f["idx"] not in [x["idx"] for x in r2["fails"]]:
                raise MachineryError("non-deterministic failure: %s %s %s %s" % (payload, placement, ctext, backend))
            text = emit(placement, payload, [c["idx"] for c in job["cases"]],
                        lambda i, role: render({c["idx"]: c for c in job["cases"]}[i]["outer" if role == "o" else "inner"]), rotate=True)
        rep.violation("C13|%s|%s|%s|backend=%s|%s" % (payload, placement, ctext, backend, direc),
                      {"placement": placement, "payload": payload, "backend": backend, "case": {"outer": case["outer"], "inner": case["inner"]},
                       "formula": ctext, "input_rs": text, "expected": f["expected"], "observed": f["observed"],
                       "class": {"payload": payload, "placement": placement, "top_level_operator": topop, "direction": direc,
                                 "failing_cases": len(lst)}, "all_failing": listing[:400]},
                      "%s / %s / `%s` in backend %s: %s (expected %s, observed %s; %d failing (formula, backend) cases in this class)" % (
                          payload, placement, ctext, backend, direc, f["expected"], f["observed"], len(lst)))

    # ---- literal non-interference
    t2 = time.time()
    sing_specs = [("method", "disable")]
    if tier == "thorough":
        sing_specs = [(p, q) for p in SINGLE_PLACEMENTS for q in ("disable", "rename")]
    sing_n = sing_fail = 0
    for placement, payload in sing_specs:
        res, textf = singles(wd, probe, d2, placement, payload)
        runs += len(res) + 2 * len(BACKENDS)
        cl = {}
        for r in res:
            sing_n += 1
            outcomes["single:" + ("same-as-star" if r["truth"] else "same-as-bare")] = outcomes.get("single:" + ("same-as-star" if r["truth"] else "same-as-bare"), 0) + (r["fail"] is None)
            if r["fail"]:
                sing_fail += 1
                cl.setdefault((r["top"], r["fail"]), []).append(r)
        if cl:  # confirming second run of every failing single-attribute input
            ftexts = sorted(set(r["formula"] for lst in cl.values() for r in lst))
            again, _ = singles(wd, probe, [f for f in d2 if render(f) in set(ftexts)], placement, payload)
            if sorted((r["formula"], r["backend"], r["fail"]) for r in again if r["fail"]) != \
                    sorted((r["formula"], r["backend"], r["fail"]) for lst in cl.values() for r in lst):
                raise MachineryError("non-deterministic single-attribute failures (%s/%s)" % (placement, payload))
        for (topop, direc), lst in sorted(cl.items()):
            lst.sort(key=lambda r: (r["size"], r["formula"], BACKENDS.index(r["backend"])))
            r = lst[0]
            rep.violation("C13|%s|%s|%s|backend=%s|single-attribute:%s" % (payload, placement, r["formula"], r["backend"], direc),
                          {"placement": placement, "payload": payload, "backend": r["backend"], "formula": r["formula"], "single": True,
                           "input_rs": textf(r["formula"]), "input_without_attr_rs": textf(None), "input_star_rs": textf("*"), "detail": r,
                           "all_failing": [{"formula": x["formula"], "backend": x["backend"]} for x in lst][:400]},
                          "input with the single attribute `%s` (%s on %s), backend %s: %s — whole tree %s the tree without the attribute, %s the tree with `*`" % (
                              r["formula"], payload, placement, r["backend"], direc, "==" if r.get("equals_without_attr") else "!=",
                              "==" if r.get("equals_star") else "!="))
    timing["singles"] = round(time.time() - t2, 1)

    alt_n = alternatives_unit(rep, wd, probe)
    judged += alt_n
    states += alt_n
    runs += alt_n
    # ---- error formulas
    errs = error_runs(wd)
    runs += len(errs)
    unspecified = {}
    errbad = {}
    for e in errs:
        if e["must"]:
            judged += 1
            states += 1
            outcomes["error-formula:" + e["kind"]] = outcomes.get("error-formula:" + e["kind"], 0) + 1
            if not e["ok"]:
                errbad.setdefault((e["cond"], e["payload"], "silently-accepted" if e["kind"] == "ok" else "not-a-clean-rejection:" + e["kind"]), []).append(e)
        else:
            unspecified.setdefault("%s, %s" % (e["cond"], e["payload"]), {"why": e["why"], "per_backend": {}})["per_backend"][e["backend"]] = (
                e["kind"] if e["kind"] != "ok" else ("ok:disabled" if "zq7m0007" not in (e["tokens"] or []) else "ok:kept"))
    if errbad:  # confirming second run
        again = [(e["cond"], e["payload"], e["backend"], e["kind"]) for e in error_runs(wd) if e["must"] and not e["ok"]]
        if sorted(again) != sorted((e["cond"], e["payload"], e["backend"], e["kind"]) for lst in errbad.values() for e in lst):
            raise MachineryError("non-deterministic outcome of error formulas")
    for (cond, payload, how), lst in sorted(errbad.items()):
        e = lst[0]
        rep.violation("C13|error-formula|%s|%s|%s" % (payload.split(" ")[0], cond, how),
                      {"input_rs": err_text(cond, payload), "error_formula": True, "backends": [x["backend"] for x in lst], **e},
                      "`#[diplomat::attr(%s, %s)]` (%s) in backend(s) %s: expected rejection with a message and no files; got %s, tokens %s" % (
                          cond, payload, e["why"], ",".join(x["backend"] for x in lst), e["kind"], e["tokens"]))
    malformed = sorted(set(e["kind"] for e in errs if e["must"] and "malformed" in e["why"]))

    # ---- CLI aliases
    alias = []
    if CHECK_CLI_ALIASES:
        alias = alias_runs(wd)
        runs += 2 * len(alias)
        if any(not (a["primary"] == "ok" and a["aliased"] == "ok" and a.get("same_tree")) for a in alias):  # confirming second run
            if [(a["alias"], a.get("tokens_alias"), a["aliased"]) for a in alias_runs(wd)] != [(a["alias"], a.get("tokens_alias"), a["aliased"]) for a in alias]:
                raise MachineryError("non-deterministic outcome of CLI alias runs")
        for a in alias:
            judged += 1
            states += 1
            ok = a["primary"] == "ok" and a["aliased"] == "ok" and a.get("same_tree")
            outcomes["alias:" + ("same" if ok else "differs")] = outcomes.get("alias:" + ("same" if ok else "differs"), 0) + 1
            if not ok:
                rep.violation("C13|cli-alias|cli=%s|atom=%s|backend name not answered" % (a["alias"], a["backend"]),
                              {"alias_case": True, **a},
                              "`diplomat-tool %s` runs the %s backend but `#[diplomat::attr(%s, ..)]` conditions evaluate differently than under "
                              "`diplomat-tool %s` (tokens %s vs %s)" % (a["alias"], a["backend"], a["backend"], a["backend"],
                                                                        a.get("tokens_alias"), a.get("tokens_primary")))

    # ---- rustc + nm
    t3 = time.time()
    xres = export_check(probe)
    timing["export"] = round(time.time() - t3, 1)
    for x in xres:
        judged += len(x["want"])
        states += len(x["want"])
        if not x["compiled"]:
            outcomes["export:rustc-rejects-attribute"] = outcomes.get("export:rustc-rejects-attribute", 0) + len(x["want"])
            rep.violation("C13|export|%s|rustc: cannot find `attr` in `diplomat` (macro leaves the attribute on the item)" % "+".join(x["err"]["attribute_sits_on"]),
                          {"export_case": True, "crate": x["crate"], "placements": x["placements"], "rustc": x["err"],
                           "lib_rs": open(os.path.join(x["crate"], "src", "lib.rs")).read()[:6000]},
                          "a crate with `%s` before `%s` does not compile with the real proc macro: %s (%d places) - the functions are not exported" % (
                              x["err"]["first"], ", ".join(x["err"]["attribute_sits_on"]), x["err"]["rustc"], x["err"]["count"]))
            continue
        outcomes["export:present"] = outcomes.get("export:present", 0) + len(x["want"]) - len(x["missing"])
        if x["missing"]:
            outcomes["export:missing"] = outcomes.get("export:missing", 0) + len(x["missing"])
            rep.violation("C13|export|%s|symbol missing from the compiled library" % x["missing"][0],
                          {"export_case": True, "crate": x["crate"], "missing": x["missing"]},
                          "the proc macro did not export %s (and %d more)" % (x["missing"][0], len(x["missing"]) - 1))
    xinfo = [{"crate": x["crate"], "placements": x["placements"], "compiled": x["compiled"], "symbols_expected": len(x["want"]),
              "symbols_missing": len(x["missing"]), "rustc": x["err"]} for x in xres]

    shutil.rmtree(wd, ignore_errors=True)
    mixed_probe = sum(1 for v in SUPPORTS_ALL if len(set(probe[b][v] for b in BACKENDS)) > 1)
    cov = {
        "states": states,
        "transitions": judged + sing_n,
        "traces_validated_against_impl": judged + sing_n,
        "evaluations": judged + sing_n,
        "tool_runs": runs,
        "distinct_nontrivial": nontrivial,
        "rule": "state = (formula(s), placement, payload, backend); each is generated by the real diplomat-tool and judged against the reference "
                "evaluator (token presence + whole-tree identity with the canonical form); distinct_nontrivial = (formula, placement, payload) "
                "cases whose reference truth differs between backends",
        "exhaustive": True,
        "distinct_outcomes": len([k for k, v in outcomes.items() if v]),
        "outcomes": outcomes,
        "bound": bound,
        "batches": len(batches),
        "single_attribute_runs": {"specs": ["%s/%s" % s for s in sing_specs], "formulas": len(d2), "judged": sing_n, "failed": sing_fail},
        "error_formulas": {"must_reject": [e[0] + ", " + e[1] for e in ERR_MUST], "malformed_cfg_rejection_kinds": malformed,
                           "unspecified_recorded_not_judged": unspecified},
        "supports_probe": {b: sorted(v for v in SUPPORTS_ALL if probe[b][v]) for b in BACKENDS},
        "supports_values_with_mixed_truth": mixed_probe,
        "behaviour_crosscheck": xc,
        "cli_aliases": [{k: a.get(k) for k in ("alias", "backend", "primary", "aliased", "same_tree")} for a in alias],
        "export": xinfo,
        "timing_s": timing,
        "notes": rep.notes,
        "samples": samples,
    }
    print("C13 plan: %d batches, %d (formula,placement,payload,backend) cases judged, %d tool runs; depth<=2 formulas=%d" % (
        len(batches), judged, runs, len(d2)))
    return rep.finish(cov, [
        "depth counts atoms as depth 1 (DESIGN C13): depth<=2 = atoms and one operator over atoms; depth 3 = two nested operator levels",
        "backend-name truth is the fixed table {CLI name} plus demo_gen answering to js; the book's `demo` spelling is treated as an unknown name (false "
        "everywhere) and its observed behaviour is recorded under error_formulas.unspecified_recorded_not_judged",
        "supports=X truth is probed from the implementation (atom and negated atom must disagree); a changed backend profile is not an alarm",
        "demo_gen is judged on its own files; the js/ sub-folder it embeds is produced by a nested run of the js backend with the js validator",
        "rename is judged (token of the new name present iff condition true) in cpp, js, dart, nanobind only; in c, kotlin, demo_gen only the "
        "false direction and the whole-tree identity with the canonical form are judged",
        "an item whose enclosing impl/module and own attribute both disable it yields the implemented diagnostic \"Duplicate `disable` attribute\" "
        "(undocumented in the book): accepted as 'disabled', counted separately in outcomes",
        "inherited rename: a later (inner) rename overrides the inherited one (hir/attrs.rs from_ast comment); module renames reach types, not methods",
        "malformed cfg: the tool aborts via expect(\"Failed to parse malformed diplomat::attr\") (exit 101); accepted as a loud rejection because "
        "no document promises a lowering error there",
        "Dart/Kotlin/nanobind outputs are read as text (token presence), not compiled",
    ])


def replay(path):
    w = json.load(open(path))
    wit = w["witness"]
    print("replaying %s" % w["key"])
    build_tool()
    wd = workdir(PROP + "-replay")
    try:
        if wit.get("error_formula"):
            r = gen(wd, "r", wit["backend"], wit["input_rs"])
            print("input:\n%s\nbackend %s -> %s\n%s" % (wit["input_rs"], wit["backend"], err_kind(r), r["err"]))
            acc = [e[2] for e in ERR_MUST if e[0] == wit["cond"] and e[1] == wit["payload"]]
            okk = acc and err_kind(r) in acc[0] and not r["tree"]
            print("still failing" if not okk else "no longer failing")
            return 0 if okk else 1
        if wit.get("alias_case"):
            r0 = gen(wd, "p", wit["backend"], wit["input"])
            r1 = gen(wd, "a", wit["backend"], wit["input"], cli=wit["alias"])
            same = r0["rc"] == 0 and r1["rc"] == 0 and r0["tree"] == r1["tree"]
            print("input:\n%s\n`%s` vs `%s`: trees %s" % (wit["input"], wit["backend"], wit["alias"], "identical" if same else "DIFFER"))
            return 0 if same else 1
        if wit.get("export_case"):
            probe, _, _ = probe_supports(wd)
            bad = 0
            for x in export_check(probe):
                print("%s %s: compiled=%s missing=%s %s" % (x["crate"], x["placements"], x["compiled"], x["missing"], x["err"] or ""))
                bad += (not x["compiled"]) or bool(x["missing"])
            return 1 if bad else 0
        probe, _, _ = probe_supports(wd)
        if wit.get("single"):
            b = wit["backend"]
            r = gen(wd, "s", b, wit["input_rs"])
            r0 = gen(wd, "s0", b, wit["input_without_attr_rs"])
            r1 = gen(wd, "s1", b, wit["input_star_rs"])
            print("input:\n%s\nbackend %s: %s; tree == without attribute: %s; tree == with `*`: %s" % (
                wit["input_rs"], b, err_kind(r), r["tree"] == r0["tree"], r["tree"] == r1["tree"]))
            f = _parse(wit["formula"])
            t = ev(f, b, probe)
            okk = r["rc"] == 0 and (r["tree"] == r1["tree"] if t else r["tree"] == r0["tree"])
            print("reference: condition is %s for %s => %s" % (t, b, "no longer failing" if okk else "still failing"))
            return 0 if okk else 1
        if "case" in wit:
            c = {"idx": 7, "outer": _tup(wit["case"]["outer"]), "inner": _tup(wit["case"]["inner"])}
            r, text = minimal_repro(wd, probe, wit["placement"], wit["payload"], wit["backend"], c)
            print("input:\n%s\nbackend: %s\nresult: %s" % (text, wit["backend"], json.dumps({k: r[k] for k in ("fails", "batch_fail", "outcomes")}, indent=1, default=str)))
            bad = bool(r["fails"] or r["batch_fail"])
            if not bad and wit.get("input_rs") and wit["input_rs"] != text:
                print("(single-case input passes; the recorded witness input is the packed batch — run the full check)")
                return run("quick")
            print("still failing" if bad else "no longer failing")
            return 1 if bad else 0
        print(json.dumps(wit, indent=1)[:4000])
        return run("quick")
    finally:
        shutil.rmtree(wd, ignore_errors=True)


def _tup(x):
    if x is None:
        return None
    if isinstance(x, list):
        return tuple(_tup(y) for y in x)
    return x


def _parse(s):
    """Parser for the rendered formula syntax (used by replay only)."""
    s = s.strip()
    pos = [0]

    def ws():
        while pos[0] < len(s) and s[pos[0]] == " ":
            pos[0] += 1

    def term():
        ws()
        if s[pos[0]] == "*":
            pos[0] += 1
            return STAR
        m = re.match(r"[A-Za-z_][A-Za-z_0-9]*", s[pos[0]:])
        name = m.group(0)
        pos[0] += len(name)
        ws()
        if name in ("not", "any", "all") and pos[0] < len(s) and s[pos[0]] == "(":
            pos[0] += 1
            args = []
            while True:
                ws()
                if s[pos[0]] == ")":
                    pos[0] += 1
                    break
                args.append(term())
                ws()
                if s[pos[0]] == ",":
                    pos[0] += 1
            return ("not", args[0]) if name == "not" else (name, tuple(args))
        if pos[0] < len(s) and s[pos[0]] == "=":
            pos[0] += 1
            ws()
            m = re.match(r'"?([A-Za-z_0-9]+)"?', s[pos[0]:])
            pos[0] += len(m.group(0))
            return ("sq" if m.group(0).startswith('"') else "s", m.group(1))
        return ("n", name)

    return term()
