"""C04 backend half: the edge arrays js / dart / kotlin / nanobind attach to returned objects must contain at least
the inputs the reference model (outlives closure) says the return value may borrow from."""
import json
import os
import re
import shutil
import subprocess

from vlib import sigs as S
from vlib.common import build_harness, build_tool, run_tool, workdir, MachineryError, pmap, default_configs

BACKENDS = ["js", "dart", "kotlin", "nanobind"]
# 'static slices are outside the js/dart profiles; Kotlin has no Option<struct> support and crashes on any Option<&[T]> parameter (C15 finding)
EXCLUDED_PARAMS = {"&'static Op", "&'static str"}
EXCLUDED_FOR = {"kotlin": {"Option<&'x [u8]>", "Option<SB<'x>>", "Option<SSl<'x>>"}}
# struct parameter forms whose definition lifetimes hold slice fields: Dart / JS must hand the edge arrays of every return lifetime
# that may borrow through that slot to the struct conversion (append arrays), which attaches the slice arena to them
SLICE_SLOTS = {"SSl<'x>": {"a"}, "Option<SSl<'x>>": {"a"}, "SSl2<'x,'y>": {"a", "b"}, "Nest2<'x,'y>": {"b"}}
# returned slices/strings are copied into host values by some backends (Kotlin arrays/Strings, nanobind std::string): the
# returned value then borrows nothing, so no edge is required; these return forms are judged in the in-process half only
# JS panics on any Result whose error type is a primitive (converter.rs `e.id().unwrap()`): reported by C15, kept out of this module
RETS = [f for f in S.RET_FORMS if f.name not in ("&'r [u8]", "&'r str", "Result<u8, S2b<'r,'s>>", "Result<S2b<'r,'s>, u8>")]


def _sig_sets(tier):
    params = [f.name for f in S.PARAM_FORMS if f.name not in EXCLUDED_PARAMS]
    selfs = [s[0] for s in S.SELF_FORMS]
    out = []
    # method lifetimes are named p,q,r so they cannot be confused with struct/opaque definition lifetimes a,b
    if tier == "quick":
        out += list(S.enumerate_sigs(("p",), selfs, params, 1, RETS))
        out += list(S.enumerate_sigs(("p", "q"), ["none", "&'x self on Op"], params, 1, RETS))
    else:
        out += list(S.enumerate_sigs(("p",), selfs, params, 2, RETS))
        out += list(S.enumerate_sigs(("p", "q"), selfs, params, 1, RETS))
        two = ["&'x Op", "&'x OpL<'y>", "&'x [u8]", "SB<'x>", "S2<'x,'y>", "&Op"]
        out += list(S.enumerate_sigs(("p", "q"), ["none", "&'x self on Op"], two, 2, RETS,
                                     bound_sets=[frozenset(), frozenset({("p", "q")}), frozenset({("q", "p")}), frozenset({("p", "q"), ("q", "p")})]))
        chain = [frozenset(), frozenset({("p", "q"), ("q", "r")}), frozenset({("r", "p")}), frozenset({("q", "p"), ("r", "p")})]
        out += list(S.enumerate_sigs(("p", "q", "r"), ["none", "&'x self on Op"], params, 1, RETS, bound_sets=chain))
    return out


def _filter_accepted(sigs, hirx, wd):
    inp, outp = os.path.join(wd, "flt.in"), os.path.join(wd, "flt.out")
    with open(inp, "w") as fh:
        fh.write(json.dumps({"prelude": S.PRELUDE}) + "\n")
        for i, s in enumerate(sigs):
            fh.write(json.dumps({"id": i, "impl": s.impl_header(), "method": s.render_method("m")}) + "\n")
    p = subprocess.run([hirx, "borrow", inp, outp], stdout=subprocess.PIPE, stderr=subprocess.PIPE, text=True)
    if p.returncode != 0:
        raise MachineryError("hirx failed: " + p.stderr[-2000:])
    keep = []
    with open(outp) as fh:
        for s, line in zip(sigs, fh):
            r = json.loads(line)
            if r["status"] != "ok":
                continue
            m = r["methods"].get("%s::m" % s.owner()) or {}
            if any("panic" in (m.get(f) or {}) for f in ("false", "true")):
                continue
            keep.append(s)
    return keep


# ------------------------------------------------------------------------------------------------
# extractors: text of one method -> {array name: set((param, kind, def_lt))}


class Undecided(Exception):
    pass


def _elem_js_dart(e, backend):
    e = e.strip()
    m = re.fullmatch(r"\.\.\.\((this|p\d+)\?\._fieldsForLifetime([A-Z]) \|\| \[\]\)", e)
    if m:  # optional struct parameter (JS)
        return (m.group(1), "struct", m.group(2).lower())
    if e == "this":
        return ("this", "opaque", None)
    m = re.fullmatch(r"\.\.\.\??(this|p\d+)\??\._fieldsForLifetime([A-Z])(?: \?\? \[\])?", e)
    if m:
        return (m.group(1), "struct", m.group(2).lower())
    m = re.fullmatch(r"(p\d+)(Slice|Arena)?", e)
    if m:
        suffix = m.group(2)
        if suffix is None:
            return (m.group(1), "opaque", None)
        if (backend == "js" and suffix == "Slice") or (backend == "dart" and suffix == "Arena"):
            return (m.group(1), "slice", None)
    raise Undecided("cannot interpret %s edge element %r" % (backend, e))


def _split_methods(text, names, backend):
    """returns {method name: body text}"""
    out = {}
    if backend == "js":
        pat = re.compile(r"^    (?:static )?(m\d+)\(([^)]*)\) \{$", re.M)
    elif backend == "dart":
        pat = re.compile(r"^  (?:static )?[\w<>?., ]+ (m\d+)\(([^)]*)\) \{$", re.M)
    else:
        pat = re.compile(r"^\s+fun (m\d+)\(([^)]*)\): ", re.M)
    ms = list(pat.finditer(text))
    for i, m in enumerate(ms):
        end = ms[i + 1].start() if i + 1 < len(ms) else len(text)
        out[m.group(1)] = text[m.start():end]
    return out


def _arrays(body, backend):
    arrs = {}
    if backend == "js":
        for m in re.finditer(r"let (\w+)Edges = \[(.*?)\];", body):
            arrs[m.group(1)] = {_elem_js_dart(e, backend) for e in m.group(2).split(",") if e.strip()}
    elif backend == "dart":
        for m in re.finditer(r"core\.List<Object> (\w+)Edges = \[(.*?)\];", body):
            arrs[m.group(1)] = {_elem_js_dart(e, backend) for e in m.group(2).split(",") if e.strip()}
    elif backend == "kotlin":
        for m in re.finditer(r"val (\w+)Edges: List<Any\??> = (.*)", body):
            els = set()
            for e in m.group(2).strip().split(" + "):
                e = e.strip()
                if e == "listOf()":
                    continue
                mm = re.fullmatch(r"listOf\((this|p\d+)(Mem)?\)", e)
                if mm:
                    els.add((mm.group(1), "slice" if mm.group(2) else "opaque", None))
                    continue
                mm = re.fullmatch(r"(this|p\d+)\.([a-z])Edges", e)
                if mm:
                    els.add((mm.group(1), "struct", mm.group(2)))
                    continue
                mm = re.fullmatch(r"(p\d+)\?\.([a-z])Edges \?: listOf\(\)", e)
                if mm:
                    els.add((mm.group(1), "struct", mm.group(2)))
                    continue
                raise Undecided("cannot interpret kotlin edge element %r in %r" % (e, m.group(0)))
            arrs[m.group(1)] = els
    return arrs


def _return_uses(body, backend):
    """names of edge arrays that flow into the construction of the returned object"""
    if backend == "js":
        rets = re.findall(r"return .*", body) + re.findall(r"new \w+\(diplomatRuntime\.internalConstructor.*", body) + re.findall(r"_fromFFI\(.*", body)
    elif backend == "dart":
        rets = re.findall(r"return .*", body) + re.findall(r"_fromFfi\(.*", body)
    else:
        rets = re.findall(r"val return(?:Opaque|Struct|Val\w*) = .*", body) + re.findall(r"return .*", body) + re.findall(r"\w+\(\w+, .*Edges.*\)", body)
    used = set()
    for r in rets:
        used.update(re.findall(r"(\w+)Edges", r))
    return used


def _append_arrays(body, backend):
    """{param: {def_lt: set(edge array names)}} from the struct conversions in the call expression"""
    out = {}
    if backend == "js":
        pats = [r"internalConstructor, (p\d+)\)\._intoFFI\(functionCleanupArena, \{([^}]*)\}",
                r"optionToArgsForCalling\((p\d+), (?:(?!optionToArgsForCalling).)*?_writeToArrayBuffer\(arrayBuffer, offset \+ 0, functionCleanupArena, \{([^}]*)\}"]
    else:
        pats = [r"(p\d+)\._toFfi\(temp\.arena((?:, \w+AppendArray: \[[^\]]*\])*)\)"]
    for pat in pats:
        for m in re.finditer(pat, body):
            d = out.setdefault(m.group(1), {})
            for a in re.finditer(r"(\w)AppendArray: \[([^\]]*)\]", m.group(2)):
                names = set()
                for e in a.group(2).split(","):
                    e = e.strip()
                    if not e:
                        continue
                    mm = re.fullmatch(r"(\w+)Edges", e)
                    if not mm:
                        raise Undecided("cannot interpret append array element %r" % e)
                    names.add(mm.group(1))
                d[a.group(1)] = names
    return out


def _judge_append(s, body, backend):
    """Dart / JS: for a struct parameter with slice fields in definition lifetime d, dAppendArray must list the edge arrays of exactly
    the return lifetimes that may borrow through that slot (fewer: the slice arena is freed too early; more: only a leak, not judged)"""
    probs = []
    exp = s.expected_edges()
    got = None
    for i, (f, l) in enumerate(s.params):
        slots = SLICE_SLOTS.get(f.name)
        if not slots:
            continue
        pn = "p%d" % i
        for d in sorted(slots):
            want = {r for r, es in exp.items() if (pn, "struct", d) in es}
            if not want:
                continue
            if got is None:
                got = _append_arrays(body, backend)
            if pn not in got:
                raise Undecided("%s: conversion of struct parameter %s not found in %r" % (backend, pn, body[:300]))
            have = got[pn].get(d, set())
            if want - have:
                probs.append(("append-array", "struct parameter %s, slot '%s: append array lists %s, return lifetimes borrowing through it: %s" % (
                    pn, d, sorted(have), sorted(want))))
    return probs


def _judge_method(s, body, backend):
    """returns list of (class, detail)"""
    exp = s.expected_edges()
    probs = []
    if backend == "nanobind":
        return probs
    if backend in ("js", "dart"):
        probs += _judge_append(s, body, backend)
    # which part of the body / which array names carry lifetime r
    ret_ref_lt = None
    if s.ret.name in ("&'r Op", "Option<&'r Op>", "&'r OpL<'s>", "Result<&'r Op, ()>", "Result<(), &'r Op>"):
        ret_ref_lt = s.ret_l[0]
    plan = {}
    for r in exp:
        plan[r] = [(body, ["self", r] if (backend == "kotlin" and r == ret_ref_lt) else [r])]
    if backend == "kotlin" and s.ret.name.startswith("Result<"):
        if "} else {" not in body:
            raise Undecided("kotlin Result method without else branch")
        okb, errb = body.split("} else {", 1)
        if s.ret.name == "Result<Box<OpL<'r>>, &'s Op>":
            r, e = s.ret_l
            plan = {}
            plan.setdefault(r, []).append((okb, [r]))
            plan.setdefault(e, []).append((errb, ["self", e]))
        elif s.ret.name == "Result<(), &'r Op>":
            plan = {s.ret_l[0]: [(errb, ["self", s.ret_l[0]])]}
        elif s.ret.name == "Result<u8, S2b<'r,'s>>":
            plan = {}
            for l in s.ret_l:
                plan.setdefault(l, []).append((errb, [l]))
        elif s.ret.name == "Result<S2b<'r,'s>, u8>":
            plan = {}
            for l in s.ret_l:
                plan.setdefault(l, []).append((okb, [l]))
        else:
            plan = {s.ret_l[0]: [(okb, ["self", s.ret_l[0]])]}
    for r, want in exp.items():
        if not want:
            continue
        # a lifetime may be carried by several parts (both arms of a Result): each part that can hold a value borrowing
        # for r must attach the edges; parts are judged separately against the slots that are relevant for them
        for (part, names) in plan[r]:
            arrs = _arrays(part, backend)
            used = _return_uses(part, backend)
            got = set()
            found = False
            for n in names:
                if n in arrs:
                    found = True
                    if n in used:
                        got |= arrs[n]
            if not found:
                probs.append(("no-edge-array", "lifetime '%s: no edge array emitted; expected %s" % (r, sorted(map(str, want)))))
                continue
            miss = want - got
            if miss:
                if not any(n in used for n in names if n in arrs):
                    probs.append(("edges-not-attached", "lifetime '%s: edge array is built but never passed to the returned object" % r))
                else:
                    probs.append(("missing-edge", "lifetime '%s: attached %s, missing %s" % (r, sorted(map(str, got)), sorted(map(str, miss)))))
    return probs


def _judge_nanobind(s, line):
    exp = s.expected_edges()
    want_params = set()
    for v in exp.values():
        for (p, _k, _d) in v:
            want_params.add(p)
    if not want_params:
        return []
    kept = {int(x) for x in re.findall(r"nb::keep_alive<0, (\d+)>\(\)", line)}
    names = []
    if s.selff not in ("none", "static on OpL<'y>"):
        names.append("this")
    names += ["p%d" % i for i in range(len(s.params))]
    got = {names[k - 1] for k in kept if 0 < k <= len(names)}
    miss = want_params - got
    if miss:
        return [("missing-keep-alive", "keep_alive covers %s, missing %s" % (sorted(got), sorted(miss)))]
    return []


SLICE_ELEMS = ["u8", "i8", "u16", "i16", "u32", "i32", "u64", "i64", "usize", "isize", "f32", "f64", "bool", "DiplomatByte", "DiplomatChar"]


def dart_slice_returns(rep, wd):
    """Dart: a borrowed primitive slice comes back as a zero-copy typed-list view for most element types; the helper struct's _toDart
    must then attach the lifetime edges it is handed (a view whose owner is collected is a use-after-free), and the method must hand them over"""
    ms = "".join("        pub fn s%d<'p>(&'p self) -> &'p [%s] { unimplemented!() }\n" % (k, t) for k, t in enumerate(SLICE_ELEMS))
    ms += "        pub fn st<'p>(&'p self) -> &'p str { unimplemented!() }\n        pub fn s16<'p>(&'p self) -> &'p DiplomatStr16 { unimplemented!() }\n"
    src = "#[diplomat::bridge]\nmod ffi {\n    #[diplomat::opaque]\n    pub struct Sl(u8);\n    impl Sl {\n%s    }\n}\n" % ms
    d = os.path.join(wd, "dart_slices")
    os.makedirs(d, exist_ok=True)
    open(os.path.join(d, "lib.rs"), "w").write(src)
    p = run_tool("dart", os.path.join(d, "lib.rs"), os.path.join(d, "out"))
    if p.returncode != 0:
        raise MachineryError("dart backend refused the slice-return module: " + p.stderr[-800:])
    sl = open(os.path.join(d, "out", "Sl.g.dart")).read()
    lib = open(os.path.join(d, "out", "lib.g.dart")).read()
    helpers = {}
    for m in re.finditer(r"final class (_Slice\w+) extends ffi\.Struct \{(.*?)\n\}\n", lib, re.S):
        tm = re.search(r" _toDart\(core\.List<Object> lifetimeEdges[^)]*\) \{(.*?)\n  \}", m.group(2), re.S)
        if tm:
            helpers[m.group(1)] = tm.group(1)
    judged = 0
    for k in list(range(len(SLICE_ELEMS))) + ["t", "16"]:
        name = "s%s" % k
        mm = re.search(r"\n  [\w<>.? ]+ %s\(\) \{(.*?)\n  \}" % name, sl, re.S)
        if not mm:
            raise MachineryError("UNDECIDED: dart method %s not found" % name)
        body = mm.group(1)
        em = re.search(r"core\.List<Object> (\w+)Edges = \[(.*?)\];", body)
        call = re.search(r"return result\._toDart\((\w+)Edges\)", body)
        elem = SLICE_ELEMS[k] if isinstance(k, int) else {"t": "str", "16": "DiplomatStr16"}[k]
        judged += 1
        if not em or "this" not in [x.strip() for x in em.group(2).split(",")] or not call or call.group(1) != em.group(1):
            rep.violation("C04b|dart|slice-return|edges-not-passed|%s" % elem, {"method": body}, "dart: a method returning &'p [%s] borrowed from self does not pass [this] to the slice conversion" % elem)
            continue
        native = re.search(r"external (_Slice\w+) _Sl_%s\(" % name, sl)
        if not native or native.group(1) not in helpers:
            raise MachineryError("UNDECIDED: dart helper struct of %s not found" % name)
        hb = helpers[native.group(1)]
        view = re.search(r"final r = _data\.asTypedList\(_length\);", hb) is not None
        copy = re.search(r"final r = .*(convert\(|toList\(|fromCharCodes\(|map\()", hb) is not None
        if view == copy:
            raise MachineryError("UNDECIDED: cannot tell whether %s._toDart returns a view or a copy: %s" % (native.group(1), hb[:300]))
        if view and "_nopFree.attach(r, lifetimeEdges)" not in hb:
            rep.violation("C04b|dart|slice-return|view-drops-edges|%s" % native.group(1), {"helper": native.group(1), "toDart": hb, "element": elem},
                          "dart: %s._toDart returns a zero-copy view of Rust memory but does not keep the lifetime edges alive (element type %s)" % (native.group(1), elem))
    return judged


def backend_half(rep, tier):
    hirx = os.path.join(build_harness("hirx"), "hirx")
    build_tool()
    wd = workdir("C04b")
    dart_slices = dart_slice_returns(rep, wd)
    allsigs = _filter_accepted(_sig_sets(tier), hirx, wd)
    groups = [(["js", "dart", "nanobind"], allsigs),
              (["kotlin"], [s for s in allsigs if not any(f.name in EXCLUDED_FOR["kotlin"] for f, _ in s.params)])]
    totals = {"methods": 0, "judged": 0, "nontrivial": 0, "shards": 0}
    for backends, sigs in groups:
        _run_group(rep, wd, sigs, backends, totals)
    shutil.rmtree(wd, ignore_errors=True)
    return {"methods": len(allsigs), "dart_slice_return_judgements": dart_slices, "judgements": totals["judged"] + dart_slices, "nontrivial": totals["nontrivial"], "shards": totals["shards"], "backends": BACKENDS,
            "excluded_param_forms": sorted(EXCLUDED_PARAMS), "excluded_for_backend": {k: sorted(v) for k, v in EXCLUDED_FOR.items()},
            "samples": [{"backend_half_sig": s.render_method("m"), "impl": s.impl_header(),
                         "expected": {k: sorted(map(str, v)) for k, v in s.expected_edges().items()}} for s in allsigs[5:400:150]]}


def _run_group(rep, wd, sigs, BACKENDS, totals):
    # shard: <= 100 methods per owner type per file
    shards = []
    per = 100
    byowner = {}
    for s in sigs:
        byowner.setdefault(s.owner(), []).append(s)
    nshards = max((len(v) + per - 1) // per for v in byowner.values())
    for k in range(nshards):
        shard = []
        for o, v in byowner.items():
            shard += v[k * per:(k + 1) * per]
        shards.append(shard)

    def run_shard(arg):
        k, shard = arg
        src, index = S.pack_sigs(shard, per_impl=100)
        d = os.path.join(wd, "s%d" % k)
        os.makedirs(d, exist_ok=True)
        entry = os.path.join(d, "lib.rs")
        open(entry, "w").write(src)
        res = {"judged": 0, "probs": [], "crash": [], "nontrivial": 0}
        for b in BACKENDS:
            out = os.path.join(d, "out_" + b)
            p = run_tool(b, entry, out, configs=default_configs(b))
            if p.returncode != 0:
                res["crash"].append((b, k, p.stderr[-1500:]))
                continue
            try:
                if b == "nanobind":
                    text = open(os.path.join(out, "somelib_ext.cpp")).read()
                    for key, s in index.items():
                        owner, name = key.split("::")
                        m = re.search(r'\.def(?:_static)?\("%s", &%s::%s[,)].*' % (name, owner, name), text)
                        if not m:
                            raise Undecided("nanobind: no .def for %s" % key)
                        res["judged"] += 1
                        for cls, det in _judge_nanobind(s, m.group(0)):
                            res["probs"].append((b, cls, det, s.describe()))
                else:
                    texts = {}
                    for owner in ("Op", "OpL", "SB", "S2"):
                        fn = {"js": "%s.mjs", "dart": "%s.g.dart", "kotlin": "src/main/kotlin/dev/verif/somelib/%s.kt"}[b] % owner
                        pth = os.path.join(out, fn)
                        if os.path.exists(pth):
                            texts[owner] = _split_methods(open(pth).read(), None, b)
                    for key, s in index.items():
                        owner, name = key.split("::")
                        body = texts.get(owner, {}).get(name)
                        if body is None:
                            raise Undecided("%s: method %s not found in output" % (b, key))
                        res["judged"] += 1
                        for cls, det in _judge_method(s, body, b):
                            res["probs"].append((b, cls, det, s.describe()))
            except Undecided as e:
                res["undecided"] = str(e)
            shutil.rmtree(out, ignore_errors=True)
        res["nontrivial"] = sum(1 for s in shard if any(s.expected_edges().values()))
        return res

    results = pmap(run_shard, list(enumerate(shards)))
    judged = 0
    nontrivial = 0
    for r in results:
        if "undecided" in r:
            raise MachineryError("UNDECIDED: " + r["undecided"])
        for (b, k, err) in r["crash"]:
            msg = re.search(r"panicked at ([^:\n]+):\d+:\d+:\n(.{0,80})", err)
            key = "C04b|backend-failed|%s|%s" % (b, (msg.group(1) + "|" + msg.group(2)) if msg else err.strip().splitlines()[-1][:80] if err.strip() else "?")
            rep.violation(key, {"backend": b, "shard": k, "stderr": err}, "backend %s failed on a module of accepted borrowing signatures" % b)
        judged += r["judged"]
        nontrivial += r["nontrivial"]
        for (b, cls, det, d) in r["probs"]:
            key = "C04b|%s|%s|self=%s|ret=%s|params=%s" % (b, cls, d["self"], re.sub(r"'[a-z]\b", "'_", d["ret"]),
                                                        ",".join(re.sub(r"'[a-z]\b", "'_", p) for p in d["params"]))
            rep.violation(key, {"backend": b, "signature": d, "problem": det}, "%s: %s on `%s`" % (b, det, d["text"]))
    totals["judged"] += judged
    totals["nontrivial"] += nontrivial
    totals["shards"] += len(shards)
