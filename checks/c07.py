"""C07 — Dart (dart:ffi) and Kotlin (JNA) native declarations match each function's and struct's C ABI.
No Dart/Kotlin toolchain exists here: the generated text is parsed into abstract ABI shapes (strict parsers: anything they cannot
interpret is UNDECIDED = exit 2) and compared with the shapes of the Rust source-level types (which C01 ties to the compiled ABI by execution)."""
import json
import os
import re
import shutil

from vlib import abi as A
from vlib import ffix as F
from vlib.common import Reporter, build_tool, run_tool, workdir, MachineryError, default_configs
from checks import c01


class Undecided(Exception):
    pass


# ---------------------------------------------------------------------------------------------
# ground truth: shape of the C ABI of a source-level type

def shape(t):
    if t is None or isinstance(t, A.Unit):
        return ("void",)
    if isinstance(t, A.Prim):
        if t.name == "bool":
            return ("bool",)
        if t.isfloat:
            return ("float", t.bits)
        if t.name in ("usize", "isize"):
            return ("int", "size", t.signed)
        return ("int", t.bits, t.signed)
    if isinstance(t, A.Enum):
        return ("int", 32, True)
    if isinstance(t, A.Struct):
        return ("struct", tuple(shape(ft) for _, ft in t.fields))
    if isinstance(t, (A.OpaqueRef, A.OpaqueBox)):
        return ("ptr",)
    if isinstance(t, A.Slice):
        # the element type does not change the C layout of the record, but a typed pointer in the mirror (Dart) decides how the
        # elements are read and written: it is compared wherever the declaration names one
        if t.enc in ("str", "DiplomatStr"):
            el = ("int", 8, False)
        elif t.enc == "DiplomatStr16":
            el = ("int", 16, False)
        else:
            el = shape(t.elem)
        return ("struct", (("ptr", el), ("int", "size", False)))
    if isinstance(t, (A.Opt, A.NullableRet)):
        arms = () if isinstance(t.inner, A.Unit) else (shape(t.inner),)
        return ("struct", (("union", arms), ("bool",))) if arms else ("struct", (("bool",),))
    if isinstance(t, A.Result):
        arms = tuple(shape(x) for x in (t.ok, t.err) if not isinstance(x, A.Unit))
        return ("struct", (("union", arms), ("bool",))) if arms else ("struct", (("bool",),))
    raise ValueError(t)


def expected_sig(m):
    ps = []
    if m["kind"] in ("R", "PR", "CL") and m["ret"] is not None and m["ret"].lifetime:
        ps.append(("ptr",))
    if m["kind"] == "CB":
        # DiplomatCallback { data, run_callback, destructor } by value; the method itself returns nothing
        return [("struct", (("ptr",), ("ptr",), ("ptr",)))], ("void",)
    ps += [shape(t) for t in m["params"]]
    if m["kind"] == "W":
        ps.append(("ptr",))
    return ps, shape(m["ret"])


def split_top(s):
    out, depth, cur = [], 0, ""
    for ch in s:
        if ch in "<(":
            depth += 1
        elif ch in ">)":
            depth -= 1
        if ch == "," and depth == 0:
            out.append(cur.strip())
            cur = ""
        else:
            cur += ch
    if cur.strip():
        out.append(cur.strip())
    return out


# ---------------------------------------------------------------------------------------------
# Dart

DART_SCALARS = {
    "ffi.Bool": ("bool",), "ffi.Uint8": ("int", 8, False), "ffi.Int8": ("int", 8, True), "ffi.Uint16": ("int", 16, False), "ffi.Int16": ("int", 16, True),
    "ffi.Uint32": ("int", 32, False), "ffi.Int32": ("int", 32, True), "ffi.Uint64": ("int", 64, False), "ffi.Int64": ("int", 64, True),
    "ffi.Size": ("int", "size", False), "ffi.IntPtr": ("int", "size", True), "ffi.Float": ("float", 32), "ffi.Double": ("float", 64), "ffi.Void": ("void",),
}


class DartModel:
    def __init__(self, outdir):
        self.classes = {}
        self.natives = {}
        for f in sorted(os.listdir(outdir)):
            if f.endswith(".dart"):
                self._parse(open(os.path.join(outdir, f)).read(), f)

    def _parse(self, txt, fname):
        for m in re.finditer(r"final class (_\w+) extends ffi\.(Struct|Union) \{(.*?)\n\}", txt, re.S):
            name, kind, body = m.group(1), m.group(2), m.group(3)
            fields = []
            # fields: optional annotation line(s) then `external <Type> <name>;`
            for fm in re.finditer(r"((?:@[\w.]+\([^)]*\)\s*)*)external ([\w.<>]+) (\w+);", body):
                ann = re.findall(r"@([\w.]+)\(", fm.group(1))
                fields.append((fm.group(3), fm.group(2), ann))
            self.classes[name] = (kind.lower(), fields)
        for m in re.finditer(r"@ffi\.Native<(.+?) Function\((.*?)\)>\((?:isLeaf: \w+, )?symbol: '(\w+)'\)", txt):
            self.natives[m.group(3)] = (m.group(1).strip(), split_top(m.group(2)))

    def ty(self, t, depth=0):
        t = t.strip()
        if depth > 12:
            raise Undecided("dart: type recursion too deep at " + t)
        if t in DART_SCALARS:
            return DART_SCALARS[t]
        if t.startswith("ffi.Pointer<") and t.endswith(">"):
            inner = t[len("ffi.Pointer<"):-1].strip()
            if inner in DART_SCALARS and inner != "ffi.Void":
                return ("ptr", DART_SCALARS[inner])
            if inner in self.classes:
                return ("ptr", self.ty(inner, depth + 1))
            return ("ptr",)
        if t in self.classes:
            kind, fields = self.classes[t]
            shapes = []
            for (fn, fty, ann) in fields:
                if ann:
                    if len(ann) != 1 or ("ffi." + ann[0].split(".")[-1]) not in DART_SCALARS:
                        raise Undecided("dart: annotation %s on %s.%s" % (ann, t, fn))
                    shapes.append(DART_SCALARS["ffi." + ann[0].split(".")[-1]])
                else:
                    shapes.append(self.ty(fty, depth + 1))
            if kind == "union":
                return ("union", tuple(shapes))
            # result records are {union, isOk}; a union without members (both arms unit) disappears
            shapes = [s for s in shapes if s != ("union", ())]
            return ("struct", tuple(shapes))
        raise Undecided("dart: unknown native type %r" % t)

    def sig(self, symbol):
        if symbol not in self.natives:
            return None
        r, ps = self.natives[symbol]
        return [self.ty(p) for p in ps], self.ty(r)


# ---------------------------------------------------------------------------------------------
# Kotlin (JNA)

KOTLIN_SCALARS = {
    # JNA: Java boolean <-> native int (32 bit) unless a type mapper is installed (none is)
    "Boolean": ("int", 32, True, "jna-boolean"),
    "Byte": ("int", 8, True), "Short": ("int", 16, True), "Int": ("int", 32, True), "Long": ("int", 64, True),
    "Float": ("float", 32), "Double": ("float", 64), "Pointer": ("ptr",), "Pointer?": ("ptr",), "Unit": ("void",),
    "FFIUint8": ("int", 8, False), "FFIUint16": ("int", 16, False), "FFIUint32": ("int", 32, False), "FFIUint64": ("int", 64, False),
    "FFISizet": ("int", "size", False), "FFIIsizet": ("int", "size", True),
    # Kotlin unsigned value classes erase to the JVM primitive of the same width
    "UByte": ("int", 8, False), "UShort": ("int", 16, False), "UInt": ("int", 32, False), "ULong": ("int", 64, False),
}


HELPER_SIZE_EXPR = {8: "1", 16: "2", 32: "4", 64: "8", "size": "Native.SIZE_T_SIZE"}


def helper_widths(rep, outdir):
    """every FFI* helper of KOTLIN_SCALARS must be a com.sun.jna.IntegerType of the width this table assumes (usize / isize:
    Native.SIZE_T_SIZE - a C long is narrower than isize on LLP64 targets)"""
    txt = ""
    for root, _, fs in os.walk(outdir):
        for f in fs:
            if f.endswith(".kt"):
                txt += open(os.path.join(root, f)).read()
    found = {m.group(1): m.group(2).strip() for m in re.finditer(r"class (FFI\w+)\([^)]*\)\s*:\s*com\.sun\.jna\.IntegerType\(([^,]+),", txt)}
    for name, desc in sorted(KOTLIN_SCALARS.items()):
        if not name.startswith("FFI"):
            continue
        if name not in found:
            raise Undecided("kotlin: helper class %s not found in the generated support file" % name)
        want = HELPER_SIZE_EXPR[desc[1]]
        if found[name] != want:
            rep.violation("C07|kotlin|helper-width|%s" % name, {"helper": name, "declared_size": found[name], "expected_size": want},
                          "Kotlin helper %s is declared as IntegerType(%s, ..); the C ABI type it stands for needs %s" % (name, found[name], want))


class KotlinModel:
    def __init__(self, outdir):
        self.classes = {}
        self.funcs = {}
        self.callbacks = {}
        self.by_pointer = set()   # JNA Structures without the ByValue marker: passed / returned as a pointer at the top level
        for root, _, fs in os.walk(outdir):
            for f in sorted(fs):
                if f.endswith(".kt"):
                    self._parse(open(os.path.join(root, f)).read())

    def _parse(self, txt):
        for m in re.finditer(r"(?:internal )?class (\w+)\s*:\s*(Structure\(\)(?:, Structure\.ByValue)?|Union\(\))\s*\{(.*?)\n\}", txt, re.S):
            name, kind, body = m.group(1), m.group(2), m.group(3)
            fields = [(fm.group(1), fm.group(2)) for fm in re.finditer(r"@JvmField\s+(?:internal )?var (\w+): ([\w?]+)", body)]
            order = None
            om = re.search(r"getFieldOrder\(\): List<String> \{\s*return listOf\((.*?)\)", body, re.S)
            if om:
                order = re.findall(r'"(\w+)"', om.group(1))
            self.classes[name] = ("union" if kind.startswith("Union") else "struct", fields, order)
            if kind.startswith("Structure") and "ByValue" not in kind:
                self.by_pointer.add(name)
        for cm in re.finditer(r"interface (\w+)\s*:\s*Callback \{\s*fun invoke\(([^)]*)\)\s*:\s*([\w?]+)", txt):
            ps = [p.split(":", 1)[1].strip() for p in split_top(cm.group(2))] if cm.group(2).strip() else []
            self.callbacks[cm.group(1)] = (ps, cm.group(3))
        for im in re.finditer(r"interface (\w+)Lib\s*:\s*Library \{(.*?)\n\}", txt, re.S):
            for fm in re.finditer(r"fun (\w+)\(([^)]*)\)(?::\s*([\w?]+))?", im.group(2)):
                ps = [p.split(":", 1)[1].strip() for p in split_top(fm.group(2))] if fm.group(2).strip() else []
                self.funcs[fm.group(1)] = (ps, fm.group(3) or "Unit")

    def ty(self, t, depth=0):
        t = t.strip()
        if depth > 12:
            raise Undecided("kotlin: type recursion too deep at " + t)
        if t in KOTLIN_SCALARS:
            return KOTLIN_SCALARS[t]
        if t == "Callback" or t in self.callbacks:
            return ("ptr",)  # JNA Callback = native function pointer
        if t in self.classes:
            kind, fields, order = self.classes[t]
            if kind == "struct":
                if order is None:
                    raise Undecided("kotlin: Structure %s without getFieldOrder" % t)
                names = [f for f, _ in fields]
                if sorted(order) != sorted(names):
                    return ("bad-field-order", t, tuple(order), tuple(names))
                byname = dict(fields)
                shapes = [self.ty(byname[n], depth + 1) for n in order]
                shapes = [s for s in shapes if s != ("union", ())]
                declared = tuple(names)
                if tuple(order) != declared:
                    return ("bad-field-order", t, tuple(order), declared)
                return ("struct", tuple(shapes))
            return ("union", tuple(self.ty(ft, depth + 1) for _, ft in fields))
        raise Undecided("kotlin: unknown native type %r" % t)

    def sig(self, symbol):
        if symbol not in self.funcs:
            return None
        ps, r = self.funcs[symbol]
        # (inside another Structure / Union a plain Structure field is laid out inline; only top-level positions differ)
        top = lambda t: ("ptr", "Structure-without-ByValue") if t.strip() in self.by_pointer else self.ty(t)
        return [top(p) for p in ps], top(r)


# ---------------------------------------------------------------------------------------------

def compatible(want, got, backend, path="", out=None):
    """list of differences between the expected C ABI shape and the declared one"""
    out = [] if out is None else out
    if got and got[0] == "bad-field-order":
        out.append("%s: getFieldOrder %s != declared fields %s of %s" % (path, got[2], got[3], got[1]))
        return out
    if want[0] == "struct" and len(want[1]) == 1 and want[1][0][0] == "union" and False:
        pass
    if want[0] == "bool":
        # Rust bool is one byte holding 0/1: any 8-bit integer or bool declaration carries it
        if got == ("bool",) or (got[0] == "int" and got[1] == 8):
            return out
        out.append("%s: Rust bool (1 byte) declared as %s" % (path, got[:3]))
        return out
    if want[0] == "int":
        if got[0] != "int" or got[1] != want[1]:
            out.append("%s: integer width: C ABI %s, declared %s" % (path, want, got[:3]))
        elif backend == "dart" and got[2] != want[2]:
            out.append("%s: signedness: C ABI %s, declared %s" % (path, want, got[:3]))
        return out
    if want[0] == "ptr":
        if got[0] != "ptr":
            out.append("%s: C ABI %s, declared %s" % (path, want[:1], got[:3]))
        elif len(want) > 1 and len(got) > 1 and compatible(want[1], got[1], backend, path + ".*"):
            out.append("%s: pointee: the elements are %s, the declared pointer is to %s" % (path, want[1][:3], got[1][:3]))
        return out
    if want[0] in ("float", "void"):
        if got[:2] != want[:2]:
            out.append("%s: C ABI %s, declared %s" % (path, want, got[:3]))
        return out
    if want[0] in ("struct", "union"):
        # Kotlin's Option<T> mirror is {value, isOk}: a one-member union is layout-identical to its member
        w = [(x[1][0] if (x[0] == "union" and len(x[1]) == 1) else x) for x in want[1]]
        g = [(x[1][0] if (x[0] == "union" and len(x[1]) == 1) else x) for x in got[1]] if got[0] in ("struct", "union") else None
        if g is None or got[0] != want[0]:
            out.append("%s: C ABI passes a %s by value, declared %s" % (path, want[0], got[:1]))
            return out
        if len(w) != len(g):
            out.append("%s: %s has %d members in the C ABI, %d declared" % (path, want[0], len(w), len(g)))
            return out
        for k, (a, b) in enumerate(zip(w, g)):
            compatible(a, b, backend, "%s.%d" % (path, k), out)
        return out
    raise ValueError(want)


def kind_of(problem):
    return re.sub(r"[0-9]+|\(.*?\)", "", problem.split(":", 1)[1] if ":" in problem else problem).strip()[:50]


def run(tier):
    rep = Reporter("C07", tier, "exploration")
    build_tool()
    wd = workdir("C07")
    b = c01.build_all(tier)
    if not b["ok"]:
        raise MachineryError("ffix build failed at %s:\n%s" % (b["stage"], b["stderr"][-6000:]))
    entry = os.path.join(b["crate"], "src", "lib.rs")
    stats = {}
    samples = []
    outcomes = set()
    for backend, Model in (("dart", DartModel), ("kotlin", KotlinModel)):
        out = os.path.join(wd, backend)
        p = run_tool(backend, entry, out, configs=default_configs(backend), timeout=600)
        if p.returncode != 0:
            raise MachineryError("%s backend failed on the ffix crate: %s" % (backend, p.stderr[-2500:]))
        try:
            model = Model(out)
            if backend == "kotlin":
                # the integer helper classes get their native width from the support file, not from the declarations using them
                helper_widths(rep, out)
            judged = absent = 0
            for m in b["methods"]:
                sym = "%s_%s" % (m["owner"], m["name"])
                got = model.sig(sym)
                if got is None:
                    absent += 1
                    continue
                judged += 1
                wp, wr = expected_sig(m)
                gp, gr = got
                probs = []
                if len(wp) != len(gp):
                    probs.append("arity: C ABI has %d parameters, declaration has %d" % (len(wp), len(gp)))
                else:
                    for k, (a, g) in enumerate(zip(wp, gp)):
                        compatible(a, g, backend, "param%d" % k, probs)
                compatible(wr, gr, backend, "return", probs)
                if m["kind"] == "CB" and backend == "kotlin":
                    rn = "Runner_DiplomatCallback_%s_diplomatCallback_f" % sym
                    if rn not in model.callbacks:
                        raise Undecided("kotlin: callback runner interface %s not found" % rn)
                    cps, cr = model.callbacks[rn]
                    want_cb = [("ptr",)] + [shape(t) for t in m["params"]]
                    if len(cps) != len(want_cb):
                        probs.append("callback arity: C ABI has %d parameters, runner has %d" % (len(want_cb), len(cps)))
                    else:
                        for k, (a, g) in enumerate(zip(want_cb + [shape(m["ret"])], cps + [cr])):
                            where = "callback-param%d" % k if k < len(cps) else "callback-return"
                            if g not in KOTLIN_SCALARS and g not in model.classes and g not in model.callbacks:
                                probs.append("%s: refers to native type %s which is defined nowhere in the generated Kotlin" % (where, g))
                            else:
                                compatible(a, model.ty(g), backend, where, probs)
                outcomes.add((backend, repr(gr)[:60]))
                for pr in probs:
                    key = "C07|%s|%s|%s" % (backend, kind_of(pr), c01.shape_of(m))
                    if backend == "kotlin" and "Rust bool (1 byte) declared as ('int', 32" in pr:
                        key = "C07|kotlin|bool-declared-as-jna-Boolean(32-bit)|%s" % pr.split(":")[0].rstrip("0123456789")
                    if "is defined nowhere in the generated Kotlin" in pr:
                        key = "C07|kotlin|callback-refers-to-undefined-native-type|%s" % re.sub(r".*native type (\w+) .*", r"\1", pr)
                    rep.violation(key,
                                  {"backend": backend, "symbol": sym, "rust": F.rust_method(m)[:400], "expected_params": wp, "expected_return": wr, "declared": [gp, gr], "problem": pr},
                                  "%s declaration of %s (%s): %s" % (backend, sym, c01.shape_of(m), pr))
                if len(samples) < 6 and judged % 97 == 5:
                    samples.append({"backend": backend, "symbol": sym, "rust": c01.shape_of(m), "declared_params": [list(x[:3]) for x in gp], "declared_return": list(gr[:3])})
            # struct mirrors: every declared struct of the crate must match field for field
            sj = 0
            for st in b["types"]["structs"]:
                name = ("_%sFfi" % st.name) if backend == "dart" else (st.name + "Native")
                if name not in model.classes:
                    continue
                sj += 1
                probs = compatible(shape(st), model.ty(name), backend, st.name)
                for pr in probs:
                    rep.violation("C07|%s|struct-mirror|%s|%s" % (backend, kind_of(pr), ",".join(ft.rust("field") for _, ft in st.fields)),
                                  {"backend": backend, "struct": st.decl(), "problem": pr}, "%s mirror of struct %s: %s" % (backend, st.name, pr))
            stats[backend] = {"functions_judged": judged, "functions_absent_in_backend": absent, "struct_mirrors_judged": sj, "native_classes_parsed": len(model.classes)}
        except Undecided as e:
            raise MachineryError("UNDECIDED: %s" % e)
        shutil.rmtree(out, ignore_errors=True)
    total = sum(s["functions_judged"] + s["struct_mirrors_judged"] for s in stats.values())
    cov = {
        "evaluations": total,
        "distinct_nontrivial": len({c01.shape_of(m) for m in b["methods"]}),
        "rule": "one judgement per (backend, exported function) and per (backend, struct mirror); distinct = distinct method shapes; the ground-truth shape is derived from the Rust "
                "source-level types (the same model C01 validates against the compiled ABI by execution)",
        "exhaustive": True,
        "distinct_outcomes": len(outcomes),
        "bound": {"tier": tier, "methods_in_crate": len(b["methods"]), "per_backend": stats},
        "samples": samples,
    }
    return rep.finish(cov, [
        "no Dart/Kotlin toolchain: declarations are parsed by strict extractors for the template forms in tool/templates/{dart,kotlin}; unknown forms are UNDECIDED (exit 2)",
        "Kotlin/JNA has no unsigned scalars: only widths are compared there; for Dart width and signedness are compared",
        "JNA maps Kotlin Boolean to a 32-bit native int (JNA default type mapping; no TypeMapper is installed by the generated code)",
        "methods outside a backend's feature profile are disabled for it in the shared crate and counted as absent",
    ])


def replay(path):
    print(open(path).read()[:3000])
    return run("quick")
