"""C15 — no backend crashes after successful lowering.

Bounded-exhaustive enumeration of bridge programs (families (a)-(e) of vlib.c15util) pushed through the REAL diplomat-tool
binary for all seven backends x config variants.  Acceptance is decided by the tool itself (`Lowering error` = rejected =
outside the domain).  Allowed outcomes: exit 0 with files written, exit 1 with `Lowering error in ..` lines, exit 1 with
`Found errors whilst generating ..` diagnostics.  Violations: `panicked at`, signals, timeouts.  Many items are packed into
one input file; a crashing batch is bisected down to single-item files so that no crash can mask another; every crashing
item is then structurally reduced and keyed by (backend, panic source file, normalised message, shape class).
"""
import json
import os
import re
import shutil
import subprocess
import threading
import time

from vlib import c15util as U
from vlib.common import VERIF, _repo_tag, sha, Reporter, build_tool, run_tool, workdir, MachineryError, pmap, BACKENDS, default_configs, BUILD, REPO

PER_FILE = 50
FAMS = ["prelude", "a", "b", "c", "d", "e", "f", "g"]
TIMEOUT = 30
BUDGET = {"quick": 105, "thorough": 900}      # wall seconds after which no new batch is started (exhaustive := false)
REDUCE_CAP = 120                                 # tool runs per reduced crash group


def config_variants(tier):
    """(backend, label, --config args). lib_name / kotlin.domain come from default_configs()."""
    out = []
    for b in BACKENDS:
        d = default_configs(b)
        if b == "js":
            out.append((b, "js.abi=legacy", d + ["js.abi=legacy"]))
            out.append((b, "js.abi=spec", d + ["js.abi=spec"]))
        elif b == "kotlin":
            out.append((b, "use_finalizers_not_cleaners=false", d + ["kotlin.use_finalizers_not_cleaners=false"]))
            out.append((b, "use_finalizers_not_cleaners=true", d + ["kotlin.use_finalizers_not_cleaners=true"]))
        elif b == "demo_gen":
            out.append((b, "default", d))
            if tier == "thorough":
                out.append((b, "js.abi=spec", d + ["js.abi=spec"]))
        else:
            out.append((b, "default", d))
    return out


# required configuration left out: must be an error report, not a panic
MISSING_CONFIG = [
    ("nanobind", "lib_name unset", []),
    ("kotlin", "lib_name unset", ["kotlin.domain=dev.verif"]),
    ("kotlin", "kotlin.domain unset", ["lib_name=somelib"]),
    ("kotlin", "lib_name and kotlin.domain unset", []),
]


MISSING_CLASS = {"lib_name and kotlin.domain unset": "kotlin.domain unset"}      # the first missing key is the one reported


# ---------------------------------------------------------------------------------------------
# running the tool and reading its verdict

_lock = threading.Lock()
_runs = [0]
_phase_cache = {}
_PANIC_RE = re.compile(r"panicked at ([^\n]*?):(\d+):(\d+):\n([^\n]*)")


_kinds = {}


def _bump(kind=None):
    with _lock:
        if kind is None:
            _runs[0] += 1
        else:
            _kinds[kind] = _kinds.get(kind, 0) + 1


def norm_file(f):
    f = f.replace(REPO.rstrip("/") + "/", "")
    f = re.sub(r"^.*/registry/src/[^/]+/", "registry/", f)
    f = re.sub(r"^/rustc/[0-9a-f]+/", "rustc/", f)
    return f


def norm_msg(m):
    m = m.strip()
    m = re.sub(r"^internal error: entered unreachable code: ", "", m)
    # identifiers that come from the input: generated names, prelude types, Debug names of the special-method kinds
    m = re.sub(r"\b(\w+_(m\d+|f)|(m|Fo|Fp|Fq|Ow|It|Er|L|M|T|Dm|Ds)\d+|Op|OpL|En|St|Nest|SB|OutSt|Zst|FoSl|FoOut|(Add|Sub|Mul|Div)(Assign)?)\b", "ID", m)
    m = re.sub(r"\d+", "N", m)
    return m[:60].rstrip()


class Verdict(object):
    __slots__ = ("kind", "ctxs", "file", "line", "msg", "stderr", "rc", "cmd")


def judge(p, out_dir, check_files=True):
    v = Verdict()
    v.rc, v.stderr, v.cmd = p.returncode, p.stderr, " ".join(p.args) if isinstance(p.args, (list, tuple)) else str(p.args)
    v.ctxs, v.file, v.line, v.msg = [], None, None, None
    err = p.stderr or ""
    m = _PANIC_RE.search(err)
    if m or "panicked at" in err or p.returncode not in (0, 1):
        v.kind = "crash"
        if m:
            v.file, v.line, v.msg = norm_file(m.group(1)), int(m.group(2)), m.group(4)
        elif p.returncode == -999:
            v.file, v.msg = "-", "timeout after %d s" % TIMEOUT
        else:
            v.file, v.msg = "-", "exit status %s without panic message: %s" % (p.returncode, (err.strip().splitlines() or [""])[-1][:80])
        return v
    if p.returncode == 0:
        if check_files and not (os.path.isdir(out_dir) and any(fs for _, _, fs in os.walk(out_dir))):
            raise MachineryError("UNDECIDED: exit 0 but no file written: %s" % v.cmd)
        v.kind = "ok"
        return v
    low = re.findall(r"^Lowering error in (.*?): ", err, re.M)
    if low:
        v.kind, v.ctxs = "lowering", low
        return v
    if "Found errors whilst generating" in err:
        v.kind = "diag"
        v.ctxs = re.findall(r"^\t(.*?): ", err, re.M)
        return v
    raise MachineryError("UNDECIDED: exit 1 with neither lowering errors nor backend diagnostics: %s\n%s" % (v.cmd, err[-800:]))


class Runner(object):
    """runs subsets of items for one (backend, config) in one scratch directory.  The output directory is reused by the
    runs of one Runner (creating and unlinking files is what costs time on this disk; overwriting does not): `exit 0 with
    files written` is therefore verified on the first successful run into the fresh directory, later runs overwrite."""

    def __init__(self, backend, cfg, d, suspects=None, cls=None):
        self.backend, self.cfg, self.d = backend, cfg, d
        self.n = 0
        self.suspects = suspects if suspects is not None else set()   # coarse classes already seen crashing on this backend (scheduling only)
        self.cls = cls or {}
        self.out = os.path.join(d, "out")
        self.entry = os.path.join(d, "in.rs")
        self.fresh = True
        os.makedirs(d, exist_ok=True)

    def run_source(self, src):
        self.n += 1
        with open(self.entry, "w") as fh:
            fh.write(src)
        _bump()
        p = run_tool(self.backend, self.entry, self.out, configs=self.cfg, timeout=TIMEOUT)
        if p.returncode == -999:
            # a hang of the tool is deterministic: a timeout only counts when it happens again right away (the machine
            # this runs on stalls for tens of seconds now and then; such stalls are tallied, not judged)
            _bump()
            p2 = run_tool(self.backend, self.entry, self.out, configs=self.cfg, timeout=TIMEOUT)
            if p2.returncode != -999:
                _bump("transient-timeout")
                p = p2
        v = judge(p, self.out, self.fresh)
        _bump(v.kind)
        if v.kind == "ok":
            self.fresh = False
        return v

    def run_items(self, items):
        return self.run_source(U.build_source(items, prune=True))

    def close(self):
        shutil.rmtree(self.d, ignore_errors=True)

    def backtrace(self, src):
        """same command line as run_tool, with RUST_BACKTRACE=1: which phase did the panic happen in?"""
        entry = os.path.join(self.d, "bt.rs")
        with open(entry, "w") as fh:
            fh.write(src)
        cmd = [build_tool(), self.backend, self.out, "--entry", entry, "-s", "--config-file", os.path.join(BUILD, "nonexistent-config.toml")]
        for c in self.cfg:
            cmd += ["--config", c]
        env = dict(os.environ)
        env["RUST_BACKTRACE"] = "1"
        env["NO_COLOR"] = "1"
        _bump()
        try:
            p = subprocess.run(cmd, env=env, timeout=TIMEOUT, stdout=subprocess.PIPE, stderr=subprocess.PIPE, text=True, errors="replace")
            return p.stderr
        except subprocess.TimeoutExpired:
            return "TIMEOUT"


def phase_of(bt, file):
    """'lowering' when the panic happened inside parsing / TypeContext::from_syn, else 'backend'."""
    if "stack backtrace:" not in bt:
        if bt == "TIMEOUT" or "panicked at" not in bt:
            return "backend"      # timeouts / signals: lowering of these tiny inputs takes milliseconds; judged as the backend's
        raise MachineryError("UNDECIDED: no backtrace available to tell the phase of a panic:\n" + bt[-600:])
    frames = bt.split("stack backtrace:", 1)[1]
    if re.search(r"diplomat_tool::(c|cpp|js|dart|kotlin|nanobind|demo_gen)::", frames):
        return "backend"
    if "TypeContext::from_syn" in frames or "syn_inline_mod" in frames or "diplomat_core::ast::" in frames or "diplomat_core::hir::lowering" in frames:
        return "lowering"
    if file and re.match(r"tool/src/(c|cpp|js|dart|kotlin|nanobind|demo_gen)/", file):
        return "backend"
    if "diplomat_tool::gen" in frames:
        return "backend"          # after from_syn returned (no from_syn frame) and inside gen: the backend call was inlined
    raise MachineryError("UNDECIDED: cannot tell the phase of a panic:\n" + bt[-1200:])


def attribute(ctxs, items):
    """map error contexts (`Type` / `Type::method`) onto the items of a batch; returns (hit iids, unattributable ctxs)"""
    tys, ms, owners = {}, {}, {}
    for it in items:
        t, m = U.item_contexts(it)
        for n in t:
            tys.setdefault(n, set()).add(it.iid)
        for k in m:
            ms.setdefault(k, set()).add(it.iid)
            owners.setdefault(k[0], set()).add(it.iid)    # a bare `Type` context about a prelude type concerns the methods put on it
    hit, bad = set(), []
    for c in ctxs:
        parts = c.split("::")
        if len(parts) >= 2 and (parts[0], parts[1]) in ms:
            hit |= ms[(parts[0], parts[1])]           # a focus method: that item only
        elif parts[0] in tys:
            hit |= tys[parts[0]]                      # a fresh type (or one of its helper methods): every item declaring it
        elif len(parts) == 1 and parts[0] in owners and parts[0] != "Op":
            hit |= owners[parts[0]]
        else:
            bad.append(c)
    return hit, bad


def settle(rn, items, out, crashes, known=None):
    """judge every item of `items` under rn's (backend, config); out: iid -> outcome; crashes: list of crash records.
    known: verdict already established for exactly this item set (saves the run)"""
    cur = list(items)
    while cur:
        v = known if (known is not None and len(cur) > 1) else rn.run_items(cur)
        known = None
        if v.kind == "ok":
            for it in cur:
                out[it.iid] = "ok"
            return
        if v.kind == "lowering":
            hit, bad = attribute(v.ctxs, cur)
            if bad or not hit:
                raise MachineryError("UNDECIDED: lowering error context(s) %s cannot be attributed to an item (%s)\n%s" % (bad, v.cmd, v.stderr[-600:]))
            for it in cur:
                if it.iid in hit:
                    out[it.iid] = "rejected"
            cur = [it for it in cur if it.iid not in hit]
            continue
        if v.kind == "diag":
            hit, bad = attribute(v.ctxs, cur)
            if hit and not bad and len(hit) < len(cur):
                for it in cur:
                    if it.iid in hit:
                        out[it.iid] = "diag"
                cur = [it for it in cur if it.iid not in hit]
                continue
            for it in cur:      # diagnostics that do not name single items: the file as a whole ended in an error report
                out[it.iid] = "diag"
            return
        # crash
        if len(cur) == 1:
            it = cur[0]
            pk = (rn.backend, v.file, norm_msg(v.msg or ""))
            ph = _phase_cache.get(pk)
            if ph is None:
                # the phase of a panic site is found once, from a backtrace (doubles as a determinism re-run)
                bt = rn.backtrace(U.build_source([it], prune=True))
                m = _PANIC_RE.search(bt)
                f2, m2 = (norm_file(m.group(1)), m.group(4)) if m else ("-", "timeout after %d s" % TIMEOUT if bt == "TIMEOUT" else None)
                if (f2, norm_msg(m2 or "")) != (v.file, norm_msg(v.msg or "")) and not (v.file == "-" and not m):
                    raise MachineryError("nondeterministic crash for item %d on %s: %s | %s vs %s | %s" % (it.iid, rn.backend, v.file, v.msg, f2, m2))
                ph = phase_of(bt, v.file)
                _phase_cache[pk] = ph
            rn.suspects.add(rn.cls.get(it.iid))
            if ph == "lowering":
                out[it.iid] = "lowering-panic"
                crashes.append({"phase": "lowering", "iid": it.iid, "file": v.file, "msg": v.msg})
            else:
                out[it.iid] = "crash"
                crashes.append({"phase": "backend", "iid": it.iid, "file": v.file, "line": v.line, "msg": v.msg, "stderr": v.stderr[-1500:], "cmd": v.cmd})
            return
        sus = [it for it in cur if (rn.cls.get(it.iid) in rn.suspects or it.iid in rn.suspects)]
        if sus and len(sus) < len(cur):
            # scheduling only: items that look like earlier crashers are run alone, the others together
            n0 = len(crashes)
            for it in sus:
                settle(rn, [it], out, crashes)
            settle(rn, [it for it in cur if it not in sus], out, crashes)
            if len(crashes) > n0:
                return
        half = len(cur) // 2
        a, b = cur[:half], cur[half:]
        n0 = len(crashes)
        settle(rn, a, out, crashes)
        # a clean first half means the (independent) second half holds the crash: no need to run it as a whole again
        a_clean = len(crashes) == n0 and all(out.get(it.iid) in ("ok", "diag", "rejected") for it in a)
        settle(rn, b, out, crashes, known=v if a_clean else None)
        if len(crashes) == n0:
            # neither half crashes on its own: the crash needs a combination of items; shrink it greedily
            combo = list(cur)
            i = 0
            while i < len(combo) and len(combo) > 2:
                trial = combo[:i] + combo[i + 1:]
                tv = rn.run_items(trial)
                if tv.kind == "crash" and (tv.file, norm_msg(tv.msg or "")) == (v.file, norm_msg(v.msg or "")):
                    combo = trial
                else:
                    i += 1
            for it in combo:
                out[it.iid] = "crash"
            crashes.append({"phase": "backend", "iid": combo[0].iid, "combo": [it.iid for it in combo], "file": v.file, "line": v.line, "msg": v.msg,
                            "stderr": v.stderr[-1500:], "cmd": v.cmd})
        return


# ---------------------------------------------------------------------------------------------
# reduction of a crashing item to a minimal one


_red_cache = {}


def same_crash(rn, item_or_src, file, nmsg, fresh_run=False):
    src = item_or_src if isinstance(item_or_src, str) else U.build_source(item_or_src if isinstance(item_or_src, list) else [item_or_src], prune=True)
    ck = (rn.backend, tuple(rn.cfg), src)
    v = None if fresh_run else _red_cache.get(ck)
    if v is None:
        try:
            v = rn.run_source(src)
        except MachineryError:
            return None
        _red_cache[ck] = v
    if v.kind == "crash" and v.file == file and norm_msg(v.msg or "") == nmsg:
        return v
    return None


def reduce_item(rn, it, file, nmsg):
    cur = U.canon_names(it)
    if not same_crash(rn, cur, file, nmsg):
        cur = it                      # (names matter?!) keep the original spelling
    budget = REDUCE_CAP
    progress = True
    while progress and budget > 0:
        progress = False
        for cand in U.reductions(cur):
            if budget <= 0:
                break
            budget -= 1
            try:
                U.build_source([cand])
            except ValueError:
                continue
            cand = U.canon_names(cand)
            if same_crash(rn, cand, file, nmsg):
                cur = cand
                progress = True
                break
    return cur


# ---------------------------------------------------------------------------------------------


def run(tier):
    rep = Reporter("C15", tier, "exploration")
    build_tool()
    wd = workdir("C15")
    rdir = os.path.join(VERIF, "replays", "C15") if REPO == "/repo" else os.path.join(BUILD, "replays" + _repo_tag(), "C15")   # = Reporter's
    if os.path.isdir(rdir):                 # witnesses of earlier runs: every violation of this run is written afresh
        for f in os.listdir(rdir):
            if f.endswith(".json"):
                os.remove(os.path.join(rdir, f))
    t0 = time.time()
    deadline = t0 + BUDGET[tier]
    items = U.enumerate_items(tier)
    by_id = dict((it.iid, it) for it in items)
    variants = config_variants(tier)
    batches = [items[i:i + PER_FILE] for i in range(0, len(items), PER_FILE)]
    print("C15: %d items (%s) in %d batches x %d (backend, config) variants" % (
        len(items), ", ".join("%s=%d" % (f, sum(1 for i in items if i.fam == f)) for f in FAMS), len(batches), len(variants)))

    # one job = one batch on one backend, all config variants of that backend one after the other (the accepted set of the
    # first variant is what the further variants are run on: lowering does not read js.abi / kotlin.* / lib_name)
    by_backend = {}
    for b, label, cfg in variants:
        by_backend.setdefault(b, []).append((label, cfg))
    jobs = [(b, bi) for bi in range(len(batches)) for b in BACKENDS]
    skipped = []
    cls = dict((it.iid, U.coarse_class(it)) for it in items)
    suspects = dict((b, set()) for b in BACKENDS)

    def do_job(job):
        b, bi = job
        if time.time() > deadline:
            skipped.append(job)
            return None
        res = []
        cur = batches[bi]
        for vi, (label, cfg) in enumerate(by_backend[b]):
            rn = Runner(b, cfg, os.path.join(wd, "%s_%d_%d" % (b, vi, bi)), suspects[b], cls)
            out, crashes = {}, []
            settle(rn, cur, out, crashes)
            rn.close()
            res.append((b, label, bi, out, crashes))
            if vi == 0:
                first = out
                cur = [it for it in cur if out.get(it.iid) in ("ok", "diag", "crash")]
                if not cur:
                    # nothing reached the backend: the further variants see the same rejections
                    for (label2, _cfg2) in by_backend[b][1:]:
                        res.append((b, label2, bi, dict((k, v) for k, v in first.items()), []))
                    break
            else:
                for iid, o in first.items():
                    if o in ("rejected", "lowering-panic"):
                        out[iid] = o
        return res

    results = pmap(do_job, jobs)
    stage1 = (_runs[0], dict(_kinds), round(time.time() - t0, 1))

    # ---- tallies
    counts = {}          # (backend,label) -> outcome -> n
    reached = set()
    reached_classes = set()
    lowering_panics = {}
    raw_groups = {}      # (backend, file, nmsg, raw class) -> {"iids": set, "labels": set, "first": crash}
    per_item = {}        # iid -> {backend/label: outcome}
    for r in results:
        if r is None:
            continue
        for (b, label, bi, out, crashes) in r:
            c = counts.setdefault((b, label), {"ok": 0, "diag": 0, "rejected": 0, "lowering-panic": 0, "crash": 0})
            for iid, o in out.items():
                c[o] += 1
                per_item.setdefault(iid, {})["%s/%s" % (b, label)] = o
                if o in ("ok", "diag", "crash"):
                    reached.add(iid)
            for cr in crashes:
                if cr["phase"] == "lowering":
                    k = "%s|%s" % (cr["file"], norm_msg(cr["msg"] or ""))
                    lowering_panics[k] = lowering_panics.get(k, 0) + 1
                    continue
                if "combo" in cr:
                    rawc = "combination of %d items: %s" % (len(cr["combo"]), " + ".join(U.item_class(by_id[i]) for i in cr["combo"][:3]))
                else:
                    rawc = cls[cr["iid"]]
                g = raw_groups.setdefault((b, cr["file"], norm_msg(cr["msg"] or ""), rawc), {"iids": set(), "labels": set(), "first": None, "cfg": None})
                g["iids"].add(cr["iid"])
                g["labels"].add(label)
                if g["first"] is None or cr["iid"] < g["first"]["iid"]:
                    g["first"] = cr
                    g["cfg"] = [cfg for (l2, cfg) in by_backend[b] if l2 == label][0]
                    g["label"] = label
    for iid in reached:
        reached_classes.add(U.item_class(by_id[iid]))
    # accepted (= reached the backend) items per family / position label and backend
    fam_reach = {}
    for iid, d in per_item.items():
        it = by_id[iid]
        lab = "%s:%s" % (it.fam, (it.pos or "").split(":")[0])
        fr = fam_reach.setdefault(lab, {"items": 0})
        fr["items"] += 1
        for k, o in d.items():
            if o in ("ok", "diag", "crash"):
                bk = k.split("/")[0]
                fr[bk] = fr.get(bk, 0) + 1
    for lab, fr in fam_reach.items():
        for bk in fr:
            if bk != "items":
                fr[bk] = fr[bk] // len(by_backend[bk])      # per config variant

    # ---- required configuration left out
    one_opaque = "#[diplomat::bridge]\nmod ffi {\n    #[diplomat::opaque]\n    pub struct Op(u8);\n}\n"
    probe_items = [it for it in items[:400] if it.fam == "a" and it.pos == "param"][:10]
    miss_counts = {}
    for (b, label, cfg) in MISSING_CONFIG:
        rn = Runner(b, cfg, os.path.join(wd, "missing_%s_%s" % (b, re.sub(r"\W+", "_", label))))
        for pname, src in (("module with one opaque type", one_opaque),
                           ("module with ten methods", U.build_source(probe_items))):
            v = rn.run_source(src)
            c = miss_counts.setdefault("%s/%s" % (b, label), {})
            c[v.kind] = c.get(v.kind, 0) + 1
            if v.kind == "crash":
                v2 = rn.run_source(src)
                if (v2.kind, v2.file, v2.msg) != (v.kind, v.file, v.msg):
                    raise MachineryError("nondeterministic outcome for missing-config probe %s/%s" % (b, label))
                g = raw_groups.setdefault((b, v.file, norm_msg(v.msg or ""), "config: " + MISSING_CLASS.get(label, label)), {"iids": set(), "labels": set(), "first": None, "cfg": cfg, "label": label})
                g["labels"].add(label)
                g["iids"].add(pname)
                if g["first"] is None:
                    g["first"] = {"iid": None, "file": v.file, "line": v.line, "msg": v.msg, "stderr": v.stderr[-1500:], "cmd": v.cmd, "src": src}
        rn.close()

    # ---- per panic site (backend, file, message): reduce group representatives, smallest first; a group whose coarse
    # class contains every part of an already reduced witness of the same site is counted under that witness' key
    # (it crashes at the same site with the same message; only the label is inherited, no tool run is spent on it)
    sites = {}
    for (b, file, nmsg, rawc), g in raw_groups.items():
        sites.setdefault((b, file, nmsg), []).append((rawc, g))

    def rank(x):
        cr = x[1]["first"]
        n = len(U.coarse_parts(by_id[cr["iid"]])) if cr.get("iid") is not None and "combo" not in cr else 0
        return (n, len(x[0]), x[0])

    done = dict((k, []) for k in sites)      # site -> [(coarse part set, class)] of reduced witnesses
    frozen = {}                                # what the second pass may inherit from: the first pass' witnesses only (deterministic)

    def do_group(job, inherit_from=None):
        (b, file, nmsg), rawc, g = job
        cr = g["first"]
        plain = cr.get("src") is None and "combo" not in cr
        if plain:
            parts = set(U.coarse_parts(by_id[cr["iid"]]))
            pool = inherit_from if inherit_from is not None else frozen.get((b, file, nmsg), [])
            hit = [d for d in pool if d[0] and d[0] <= parts]
            if hit:
                return ((b, file, nmsg, hit[0][1]), {"inherit": True, "raw": rawc, "g": g})
        rn = Runner(b, g["cfg"], os.path.join(wd, "red_%s_%s" % (b, sha("|".join((file, nmsg, rawc))))))
        red = None
        if cr.get("src") is not None:          # missing-config probe: the program is irrelevant, keep the smallest
            src, cl = cr["src"], rawc
        elif "combo" in cr:
            src, cl = U.build_source([by_id[i] for i in cr["combo"]], prune=True), rawc
        else:
            red = reduce_item(rn, by_id[cr["iid"]], file, nmsg)
            cl = U.item_class(red)
            src = U.build_source([red], prune=True)
        v = same_crash(rn, src, file, nmsg)
        v2 = same_crash(rn, src, file, nmsg, fresh_run=True) if v is not None else None
        rn.close()
        if v is None or v2 is None:
            raise MachineryError("crash of %s on %s did not reproduce identically on re-run (%s | %s)" % (rawc, b, file, nmsg))
        if red is not None:
            done[(b, file, nmsg)].append((set(U.coarse_parts(red)), cl))
        return ((b, file, nmsg, cl), {"program": src, "cmd": v.cmd, "stderr": v.stderr[-1500:], "line": v.line, "msg": v.msg, "raw": rawc, "g": g})

    def do_site_head(kv):
        site, groups = kv
        return [do_group((site, rawc, g), done[site]) for rawc, g in sorted(groups, key=rank)[:4]]     # sequential within a site

    stage2 = (_runs[0], round(time.time() - t0, 1))
    # the four smallest groups of every site first (their witnesses label most of the other groups), then all the rest
    reduced = [x for r in pmap(do_site_head, sorted(sites.items())) for x in r]
    frozen.update(dict((k, sorted(v, key=lambda d: (len(d[0]), d[1]))) for k, v in done.items()))
    rest = [(site, rawc, g) for site, groups in sorted(sites.items()) for rawc, g in sorted(groups, key=rank)[4:]]
    reduced += pmap(do_group, rest)
    print("C15: enumeration %s; missing-config probes done at %s; reduction of %d crash groups at %d sites done at %s" % (
        stage1, stage2, len(raw_groups), len(sites), (_runs[0], round(time.time() - t0, 1))))
    final = {}
    for key, info in sorted(reduced, key=lambda x: (x[0], x[1].get("inherit", False))):
        if key not in final and info.get("inherit"):
            raise MachineryError("internal: inherited crash key without a witness: %s" % (key,))
        f = final.setdefault(key, {"info": info, "inputs": set(), "labels": set(), "raw_classes": []})
        if not info.get("inherit") and len(info["program"]) < len(f["info"]["program"]):
            f["info"] = info
        f["inputs"] |= set(info["g"]["iids"])
        f["labels"] |= info["g"]["labels"]
        f["raw_classes"].append(info["raw"])
    crash_table = []
    for key in sorted(final):
        b, file, nmsg, cls = key
        f = final[key]
        info = f["info"]
        skey = "C15|%s|%s|%s|%s" % (b, file, nmsg, cls)
        witness = {"backend": b, "configs": info["g"]["cfg"], "configs_affected": sorted(f["labels"]), "program": info["program"], "command": info["cmd"],
                   "panic_location": "%s:%s" % (file, info["line"]), "panic_message": info["msg"], "stderr": info["stderr"],
                   "inputs_with_this_key": len(f["inputs"]), "input_classes": sorted(set(f["raw_classes"]))[:12]}
        rep.violation(skey, witness, "%s panics after successful lowering (%s: %s) on %d enumerated input(s); configs: %s" % (
            b, witness["panic_location"], info["msg"], len(f["inputs"]), ", ".join(sorted(f["labels"]))))
        crash_table.append({"key": skey, "inputs": len(f["inputs"]), "configs": sorted(f["labels"]), "location": witness["panic_location"], "message": info["msg"]})

    # ---- evidence
    evaluations = sum(sum(c.values()) for c in counts.values()) + sum(sum(c.values()) for c in miss_counts.values())
    outcomes = set()
    for c in counts.values():
        outcomes |= set(k for k, n in c.items() if n)
    outcomes |= set("crash:" + k["key"] for k in crash_table)
    for (b, label, _cfg) in variants:
        c = counts.get((b, label))
        if not skipped and (c is None or c["ok"] == 0):
            raise MachineryError("vacuous: no item was accepted and generated for %s/%s" % (b, label))
    samples = []
    for iid in (0, len(items) // 3, (2 * len(items)) // 3, len(items) - 1):
        for j in range(iid, len(items)):
            if j in reached:
                samples.append({"program": U.build_source([by_id[j]], prune=True), "class": U.item_class(by_id[j]), "family": by_id[j].fam,
                                "outcomes": per_item.get(j, {})})
                break
    for ct in crash_table[:2]:
        samples.append({"crash": ct["key"], "inputs": ct["inputs"]})
    exhaustive = not skipped
    cov = {
        "evaluations": evaluations,
        "distinct_nontrivial": len(reached),
        "distinct_shape_classes_reaching_a_backend": len(reached_classes),
        "rule": "one evaluation = one (item, backend, config variant) judgement by the real binary; an item is one focus method and/or its fresh type "
                "declarations; non-trivial = textually distinct items accepted by the lowering of at least one backend (so that backend code ran on them)",
        "exhaustive": exhaustive,
        "distinct_outcomes": len(outcomes),
        "bound": {"tier": tier, "type_depth": 3 if tier == "thorough" else 2, "items": len(items),
                  "families": dict((f, sum(1 for i in items if i.fam == f)) for f in FAMS), "items_per_file": PER_FILE,
                  "variants": ["%s/%s" % (b, l) for b, l, _ in variants], "missing_config_variants": ["%s/%s" % (b, l) for b, l, _ in MISSING_CONFIG],
                  "batches_skipped_by_wall_budget": len(skipped), "128bit_ints": "excluded"},
        "tool_runs": _runs[0],
        "timeouts_not_reproduced_on_immediate_rerun": _kinds.get("transient-timeout", 0),
        "per_backend": dict(("%s/%s" % k, v) for k, v in sorted(counts.items())),
        "reached_backend_by_family_and_position": fam_reach,
        "missing_config_outcomes": miss_counts,
        "crash_keys": crash_table,
        "panics_during_lowering_not_judged": lowering_panics,
        "samples": samples,
    }
    print("C15: %d tool runs %s, %.1fs; per backend/config: %s" % (_runs[0], json.dumps(_kinds), time.time() - t0, json.dumps(cov["per_backend"])))
    if lowering_panics:
        print("C15: panics during lowering (outside the domain, tallied only): %s" % json.dumps(lowering_panics))
    shutil.rmtree(wd, ignore_errors=True)
    return rep.finish(cov, [
        "acceptance is decided by the tool: items named by `Lowering error in <ctx>` lines are outside the domain; a panic whose backtrace is inside "
        "TypeContext::from_syn is tallied as a lowering panic and not judged here (C05's business)",
        "items are independent, so outcomes observed in a packed file are attributed per item: rejected items are removed and the file re-run; crashing "
        "batches are bisected to single-item files",
        "128-bit integers are excluded; `char` (unknown to the AST) only shows up among the lowering panics",
        "special-method attributes are written both as `supports = <feature>` (strictly within declared support) and as `auto` (documented as equivalent)",
        "a crash key names the structurally reduced item (attribute, return, self, parameters, wrappers dropped / canonicalised while the same panic remains); "
        "crashing items are grouped by (backend, panic file, message, coarse shape class), one representative per group is reduced with the real tool, and a "
        "group whose class contains every part of an already reduced witness of the same panic site is counted under that witness' key",
        "`exit 0 with files written` is verified on the first successful run into every fresh output directory (one per batch, backend and config variant); "
        "later runs of the same batch reuse the directory and only their exit status and stderr are read",
        "a timeout counts only if it happens again on an immediate re-run of the same command (a hang of the tool is deterministic)",
        "backend diagnostics that name single items (`Type::method`) are attributed to them and the rest of the file is re-run; otherwise the whole file is "
        "judged `diag`",
    ])


def replay(path):
    w = json.load(open(path))
    wit = w["witness"]
    build_tool()
    wd = workdir("C15-replay")
    rn = Runner(wit["backend"], wit["configs"], wd)
    v = rn.run_source(wit["program"])
    print("backend=%s configs=%s outcome=%s rc=%s" % (wit["backend"], wit["configs"], v.kind, v.rc))
    print(v.stderr[-1500:])
    if v.kind == "crash":
        print("VIOLATION property=C15 replay=%s" % path)
        print("  key: %s" % w.get("key"))
        return 1
    return 0
