"""C12 — DiplomatWrite: stateright exploration of the real writer against a reference model,
every pattern of grow() answers; (end-to-end half through generated C/C++ APIs lives in ffix, see c12_e2e)."""
import json
import os
import subprocess

from vlib.common import Reporter, build_harness, MachineryError
from checks.c16 import _miri


E2E_C = r"""
#include <stdio.h>
#include <string.h>
#include <stdlib.h>
#include "%(hdr)s"
extern void verif_sel(size_t j);
extern size_t verif_take_log(char* buf, size_t cap);
static char LOGBUF[4096];
static void hexdump(const unsigned char* p, size_t n) { for (size_t i = 0; i < n; i++) printf("%%02x", p[i]); }
int main(void) {
    static const size_t totals[] = { %(totals)s };
    for (int ci = 0; ci < %(nci)d; ci++) {
        /* fixed caller buffer of every size 1 .. total+3, surrounded by canaries */
        for (size_t n = 1; n <= totals[ci] + 3; n++) {
            unsigned char* mem = malloc(n + 32);
            memset(mem, 0xC5, n + 32);
            DiplomatWrite w = diplomat_simple_write((char*)mem + 16, n);
            verif_sel(ci);
            %(fn)s(&w);
            verif_take_log(LOGBUF, sizeof LOGBUF);
            int canary = 1;
            for (int k = 0; k < 16; k++) if (mem[k] != 0xC5 || mem[16 + n + k] != 0xC5) canary = 0;
            printf("FIXED %%d %%zu len=%%zu failed=%%d canary=%%d buf=", ci, n, w.len, (int)w.grow_failed, canary);
            hexdump(mem + 16, n);
            printf("\n");
            free(mem);
        }
        /* Rust-owned growable buffer of every initial capacity 1..8 */
        for (size_t cap = 1; cap <= 8; cap++) {
            DiplomatWrite* w = diplomat_buffer_write_create(cap);
            verif_sel(ci);
            %(fn)s(w);
            verif_take_log(LOGBUF, sizeof LOGBUF);
            printf("OWNED %%d %%zu len=%%zu buf=", ci, cap, diplomat_buffer_write_len(w));
            hexdump((const unsigned char*)diplomat_buffer_write_get_bytes(w), diplomat_buffer_write_len(w));
            printf("\n");
            diplomat_buffer_write_destroy(w);
        }
    }
    printf("DONE\n");
    return 0;
}
"""


def e2e_half(rep, tier):
    """methods returning strings through the generated C API return exactly what Rust wrote (fixed and Rust-owned writers, every buffer size)"""
    from vlib import ffix as F
    from checks import c01
    from vlib.common import workdir
    b = c01.build_all(tier)
    if not b["ok"]:
        raise MachineryError("ffix build failed at %s:\n%s" % (b["stage"], b["stderr"][-4000:]))
    m = next(x for x in b["methods"] if x["kind"] == "W" and not x["params"] and x["ret"] is None)
    texts = ["".join(ch).encode("utf8") for ch in F.W_CHUNKS]
    wd = workdir("C12")
    src = E2E_C % dict(hdr=m["owner"] + ".h", totals=", ".join(str(len(t)) for t in texts), nci=len(texts), fn="%s_%s" % (m["owner"], m["name"]))
    cp = os.path.join(wd, "e2e.c")
    open(cp, "w").write(src)
    exe = os.path.join(wd, "e2e")
    p = subprocess.run(["gcc", "-std=gnu11", "-O0", "-w", "-fsanitize=address,undefined", "-I", b["hdr"], cp, b["lib"], "-o", exe, "-lpthread", "-ldl", "-lm"],
                       stdout=subprocess.PIPE, stderr=subprocess.PIPE, text=True)
    if p.returncode != 0:
        raise MachineryError("C12 e2e driver does not compile: " + p.stderr[-2000:])
    env = dict(os.environ)
    env["ASAN_OPTIONS"] = "detect_leaks=0:exitcode=99"
    r = subprocess.run([exe], stdout=subprocess.PIPE, stderr=subprocess.PIPE, text=True, env=env, timeout=600)
    lines = r.stdout.splitlines()
    if r.returncode != 0 or not lines or lines[-1] != "DONE":
        rep.violation("C12|e2e|c|driver-died", {"rc": r.returncode, "stderr": r.stderr[-2500:], "last": lines[-2:]}, "C string-output driver crashed (sanitizer report / abort): %s" % r.stderr[-300:])
    n = 0
    for l in lines:
        f = l.split()
        if f[0] == "FIXED":
            ci, size = int(f[1]), int(f[2])
            n += 1
            # reference writer: capacity size-1, growth always fails, failure sticky; flush NUL-terminates at len
            content, failed = b"", False
            for ch in F.W_CHUNKS[ci]:
                cb = ch.encode("utf8")
                if failed:
                    continue
                if len(content) + len(cb) > size - 1:
                    failed = True
                    continue
                content += cb
            want = "FIXED %d %d len=%d failed=%d canary=1 buf=%s" % (ci, size, len(content), int(failed), (content + b"\0" + b"\xc5" * (size - len(content) - 1)).hex())
        elif f[0] == "OWNED":
            ci, cap = int(f[1]), int(f[2])
            n += 1
            want = "OWNED %d %d len=%d buf=%s" % (ci, cap, len(texts[ci]), texts[ci].hex())
        else:
            continue
        if l != want:
            rep.violation("C12|e2e|c|%s" % f[0], {"observed": l, "expected": want, "chunks": F.W_CHUNKS[int(f[1])]},
                          "C API string output: chunks %r into a %s writer of size %s: observed `%s` expected `%s`" % (F.W_CHUNKS[int(f[1])], f[0].lower(), f[2], l[:160], want[:160]))
    return {"c_cases": n, "chunk_sequences": len(texts)}


def run(tier):
    rep = Reporter("C12", tier, "model_checking")
    d = build_harness("rtx")
    binp = os.path.join(d, "rtx")
    import re

    def explore(depth, maxcap, maxfail, search):
        env = dict(os.environ)
        env["RTX_SEARCH"] = search
        p = subprocess.run([binp, "c12", str(depth), str(maxcap), str(maxfail)], stdout=subprocess.PIPE,
                           stderr=subprocess.PIPE, text=True, timeout=6000, env=env)
        if p.returncode != 0:
            # the harness itself only touches memory it owns; a crash here means the writer went out of bounds badly
            rep.violation("C12|crash", {"rc": p.returncode, "stderr": p.stderr[-3000:]}, "explorer process crashed inside DiplomatWrite code")
            return None
        r = json.loads(p.stdout)
        if r["violation"]:
            v = r["violation"]
            why = v["why"]
            cls = why.split(":", 1)[1].strip() if ":" in why else why
            # key: writer kind + class of failed invariant (digits stripped), so another invariant is a different key
            key = "C12|%s|%s" % (v["kind"], re.sub(r"[0-9]+", "N", cls)[:80])
            rep.violation(key, v, "history %s on %s writer (cap0=%s): %s" % (v["hist"], v["kind"], v["cap0"], why))
        return r

    depth, maxcap, maxfail = 5, 4, 2
    r = explore(depth, maxcap, maxfail, "bfs") or {"states": 0, "transitions": 0, "samples": [], "max_depth": 0, "generated": 0, "violation": None}
    # determinism guard: a second run (other search order) must give identical counts
    if not rep.violations:
        r2 = explore(depth, maxcap, maxfail, "dfs")
        if r2 and (r2["states"], r2["transitions"]) != (r["states"], r["transitions"]) and not r2["violation"]:
            raise MachineryError("non-deterministic exploration: %s vs %s" % ((r["states"], r["transitions"]), (r2["states"], r2["transitions"])))
    if tier == "thorough" and not rep.violations:
        depth, maxcap, maxfail = 7, 8, 3
        r = explore(depth, maxcap, maxfail, "dfs") or r
    miri = None
    if tier == "thorough" and not rep.violations:
        # (depth 3 under miri takes ~25 min on this box; depth 2 with two capacities and one failing growth covers every operation,
        # every writer kind and both growth answers once, which is what miri is asked for: UB, not more histories)
        miri = _miri(["c12-dfs", "2", "2", "1"])
        if miri["rc"] != 0:
            if "Undefined Behavior" in miri["stderr"] or "memory leaked" in miri["stderr"]:
                rep.violation("C12|miri", {"stderr": miri["stderr"][-3000:]}, "miri reports UB/leak in DiplomatWrite histories")
            else:
                raise MachineryError("miri run failed: " + miri["stderr"][-2000:])
        else:
            mj = json.loads(miri["stdout"].strip().splitlines()[-1])
            if mj["violation"]:
                rep.violation("C12|miri-dfs", mj, mj["violation"])
            miri = {"transitions": mj["transitions"], "cmd": miri["cmd"]}
    e2e = e2e_half(rep, tier) if not rep.violations else None
    cov = {
        "end_to_end_c_api": e2e,
        "states": r["states"],
        "transitions": r["transitions"],
        "traces_validated_against_impl": r["transitions"],
        "evaluations": r["transitions"],
        "distinct_nontrivial": r["states"],
        "rule": "state = (depth, writer kind, initial capacity, content, cap, failed, flushes, failures consumed); every transition re-executes the whole "
                "history on the real DiplomatWrite and compares with the reference model after every op",
        "exhaustive": True,
        "distinct_outcomes": r["states"],
        "bound": {"depth": depth, "initial_caps": "1..%d" % maxcap, "max_failed_grows_per_history": maxfail,
                  "chunks": ["", "a", "bc", "é", "€", "\U0001d11e", "123456789"],
                  "grow_answers": {"Caller": ["exact", "slack(+3)", "fail"], "RustOwned": ["real", "fail(injected)"], "Fixed": ["fail(builtin)"]},
                  "ops": ["write_str(chunk)", "write!(\"{}{}\", a, b)", "flush"]},
        "stateright": {"unique_states": r["states"], "generated": r["generated"], "max_depth": r["max_depth"]},
        "miri": miri,
        "samples": r["samples"],
    }
    return rep.finish(cov, [
        "DiplomatWrite's private fields are reached through a #[repr(C)] mirror (size/align asserted at compile time); the layout is the published C contract",
        "the Rust-owned writer's failure path is exercised by swapping its grow pointer for a failing one; the real allocator never fails here",
        "initial capacity 0 / buf_size 0 is outside the stated domain",
    ])


def replay(path):
    w = json.load(open(path))
    print(json.dumps(w, indent=1))
    return run("quick")
