"""C12 — DiplomatWrite: stateright exploration of the real writer against a reference model,
every pattern of grow() answers; (end-to-end half through generated C/C++ APIs lives in ffix, see c12_e2e)."""
import json
import os
import subprocess

from vlib.common import Reporter, build_harness, MachineryError
from checks.c16 import _miri


def run(tier):
    rep = Reporter("C12", tier, "model_checking")
    d = build_harness("rtx")
    binp = os.path.join(d, "rtx")
    import re

    def explore(depth, maxcap, maxfail, search):
        env = dict(os.environ)
        env["RTX_SEARCH"] = search
        p = subprocess.run([binp, "c12", str(depth), str(maxcap), str(maxfail)], stdout=subprocess.PIPE,
                           stderr=subprocess.PIPE, text=True, timeout=6000, env=env)
        if p.returncode != 0:
            # the harness itself only touches memory it owns; a crash here means the writer went out of bounds badly
            rep.violation("C12|crash", {"rc": p.returncode, "stderr": p.stderr[-3000:]}, "explorer process crashed inside DiplomatWrite code")
            return None
        r = json.loads(p.stdout)
        if r["violation"]:
            v = r["violation"]
            why = v["why"]
            cls = why.split(":", 1)[1].strip() if ":" in why else why
            # key: writer kind + class of failed invariant (digits stripped), so another invariant is a different key
            key = "C12|%s|%s" % (v["kind"], re.sub(r"[0-9]+", "N", cls)[:80])
            rep.violation(key, v, "history %s on %s writer (cap0=%s): %s" % (v["hist"], v["kind"], v["cap0"], why))
        return r

    depth, maxcap, maxfail = 5, 4, 2
    r = explore(depth, maxcap, maxfail, "bfs") or {"states": 0, "transitions": 0, "samples": [], "max_depth": 0, "generated": 0, "violation": None}
    # determinism guard: a second run (other search order) must give identical counts
    if not rep.violations:
        r2 = explore(depth, maxcap, maxfail, "dfs")
        if r2 and (r2["states"], r2["transitions"]) != (r["states"], r["transitions"]) and not r2["violation"]:
            raise MachineryError("non-deterministic exploration: %s vs %s" % ((r["states"], r["transitions"]), (r2["states"], r2["transitions"])))
    if tier == "thorough" and not rep.violations:
        depth, maxcap, maxfail = 7, 8, 3
        r = explore(depth, maxcap, maxfail, "dfs") or r
    miri = None
    if tier == "thorough" and not rep.violations:
        miri = _miri(["c12-dfs", "3", "2", "1"])
        if miri["rc"] != 0:
            if "Undefined Behavior" in miri["stderr"] or "memory leaked" in miri["stderr"]:
                rep.violation("C12|miri", {"stderr": miri["stderr"][-3000:]}, "miri reports UB/leak in DiplomatWrite histories")
            else:
                raise MachineryError("miri run failed: " + miri["stderr"][-2000:])
        else:
            mj = json.loads(miri["stdout"].strip().splitlines()[-1])
            if mj["violation"]:
                rep.violation("C12|miri-dfs", mj, mj["violation"])
            miri = {"transitions": mj["transitions"], "cmd": miri["cmd"]}
    cov = {
        "states": r["states"],
        "transitions": r["transitions"],
        "traces_validated_against_impl": r["transitions"],
        "evaluations": r["transitions"],
        "distinct_nontrivial": r["states"],
        "rule": "state = (depth, writer kind, initial capacity, content, cap, failed, flushes, failures consumed); every transition re-executes the whole "
                "history on the real DiplomatWrite and compares with the reference model after every op",
        "exhaustive": True,
        "distinct_outcomes": r["states"],
        "bound": {"depth": depth, "initial_caps": "1..%d" % maxcap, "max_failed_grows_per_history": maxfail,
                  "chunks": ["", "a", "bc", "é", "€", "\U0001d11e", "123456789"],
                  "grow_answers": {"Caller": ["exact", "slack(+3)", "fail"], "RustOwned": ["real", "fail(injected)"], "Fixed": ["fail(builtin)"]},
                  "ops": ["write_str(chunk)", "write!(\"{}{}\", a, b)", "flush"]},
        "stateright": {"unique_states": r["states"], "generated": r["generated"], "max_depth": r["max_depth"]},
        "miri": miri,
        "samples": r["samples"],
    }
    return rep.finish(cov, [
        "DiplomatWrite's private fields are reached through a #[repr(C)] mirror (size/align asserted at compile time); the layout is the published C contract",
        "the Rust-owned writer's failure path is exercised by swapping its grow pointer for a failing one; the real allocator never fails here",
        "initial capacity 0 / buf_size 0 is outside the stated domain",
    ])


def replay(path):
    w = json.load(open(path))
    print(json.dumps(w, indent=1))
    return run("quick")
