"""C03 (generated-API half): every history of create / borrow / consume / destroy calls through the generated C API over drop-logging
opaques, executed under ASan + LSan, compared with a reference ownership model."""
import itertools
import json
import os
import re
import shutil
import subprocess

from vlib import ffix as F
from vlib.common import REPO, run_tool, workdir, MachineryError, build_tool

CRATE_RS = r'''
#![allow(unused, non_snake_case, clippy::all, improper_ctypes_definitions, mismatched_lifetime_syntaxes)]
use std::sync::Mutex;
pub static DROPS: Mutex<Vec<u32>> = Mutex::new(Vec::new());
pub static CBLOG: Mutex<Vec<u32>> = Mutex::new(Vec::new());
impl Drop for ffi::Tr { fn drop(&mut self) { DROPS.lock().unwrap().push(self.0); } }
/// writes "d1,d2,..;" (drop log) into buf and clears it
#[no_mangle]
pub unsafe extern "C" fn verif_take_drops(buf: *mut u8, cap: usize) -> usize {
    let mut d = DROPS.lock().unwrap();
    let s: String = d.iter().map(|x| x.to_string()).collect::<Vec<_>>().join(",");
    d.clear();
    let n = s.len().min(cap - 1);
    core::ptr::copy_nonoverlapping(s.as_ptr(), buf, n);
    *buf.add(n) = 0;
    n
}
#[diplomat::bridge]
pub mod ffi {
    use diplomat_runtime::DiplomatWrite;
    use core::fmt::Write;
    #[diplomat::opaque]
    pub struct Tr(pub u32);
    #[diplomat::opaque]
    /// keeps `FnMut` callbacks (the macro wraps `Fn` and `FnMut` parameters through different code)
    pub struct Holder(pub Vec<Box<dyn FnMut(u32) -> u32>>, pub u32);
    /// keeps callbacks through a shared reference (interior mutability)
    #[diplomat::opaque]
    pub struct Shared(pub std::cell::RefCell<Vec<Box<dyn Fn(u32) -> u32>>>, pub u32);
    #[diplomat::out]
    pub struct OutT { pub a: Box<Tr>, pub b: Option<Box<Tr>>, pub n: u32 }
    pub struct WithSlice { pub n: u8 }
    impl Tr {
        pub fn new(id: u32) -> Box<Tr> { Box::new(Tr(id)) }
        pub fn new_opt(id: u32, some: bool) -> Option<Box<Tr>> { if some { Some(Box::new(Tr(id))) } else { None } }
        pub fn new_res(id: u32, ok: bool) -> Result<Box<Tr>, Box<Tr>> { if ok { Ok(Box::new(Tr(id))) } else { Err(Box::new(Tr(id + 1000))) } }
        pub fn new_res_unit(id: u32, ok: bool) -> Result<Box<Tr>, ()> { if ok { Ok(Box::new(Tr(id))) } else { Err(()) } }
        pub fn new_out(id: u32, with_b: bool) -> OutT { OutT { a: Box::new(Tr(id)), b: if with_b { Some(Box::new(Tr(id + 2000))) } else { None }, n: id } }
        pub fn id(&self) -> u32 { self.0 }
        pub fn borrow<'a>(&'a self) -> &'a Tr { self }
        pub fn borrow_opt<'a>(&'a self, some: bool) -> Option<&'a Tr> { if some { Some(self) } else { None } }
        pub fn bump(&mut self) { self.0 += 0; }
        pub fn take_slice(&self, v: Box<[u8]>) -> u32 { v.iter().map(|x| *x as u32).sum() }
        pub fn take_str(&self, v: Box<str>) -> u32 { v.len() as u32 }
        pub fn take_opt_slice(&self, v: Option<Box<[u8]>>) -> u32 { v.map(|v| v.len() as u32 + 1).unwrap_or(0) }
        pub fn take_opt_u16(&self, v: Option<Box<[u16]>>) -> u32 { v.map(|v| v.len() as u32 + 1).unwrap_or(0) }
        pub fn take_cb(&self, f: impl Fn(u32) -> u32) -> u32 { f(self.0) }
        pub fn cb_then_str(&self, f: impl Fn(u32) -> u32, s: &str) -> u32 { f(self.0) + s.len() as u32 }
        pub fn str_then_cb(&self, s: &str, f: impl Fn(u32) -> u32) -> u32 { f(self.0) + s.len() as u32 }
        pub fn write_id(&self, w: &mut DiplomatWrite) { let _ = write!(w, "id={}", self.0); }
        pub fn write_res(&self, ok: bool, w: &mut DiplomatWrite) -> Result<(), Box<Tr>> { let _ = write!(w, "x{}", self.0); if ok { Ok(()) } else { Err(Box::new(Tr(self.0 + 3000))) } }
    }
    impl Holder {
        pub fn new(id: u32) -> Box<Holder> { Box::new(Holder(Vec::new(), id)) }
        pub fn keep(&mut self, f: impl FnMut(u32) -> u32 + 'static) { self.0.push(Box::new(f)); }
        pub fn call_all(&mut self) -> u32 { let x = self.1; self.0.iter_mut().map(|f| f(x)).sum() }
    }
    impl Shared {
        pub fn new(id: u32) -> Box<Shared> { Box::new(Shared(std::cell::RefCell::new(Vec::new()), id)) }
        pub fn keep(&self, f: impl Fn(u32) -> u32 + 'static) { self.0.borrow_mut().push(Box::new(f)); }
        pub fn call_all(&self) -> u32 { self.0.borrow().iter().map(|f| f(self.1)).sum() }
        pub fn count(&self) -> u32 { self.0.borrow().len() as u32 }
    }
}
'''

DRIVER_C = r'''
#include <stdio.h>
#include <stdlib.h>
#include <string.h>
#include <stdint.h>
#include "Tr.h"
#include "Holder.h"
#include "OutT.h"
extern size_t verif_take_drops(char* buf, size_t cap);
extern void* diplomat_alloc(size_t size, size_t align);
int __lsan_do_recoverable_leak_check(void);
static Tr* H[8]; static Holder* HO[4];
static int CB_DESTROYED, CB_CALLS;
static uint32_t cb_run(const void* d, uint32_t x) { CB_CALLS++; return x + 1; }
static void cb_destroy(const void* d) { CB_DESTROYED++; }
static char BUF[4096];
int main(void) {
    char line[1024];
    while (fgets(line, sizeof line, stdin)) {
        memset(H, 0, sizeof H); memset(HO, 0, sizeof HO); CB_DESTROYED = 0; CB_CALLS = 0;
        int seq = atoi(strtok(line, " \n"));
        printf("SEQ %d |", seq);
        char* tok;
        while ((tok = strtok(NULL, " \n"))) {
            char op = tok[0]; int a = tok[1] - '0'; int b = tok[2] ? tok[2] - '0' : 0;
            switch (op) {
            case 'n': H[a] = Tr_new(100 + a); break;
            case 'o': H[a] = Tr_new_opt(100 + a, b); printf(" opt%d=%d", a, H[a] != NULL); break;
            case 'r': { Tr_new_res_result r = Tr_new_res(100 + a, b); H[a] = r.is_ok ? r.ok : r.err; printf(" res%d=%d:%u", a, (int)r.is_ok, Tr_id(H[a])); break; }
            case 'u': { Tr_new_res_unit_result r = Tr_new_res_unit(100 + a, b); H[a] = r.is_ok ? r.ok : NULL; printf(" resu%d=%d", a, (int)r.is_ok); break; }
            case 'x': { OutT o = Tr_new_out(100 + a, b); H[a] = o.a; H[a + 4] = o.b; printf(" out%d=%u:%d", a, o.n, o.b != NULL); break; }
            case 'i': printf(" id%d=%u", a, Tr_id(H[a])); break;
            case 'b': { const Tr* p = Tr_borrow(H[a]); printf(" bor%d=%u", a, Tr_id(p)); break; }
            case 'B': { const Tr* p = Tr_borrow_opt(H[a], b); printf(" borO%d=%d", a, p != NULL); break; }
            case 'm': Tr_bump(H[a]); break;
            case 's': { uint8_t* v = diplomat_alloc(3, 1); v[0] = 1; v[1] = 2; v[2] = 3; printf(" sl%d=%u", a, Tr_take_slice(H[a], (DiplomatU8ViewMut){ v, 3 })); break; }
            case 'S': { char* v = diplomat_alloc(2, 1); v[0] = 'h'; v[1] = 'i'; printf(" st%d=%u", a, Tr_take_str(H[a], (DiplomatStringView){ v, 2 })); break; }
            case 'e': printf(" sle%d=%u", a, Tr_take_slice(H[a], (DiplomatU8ViewMut){ NULL, 0 })); break;
            case 'p': { OptionU8ViewMut ov; memset(&ov, 0, sizeof ov); if (b) { uint8_t* v = diplomat_alloc(2, 1); v[0] = 9; v[1] = 9; ov.ok = (DiplomatU8ViewMut){ v, 2 }; ov.is_ok = true; }
                        printf(" os%d=%u", a, Tr_take_opt_slice(H[a], ov)); break; }
            case 'q': { OptionU16ViewMut ov; memset(&ov, 0, sizeof ov); if (b) { uint16_t* v = diplomat_alloc(4, 2); v[0] = 9; v[1] = 9; ov.ok = (DiplomatU16ViewMut){ v, 2 }; ov.is_ok = true; }
                        printf(" ou%d=%u", a, Tr_take_opt_u16(H[a], ov)); break; }
            case 'c': { DiplomatCallback_Tr_take_cb_f cb = { &CB_CALLS, cb_run, cb_destroy }; printf(" cb%d=%u", a, Tr_take_cb(H[a], cb)); break; }
            case 'w': { DiplomatWrite* w = diplomat_buffer_write_create(1); Tr_write_id(H[a], w); printf(" w%d=%.*s", a, (int)diplomat_buffer_write_len(w), diplomat_buffer_write_get_bytes(w)); diplomat_buffer_write_destroy(w); break; }
            case 'W': { DiplomatWrite* w = diplomat_buffer_write_create(1); Tr_write_res_result r = Tr_write_res(H[a], b, w); printf(" wr%d=%d", a, (int)r.is_ok);
                        if (!r.is_ok) { printf(":%u", Tr_id(r.err)); Tr_destroy(r.err); } diplomat_buffer_write_destroy(w); break; }
            case 'd': Tr_destroy(H[a]); H[a] = NULL; break;
            case 'h': HO[a] = Holder_new(7); break;
            case 'k': { DiplomatCallback_Holder_keep_f cb = { &CB_CALLS, cb_run, cb_destroy }; Holder_keep(HO[a], cb); break; }
            case 'a': printf(" call%d=%u", a, Holder_call_all(HO[a])); break;
            case 'D': Holder_destroy(HO[a]); HO[a] = NULL; break;
            default: printf(" ?%s", tok); break;
            }
            verif_take_drops(BUF, sizeof BUF);
            printf(" <%s>", BUF);
        }
        /* quiescence: destroy everything still alive */
        for (int k = 0; k < 8; k++) if (H[k]) { Tr_destroy(H[k]); H[k] = NULL; }
        for (int k = 0; k < 4; k++) if (HO[k]) { Holder_destroy(HO[k]); HO[k] = NULL; }
        verif_take_drops(BUF, sizeof BUF);
        printf(" | end<%s> cbd=%d cbc=%d leak=%d\n", BUF, CB_DESTROYED, CB_CALLS, __lsan_do_recoverable_leak_check());
        fflush(stdout);
    }
    printf("DONE\n");
    return 0;
}
'''


def op_alphabet(tier):
    """(token, needs live handle a?, creates?, description) — tokens are interpreted by the driver"""
    ops = []
    for a in (0, 1):
        ops += ["n%d" % a, "o%d1" % a, "o%d0" % a, "r%d1" % a, "r%d0" % a, "u%d1" % a, "u%d0" % a, "x%d1" % a, "x%d0" % a]
        ops += ["i%d" % a, "b%d" % a, "B%d1" % a, "B%d0" % a, "s%d" % a, "S%d" % a, "e%d" % a, "p%d1" % a, "p%d0" % a, "q%d1" % a, "c%d" % a, "w%d" % a, "W%d1" % a, "W%d0" % a, "d%d" % a]
        if tier == "thorough":
            ops += ["m%d" % a]
    ops += ["h0", "k0", "a0", "D0"]
    return ops


class Model:
    """reference ownership model: which ids are alive in which slot, what each op prints, which drops it causes"""

    def __init__(self):
        self.h = {}      # slot -> id
        self.ho = {}     # holder slot -> number of kept callbacks
        self.cbd = 0
        self.cbc = 0
        self.out = []

    def enabled(self, tok):
        op, a = tok[0], int(tok[1])
        if op in "noruxh":
            if op == "h":
                return a not in self.ho
            if op == "x":
                return a not in self.h and (a + 4) not in self.h
            return a not in self.h
        if op in "kaD":
            return a in self.ho
        return a in self.h

    def step(self, tok):
        op, a = tok[0], int(tok[1])
        b = int(tok[2]) if len(tok) > 2 else 0
        drops = []
        o = ""
        i = 100 + a
        if op == "n":
            self.h[a] = i
        elif op == "o":
            if b:
                self.h[a] = i
            o = " opt%d=%d" % (a, b)
        elif op == "r":
            self.h[a] = i if b else i + 1000
            o = " res%d=%d:%u" % (a, b, self.h[a])
        elif op == "u":
            if b:
                self.h[a] = i
            o = " resu%d=%d" % (a, b)
        elif op == "x":
            self.h[a] = i
            if b:
                self.h[a + 4] = i + 2000
            o = " out%d=%u:%d" % (a, i, b)
        elif op == "i":
            o = " id%d=%u" % (a, self.h[a])
        elif op == "b":
            o = " bor%d=%u" % (a, self.h[a])
        elif op == "B":
            o = " borO%d=%d" % (a, b)
        elif op == "s":
            o = " sl%d=6" % a
        elif op == "S":
            o = " st%d=2" % a
        elif op == "e":
            o = " sle%d=0" % a
        elif op == "p":
            o = " os%d=%d" % (a, 3 if b else 0)
        elif op == "q":
            o = " ou%d=%d" % (a, 3 if b else 0)
        elif op == "c":
            o = " cb%d=%u" % (a, self.h[a] + 1)
            self.cbc += 1
            self.cbd += 1
        elif op == "w":
            o = " w%d=id=%u" % (a, self.h[a])
        elif op == "W":
            o = " wr%d=%d" % (a, b)
            if not b:
                o += ":%u" % (self.h[a] + 3000)
                drops.append(self.h[a] + 3000)
        elif op == "d":
            drops.append(self.h.pop(a))
        elif op == "h":
            self.ho[a] = 0
        elif op == "k":
            self.ho[a] += 1
        elif op == "a":
            o = " call%d=%u" % (a, 8 * self.ho[a])
            self.cbc += self.ho[a]
        elif op == "D":
            self.cbd += self.ho.pop(a)
        return o + " <%s>" % ",".join(map(str, drops))

    def finish(self):
        drops = [self.h[k] for k in sorted(self.h)]
        for k in sorted(self.ho):
            self.cbd += self.ho[k]
        return " | end<%s> cbd=%d cbc=%d leak=0" % (",".join(map(str, drops)), self.cbd, self.cbc)

    def key(self):
        return (tuple(sorted(self.h.items())), tuple(sorted(self.ho.items())))


def enumerate_histories(depth, tier):
    """BFS over the reference model; all op sequences up to `depth` that respect the caller's obligations; dedup on nothing (histories are the states),
    but count distinct abstract states"""
    ops = op_alphabet(tier)
    out = []
    states = set()
    frontier = [[]]
    for d in range(depth):
        nxt = []
        for h in frontier:
            m = Model()
            for t in h:
                m.step(t)
            for t in ops:
                if m.enabled(t):
                    # symmetry: slot 1 is only used once slot 0 has been touched
                    if t[1] == "1" and not any(x[1] == "0" for x in h) and t[0] not in "hkaD":
                        continue
                    nxt.append(h + [t])
        out += nxt
        frontier = nxt
    for h in out:
        m = Model()
        for t in h:
            m.step(t)
        states.add(m.key())
    return out, len(states)


def expected(h):
    m = Model()
    s = ""
    for t in h:
        s += m.step(t)
    return s + m.finish()


DRIVER_CPP = r'''
#include <cstdio>
#include <cstdlib>
#include <cstring>
#include <memory>
#include <string>
#include <string_view>
#include <vector>
#include "Tr.hpp"
#include "Holder.hpp"
#include "Shared.hpp"
// histories over the C++ API of callbacks: K keep (&mut self), S keep (&self), A call all kept, T transient, U callback then valid str,
// V callback then ill-formed str, W str then callback (ill-formed), X drop the holders.  The callable owns a copy of a shared token:
// tok.use_count() - 1 = number of copies of the callable alive anywhere (inside Rust, inside a leaked wrapper, ...).
int main() {
    char line[256];
    while (fgets(line, sizeof line, stdin)) {
        auto tok = std::make_shared<int>(0);
        int calls = 0;
        auto tr = Tr::new_(5);
        auto ho = Holder::new_(7);
        auto sh = Shared::new_(7);
        int kept = 0;          // what the reference model says Rust holds
        bool trust = true;     // false once the live count disagrees: stored callbacks are then not invoked (that would be UB)
        char* p = strtok(line, " \n");
        printf("SEQ %s |", p);
        while ((p = strtok(NULL, " \n"))) {
            auto cb = [tok, &calls](uint32_t x) -> uint32_t { calls++; return x + 1; };
            switch (p[0]) {
            case 'K': ho->keep(cb); kept++; break;
            case 'S': sh->keep(cb); kept++; break;
            case 'T': printf(" t=%u", tr->take_cb(cb)); break;
            case 'U': { auto r = tr->cb_then_str(cb, "ab"); printf(" u=%s", r.is_ok() ? std::to_string(std::move(r).ok().value()).c_str() : "utf8err"); break; }
            case 'V': { auto r = tr->cb_then_str(cb, std::string_view("\xff\xfe", 2)); printf(" v=%s", r.is_ok() ? "ok" : "utf8err"); break; }
            case 'W': { auto r = tr->str_then_cb(std::string_view("\xc3", 1), cb); printf(" w=%s", r.is_ok() ? "ok" : "utf8err"); break; }
            case 'A': if (trust) printf(" a=%u", ho->call_all() + sh->call_all()); else printf(" a=skipped"); break;
            case 'X': ho = Holder::new_(7); sh = Shared::new_(7); kept = 0; break;   // the old holders are destroyed here
            default: printf(" ?%s", p);
            }
            long live = tok.use_count() - 1 - 0;
            // (the local `cb` of this iteration is gone at this point only after the switch's scope; count it out)
            printf(" live=%ld", live - 1);
            if (live - 1 != kept) trust = false;
        }
        ho.reset(); sh.reset(); tr.reset();
        printf(" | end live=%ld calls=%d\n", (long)tok.use_count() - 1, calls);
        fflush(stdout);
    }
    printf("DONE\n");
    return 0;
}
'''

CPP_OPS = "KSTUVWAX"


def cpp_expected(h):
    kept = calls = 0
    s = ""
    for op in h:
        if op in "KS":
            kept += 1
        elif op == "T":
            calls += 1
            s += " t=6"
        elif op == "U":
            calls += 1
            s += " u=8"
        elif op == "V":
            s += " v=utf8err"
        elif op == "W":
            s += " w=utf8err"
        elif op == "A":
            s += " a=%d" % (8 * kept)
            calls += kept
        elif op == "X":
            kept = 0
        s += " live=%d" % kept
    return s + " | end live=0 calls=%d" % calls


def cpp_callback_half(rep, tier, d, lib):
    """every history up to the depth over the callback operations of the generated C++ API, under ASan: the number of live copies of
    the callable after every call must equal what Rust is supposed to hold, and none may survive the holders"""
    hpp = os.path.join(d, "cpp")
    shutil.rmtree(hpp, ignore_errors=True)
    q = run_tool("cpp", os.path.join(d, "src", "lib.rs"), hpp)
    if q.returncode != 0:
        raise MachineryError("cpp backend failed on c03g crate: " + q.stderr[-2000:])
    wd = workdir("C03gpp")
    cp = os.path.join(wd, "driver.cpp")
    open(cp, "w").write(DRIVER_CPP)
    exe = os.path.join(wd, "driver")
    p = subprocess.run(["g++", "-std=c++17", "-O0", "-g", "-w", "-fsanitize=address", "-I", hpp, cp, lib, "-o", exe, "-lpthread", "-ldl", "-lm"],
                       stdout=subprocess.PIPE, stderr=subprocess.PIPE, text=True)
    if p.returncode != 0:
        raise MachineryError("c03g C++ driver does not compile: " + p.stderr[-3000:])
    depth = 3 if tier == "quick" else 5
    hist = [h for n in range(1, depth + 1) for h in itertools.product(CPP_OPS, repeat=n)]
    env = dict(os.environ)
    env["ASAN_OPTIONS"] = "detect_leaks=1:exitcode=99:abort_on_error=0"
    inp = "".join("%d %s\n" % (i, " ".join(h)) for i, h in enumerate(hist))
    r = subprocess.run([exe], input=inp, stdout=subprocess.PIPE, stderr=subprocess.PIPE, text=True, env=env, timeout=1800)
    lines = r.stdout.splitlines()
    bad = 0
    for i, h in enumerate(hist):
        want = "SEQ %d |%s" % (i, cpp_expected(h))
        got = lines[i] if i < len(lines) else None
        if got != want:
            bad += 1
            if got is None:
                m = re.search(r"ERROR: AddressSanitizer: ([\w-]+)", r.stderr)
                rep.violation("C03g|cpp|%s|ops=%s" % (m.group(1) if m else "crash", "".join(sorted(set(h)))), {"history": h, "stderr": r.stderr[-2500:]},
                              "history %s through the generated C++ API crashed (%s)" % ("".join(h), m.group(1) if m else "crash"))
                break
            rep.violation("C03g|cpp|callable-copies|ops=%s" % "".join(sorted(set(h))), {"history": "".join(h), "expected": want, "observed": got},
                          "C++ API history %s: expected `%s` observed `%s`" % ("".join(h), want[:160], got[:160]))
            if bad > 12:
                break
    if r.returncode != 0 and not bad:
        rep.violation("C03g|cpp|leak-or-asan-at-exit", {"rc": r.returncode, "stderr": r.stderr[-2500:]}, "the C++ callback driver ended with an ASan / LSan report")
    return {"cpp_callback_histories": len(hist), "cpp_depth": depth, "cpp_ops": CPP_OPS}


def generated_half(rep, tier):
    build_tool()
    d, lib, p = F.build_crate("c03g", CRATE_RS)
    if p.returncode != 0:
        raise MachineryError("c03g crate does not build: " + p.stderr[-3000:])
    cppinfo = cpp_callback_half(rep, tier, d, lib)
    hdr = os.path.join(d, "c")
    shutil.rmtree(hdr, ignore_errors=True)
    q = run_tool("c", os.path.join(d, "src", "lib.rs"), hdr)
    if q.returncode != 0:
        raise MachineryError("c backend failed on c03g crate: " + q.stderr[-2000:])
    wd = workdir("C03g")
    cp = os.path.join(wd, "driver.c")
    open(cp, "w").write(DRIVER_C)
    exe = os.path.join(wd, "driver")
    p = subprocess.run(["gcc", "-std=gnu11", "-O0", "-g", "-w", "-fsanitize=address", "-I", hdr, cp, lib, "-o", exe, "-lpthread", "-ldl", "-lm"],
                       stdout=subprocess.PIPE, stderr=subprocess.PIPE, text=True)
    if p.returncode != 0:
        raise MachineryError("c03g driver does not compile: " + p.stderr[-3000:])
    depth = 3 if tier == "quick" else 4
    hist, nstates = enumerate_histories(depth, tier)
    env = dict(os.environ)
    env["ASAN_OPTIONS"] = "detect_leaks=1:exitcode=99:abort_on_error=0"
    env["LSAN_OPTIONS"] = "exitcode=0:print_suppressions=0"
    nshards = 16
    shards = [hist[k::nshards] for k in range(nshards)]

    def runshard(arg):
        k, hs = arg
        inp = "".join("%d %s\n" % (i, " ".join(h)) for i, h in enumerate(hs))
        r = subprocess.run([exe], input=inp, stdout=subprocess.PIPE, stderr=subprocess.PIPE, text=True, env=env, timeout=1800)
        return (hs, r.returncode, r.stdout, r.stderr)
    from vlib.common import pmap
    n = 0
    bad = 0
    for (hs, rc, out, err) in pmap(runshard, list(enumerate(shards))):
        lines = out.splitlines()
        for i, h in enumerate(hs):
            n += 1
            want = "SEQ %d |%s" % (i, expected(h))
            got = lines[i] if i < len(lines) else None
            if got != want:
                bad += 1
                if got is None:
                    m = re.search(r"ERROR: AddressSanitizer: ([\w-]+)", err)
                    kind = m.group(1) if m else "crash"
                    rep.violation("C03g|%s|after=%s" % (kind, re.sub(r"\d", "", " ".join(h))), {"history": h, "stderr": err[-2500:]},
                                  "history %s through the generated C API: %s (ASan)" % (h, kind))
                    break
                cls = "leak" if "leak=1" in got and "leak=0" in want else "drop-log"
                rep.violation("C03g|%s|ops=%s" % (cls, re.sub(r"\d", "", " ".join(h))), {"history": h, "expected": want, "observed": got},
                              "history %s: expected `%s` observed `%s`" % (h, want[:200], got[:200]))
                if bad > 20:
                    break
    samples = [{"generated_api_history": " ".join(h), "expected_trace": expected(h)} for h in (hist[7], hist[len(hist) // 2], hist[-1])]
    return {"states": nstates + cppinfo["cpp_callback_histories"], "transitions": sum(len(h) for h in hist) + cppinfo["cpp_callback_histories"], "histories": len(hist),
            "depth": depth, "ops": op_alphabet(tier), "samples": samples, "cpp": cppinfo}
