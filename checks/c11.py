"""C11 — enum variants carry the same numeric value in Rust and in every binding.

Exhaustive differential enumeration (no sampling): every C-like enum up to the bound is pushed through the real
diplomat-tool backends; ground truth is rustc itself (an oracle program printing `Variant as i64` for the very same
definitions with the attributes the proc macro adds).  Observed side:
  c        gcc-compiled program printing every enumerator of the generated headers
  cpp      g++-compiled program: `Value` enumerators, capi enumerators, AsFFI(), FromFFI(n) (abort() isolated by fork)
  js       generated .mjs executed in Node against a stub wasm module: ffiValue, from-FFI constructor, `value`,
           and the generated method `f(self, o) -> E` with an identity-like stub on the wasm side
  dart     generated .g.dart interpreted (declaration order, `_ffi` switch, use-site expressions) — exact template forms only
  kotlin   generated .kt interpreted (constructor args / ordinal, toNative, fromNative when-table / entries[n])
  nanobind `.value("V", T::V)` table of the binding .cpp + its own copy of the C++ headers (byte-compared with the cpp
           backend's, compiled separately if they differ)
Anything a parser cannot interpret is UNDECIDED => MachineryError (exit 2), never a guess.
"""
import itertools
import json
import os
import re
import shutil
import subprocess
import time

from vlib.common import (Reporter, MachineryError, VERIF, workdir, pmap, run_tool, build_tool, default_configs, sha)

GRAMMAR_VERSION = 1
I32_MIN, I32_MAX = -2147483648, 2147483647
A_FULL = [I32_MIN, -2, -1, 0, 1, 2, 5, I32_MAX]
A_SIX = [I32_MIN, -1, 0, 1, 5, I32_MAX]
A_BIG = [I32_MIN, -1, 1, 5]
BACKENDS6 = ["c", "cpp", "js", "dart", "kotlin", "nanobind"]
BATCH_MAX = 500


# ---------------------------------------------------------------------------------------------
# the space


def resolve(spec):
    """rustc's rule: implicit = previous + 1 (first = 0); duplicates are a rustc error (E0081). A value past i32::MAX is
    outside the property's domain ("within i32"); rustc 1.95 does not reject it for repr(C) (isize arithmetic)."""
    return None if why_invalid(spec) else _values(spec)


def _values(spec):
    out, last = [], -1
    for s in spec:
        last = last + 1 if s is None else s
        out.append(last)
    return out


def why_invalid(spec):
    d = _values(spec)
    if max(d) > I32_MAX:
        return "outside-i32"
    if len(set(d)) != len(d):
        return "duplicate"
    return None


def tiers(tier):
    if tier == "quick":
        return [(1, A_FULL), (2, A_FULL), (3, A_FULL), (4, []), (5, []), (6, []), (7, []), (8, [])]
    return [(1, A_FULL), (2, A_FULL), (3, A_FULL), (4, A_FULL), (5, A_FULL), (6, A_SIX), (7, A_BIG), (8, A_BIG)]


def enum_space(tier):
    """sizes ascending, then lexicographic with `implicit` first: the first failing enum is a smallest one."""
    valid, invalid, raw = [], [], 0
    for n, alph in tiers(tier):
        for spec in itertools.product([None] + alph, repeat=n):
            raw += 1
            if resolve(spec) is None:
                invalid.append(spec)
            else:
                valid.append(spec)
    return valid, invalid, raw


def enum_text(name, spec):
    return "pub enum %s { %s }" % (name, ", ".join(
        ("V%d" % i) if s is None else ("V%d = %d" % (i, s)) for i, s in enumerate(spec)))


def shape_class(spec):
    d = resolve(spec)
    n = len(d)
    if all(s is None for s in spec):
        return "all-implicit"
    if d == list(range(n)):
        return "zero-based-explicit"
    if n == 1:
        base = "single-variant"
    elif all(d[i + 1] == d[i] + 1 for i in range(n - 1)):
        base = "contiguous-nonzero-base"
    elif any(d[i + 1] < d[i] for i in range(n - 1)):
        base = "non-monotonic"
    else:
        base = "gaps"
    return base + ("+negative" if min(d) < 0 else "")


def nontrivial(spec):
    """at least one explicit discriminant different from what the variant would get implicitly"""
    last = -1
    for s in spec:
        if s is not None and s != last + 1:
            return True
        last = last + 1 if s is None else s
    return False


# ---------------------------------------------------------------------------------------------
# helpers


def _run(cmd, cwd=None, timeout=600, input=None):
    try:
        return subprocess.run(cmd, cwd=cwd, timeout=timeout, input=input, stdout=subprocess.PIPE, stderr=subprocess.PIPE,
                              text=True, errors="replace")
    except subprocess.TimeoutExpired:
        return subprocess.CompletedProcess(cmd, -999, "", "TIMEOUT")


class Batch:
    def __init__(self, idx, enums, root):
        self.idx = idx
        self.enums = enums  # list of (name, spec)
        self.dir = os.path.join(root, "b%04d" % idx)
        self.rust = {}  # name -> [values]
        self.obs = {}  # backend -> name -> observation dict
        self.rejected = {}  # backend -> {name: msg}
        self.panicked = {}  # backend -> {name: msg}
        self.judgements = []  # (name, backend, direction, variant, ok, expected, observed)
        self.forms = {}
        self.nb_headers_identical = None
        self.generated = 0
        self.timing = {}


def bridge_text(enums):
    lines = ["#[diplomat::bridge]", "mod ffi {"]
    for ei, (name, spec) in enumerate(enums):
        lines.append("    " + enum_text(name, spec))
        # one method per enum: `self`, a parameter and the return value are the three use sites where a backend
        # converts to / from the native integer (Dart emits those conversions at the use site only)
        # (JS only) a second method returns the enum inside an Option: the value then reaches JS through wasm memory
        # (JS only, every second enum) a method marked as the JS constructor: `new E(..)` then dispatches between the Rust
        # constructor, the by-value lookup and the from-FFI path, and `fromValue` must still take the lookup
        ctor = ("#[diplomat::attr(js, constructor)] #[diplomat::attr(not(js), disable)] pub fn mk() -> %s { %s::V0 } " % (name, name)) if int(re.sub(r"\D", "", name) or 0) % 2 == 0 else ""
        lines.append("    impl %s { pub fn f(self, o: %s) -> %s { let _ = self; o } #[diplomat::attr(not(js), disable)] pub fn g(self) -> Option<%s> { Some(self) } %s}"
                     % (name, name, name, name, ctor))
    # (Dart only) use sites OUTSIDE the enum's own file: an opaque generated before the enums with one static method per enum
    lines.append("    #[diplomat::opaque]\n    #[diplomat::attr(not(dart), disable)]\n    pub struct ZHost;")
    lines.append("    impl ZHost {")
    for name, spec in enums:
        lines.append("        pub fn h_%s(o: %s) -> %s { o }" % (name.lower(), name, name))
    lines.append("    }")
    lines.append("}")
    return "\n".join(lines) + "\n"


# ---------------------------------------------------------------------------------------------
# oracle: rustc


def rust_oracle(b):
    """the macro keeps the enum and adds #[repr(C)] #[derive(Clone, Copy)] (macro/src/lib.rs, Item::Enum arm)"""
    src = ["#![allow(dead_code)]"]
    for name, spec in b.enums:
        src.append("#[repr(C)] #[derive(Clone, Copy)] " + enum_text(name, spec))
    src.append("static T: &[(&str, &[i64])] = &[")
    for name, spec in b.enums:
        src.append('    ("%s", &[%s]),' % (name, ", ".join("%s::V%d as i64" % (name, i) for i in range(len(spec)))))
    src.append("];")
    src.append('fn main() { for (n, vs) in T { let s: Vec<String> = vs.iter().map(|v| v.to_string()).collect(); '
               'println!("{} {}", n, s.join(" ")); } }')
    d = os.path.join(b.dir, "oracle")
    os.makedirs(d, exist_ok=True)
    p = os.path.join(d, "oracle.rs")
    open(p, "w").write("\n".join(src) + "\n")
    r = _run(["rustc", "--edition", "2021", "-O", "-C", "debuginfo=0", "-o", os.path.join(d, "oracle"), p], cwd=d)
    if r.returncode != 0:
        raise MachineryError("rustc rejected the oracle program (validity model wrong?):\n" + r.stderr[-3000:])
    r = _run([os.path.join(d, "oracle")])
    if r.returncode != 0:
        raise MachineryError("oracle program failed: " + r.stderr[-2000:])
    for line in r.stdout.splitlines():
        parts = line.split()
        b.rust[parts[0]] = [int(x) for x in parts[1:]]
    for name, spec in b.enums:
        if name not in b.rust or len(b.rust[name]) != len(spec):
            raise MachineryError("oracle output incomplete for %s" % name)
        if b.rust[name] != resolve(spec):
            # rustc is the ground truth; the python model only filters the space. Disagreement = the filter is wrong.
            raise MachineryError("python discriminant model disagrees with rustc on %s: %s vs %s" % (
                enum_text(name, spec), resolve(spec), b.rust[name]))


# ---------------------------------------------------------------------------------------------
# running the tool, with isolation of rejected / crashing enums


def _tool_once(backend, enums, d):
    os.makedirs(d, exist_ok=True)
    entry = os.path.join(d, "lib.rs")
    open(entry, "w").write(bridge_text(enums))
    out = os.path.join(d, "out")
    if os.path.exists(out):
        shutil.rmtree(out)
    os.makedirs(out)
    return run_tool(backend, entry, out, configs=default_configs(backend), timeout=300), out


def _classify_tool_failure(p):
    if "panicked at" in p.stderr or p.returncode == 101:
        m = re.search(r"panicked at ([^\n]*)\n([^\n]*)", p.stderr)
        return "panic", (m.group(1) + " | " + m.group(2)) if m else p.stderr[-300:]
    if p.returncode == -999:
        return "panic", "TIMEOUT"
    return "reject", p.stderr.strip()[-400:]


def gen_backend(b, backend):
    """returns (out_dir, enums actually generated)"""
    d = os.path.join(b.dir, backend)
    p, out = _tool_once(backend, b.enums, d)
    if p.returncode == 0:
        return out, list(b.enums)
    # isolate: run every enum alone (tiny inputs: ~10 ms each), then the survivors together
    good = []
    for name, spec in b.enums:
        p1, _ = _tool_once(backend, [(name, spec)], os.path.join(d, "single"))
        if p1.returncode == 0:
            good.append((name, spec))
        else:
            kind, msg = _classify_tool_failure(p1)
            (b.panicked if kind == "panic" else b.rejected).setdefault(backend, {})[name] = msg
    if len(good) == len(b.enums):
        kind, msg = _classify_tool_failure(p)
        raise MachineryError("diplomat-tool %s fails on the packed module but on no single enum: %s" % (backend, msg))
    if not good:
        return None, []
    p, out = _tool_once(backend, good, d)
    if p.returncode != 0:
        raise MachineryError("diplomat-tool %s still fails after removing failing enums: %s" % (backend, p.stderr[-600:]))
    return out, good


# ---------------------------------------------------------------------------------------------
# C


_VALUE_ERR = re.compile(r"duplicate case value|enumerator value|overflow in enumeration|not an integer constant|"
                        r"previously used here|redeclaration of enumerator|redefinition of enumerator", re.I)


def _compile_with_isolation(b, backend, build, names, what):
    """build(names) -> CompletedProcess of the compiler. Enums whose generated files appear in error messages are
    removed and recorded as not compiling; value-related diagnostics (duplicate case value, ...) are judged as C11
    failures (two variants cannot have the rustc values if they collide), anything else is a machinery problem."""
    names = list(names)
    bad = {}
    for _ in range(6):
        r = build(names)
        if r.returncode == 0:
            return names, bad
        culprits = {}
        for line in r.stderr.splitlines():
            m = re.search(r"(?:^|/)(E\d+)(?:\.d)?\.(?:h|hpp):\d+:\d+: (?:error|fatal error): (.*)", line)
            if m:
                culprits.setdefault(m.group(1), m.group(2))
            else:
                m = re.search(r"driver\.(?:c|cpp):\d+:\d+: error: (.*)", line)
                if m:
                    m2 = re.search(r"\b(E\d+)(?:_|::)", m.group(1))
                    if m2:
                        culprits.setdefault(m2.group(1), m.group(1))
        culprits = {k: v for k, v in culprits.items() if k in names}
        if not culprits:
            raise MachineryError("%s driver for %s does not compile and no generated enum file is named:\n%s" % (
                what, backend, r.stderr[-3000:]))
        for k, msg in culprits.items():
            if not _VALUE_ERR.search(msg):
                raise MachineryError("%s: generated code for %s does not compile for a reason unrelated to enum values "
                                     "(C09's business): %s" % (backend, k, msg))
            bad[k] = msg
        names = [n for n in names if n not in bad]
        if not names:
            return names, bad
    raise MachineryError("%s driver for %s still does not compile after isolation" % (what, backend))


def observe_c(b, out, enums):
    specs = dict(enums)

    def build(names):
        src = ["#include <stdio.h>"]
        src += ['#include "%s.h"' % n for n in names]
        src.append("static const struct { const char *e; int v; long long x; } T[] = {")
        for n in names:
            for i in range(len(specs[n])):
                src.append('  {"%s", %d, (long long)%s_V%d},' % (n, i, n, i))
        src.append("};")
        src.append('int main(void) { for (size_t i = 0; i < sizeof(T)/sizeof(T[0]); i++) printf("%s %d %lld\\n", T[i].e, T[i].v, T[i].x); return 0; }')
        open(os.path.join(out, "driver.c"), "w").write("\n".join(src) + "\n")
        return _run(["gcc", "-std=c11", "-O0", "-w", "-fmax-errors=0", "-I", out, "-o", os.path.join(out, "driver"),
                     os.path.join(out, "driver.c")])

    names, bad = _compile_with_isolation(b, "c", build, [n for n, _ in enums], "C")
    obs = {}
    for n, msg in bad.items():
        obs[n] = {"compile_error": msg}
    if names:
        r = _run([os.path.join(out, "driver")])
        if r.returncode != 0:
            raise MachineryError("C driver failed: " + r.stderr[-1000:])
        for line in r.stdout.splitlines():
            e, v, x = line.split()
            obs.setdefault(e, {"values": {}})["values"][int(v)] = int(x)
    return obs


# ---------------------------------------------------------------------------------------------
# C++


def observe_cpp(b, out, enums, backend="cpp"):
    specs = dict(enums)

    def build(names):
        src = ["#include <cstdio>", "#include <cstdlib>", "#include <unistd.h>", "#include <sys/wait.h>"]
        src += ['#include "%s.hpp"' % n for n in names]
        src.append("struct Row { const char *e; int v; long long value; long long capi; };")
        src.append("static const Row T[] = {")
        for n in names:
            for i in range(len(specs[n])):
                src.append('  {"%s", %d, (long long)%s::V%d, (long long)diplomat::capi::%s_V%d},' % (n, i, n, i, n, i))
        src.append("};")
        for n in names:
            vals = b.rust[n]
            body = []
            for i, x in enumerate(vals):
                # AsFFI of the wrapper built from the enumerator; FromFFI of AsFFI (round trip); FromFFI of the rustc value
                body.append('  { %s w(%s::V%d); long long a = (long long)w.AsFFI(); printf("A %s %d %%lld\\n", a); fflush(stdout);'
                            ' %s r = %s::FromFFI(w.AsFFI()); printf("R %s %d %%lld\\n", (long long)(%s::Value)r); fflush(stdout);'
                            ' %s q = %s::FromFFI(static_cast<diplomat::capi::%s>(%dLL)); printf("F %s %d %%lld\\n", (long long)(%s::Value)q); fflush(stdout); }'
                            % (n, n, i, n, i, n, n, n, i, n, n, n, n, x, n, i, n))
            src.append("static void t_%s() {\n%s\n}" % (n, "\n".join(body)))
        src.append("typedef void (*Fn)();")
        src.append("static const struct { const char *e; Fn f; } FN[] = {")
        src += ['  {"%s", t_%s},' % (n, n) for n in names]
        src.append("};")
        src.append("""int main() {
  for (size_t i = 0; i < sizeof(T)/sizeof(T[0]); i++) printf("T %s %d %lld %lld\\n", T[i].e, T[i].v, T[i].value, T[i].capi);
  fflush(stdout);
  for (size_t i = 0; i < sizeof(FN)/sizeof(FN[0]); i++) {
    pid_t p = fork();
    if (p == 0) { FN[i].f(); fflush(stdout); _exit(0); }
    int st = 0; waitpid(p, &st, 0);
    if (!(WIFEXITED(st) && WEXITSTATUS(st) == 0)) { printf("X %s %d\\n", FN[i].e, WIFSIGNALED(st) ? WTERMSIG(st) : -1); fflush(stdout); }
  }
  return 0;
}""")
        open(os.path.join(out, "driver.cpp"), "w").write("\n".join(src) + "\n")
        return _run(["g++", "-std=c++17", "-O0", "-w", "-fmax-errors=0", "-I", out, "-o", os.path.join(out, "driver"),
                     os.path.join(out, "driver.cpp")], timeout=1200)

    names, bad = _compile_with_isolation(b, backend, build, [n for n, _ in enums], "C++")
    obs = {}
    for n, msg in bad.items():
        obs[n] = {"compile_error": msg}
    if names:
        r = _run([os.path.join(out, "driver")], timeout=600)
        if r.returncode != 0:
            raise MachineryError("C++ driver failed: rc=%s %s" % (r.returncode, r.stderr[-1000:]))
        for line in r.stdout.splitlines():
            p = line.split()
            o = obs.setdefault(p[1], {"value": {}, "capi": {}, "asffi": {}, "roundtrip": {}, "fromffi": {}, "crash": None})
            if p[0] == "T":
                o["value"][int(p[2])] = int(p[3])
                o["capi"][int(p[2])] = int(p[4])
            elif p[0] == "A":
                o["asffi"][int(p[2])] = int(p[3])
            elif p[0] == "R":
                o["roundtrip"][int(p[2])] = int(p[3])
            elif p[0] == "F":
                o["fromffi"][int(p[2])] = int(p[3])
            elif p[0] == "X":
                o["crash"] = int(p[2])
    return obs


# ---------------------------------------------------------------------------------------------
# JS

JS_STUB = """// stub of the wasm module: every export is a function recording its arguments and answering ctl.ret
export const ctl = { ret: 0, calls: [], mem: null, next: 1024 };
const memory = new WebAssembly.Memory({ initial: 1 });
const wasm = new Proxy({}, {
  get(t, p) {
    if (p === "memory") return memory;
    if (p === "then") return undefined;
    if (p === "diplomat_alloc") return (size, align) => { const a = Math.max(1, align); const q = Math.ceil(ctl.next / a) * a; ctl.next = q + Math.max(1, size); if (ctl.next > 60000) ctl.next = 1024; return q; };
    if (p === "diplomat_free") return () => {};
    return (...args) => {
      ctl.calls.push([String(p), args]);
      // a method returning Option<Enum>: Rust writes the i32 discriminant and the is_ok flag into the receive buffer
      if (ctl.mem !== null && String(p).endsWith("_g")) { const dv = new DataView(memory.buffer); dv.setInt32(args[0], ctl.mem, true); dv.setUint8(args[0] + 4, 1); return undefined; }
      return ctl.ret;
    };
  },
});
export default wasm;
"""

JS_DRIVER = """import fs from "fs";
import * as rt from "./diplomat-runtime.mjs";
import { ctl } from "./diplomat-wasm.mjs";
const spec = JSON.parse(fs.readFileSync(process.argv[2], "utf8"));
const out = {};
function nameOf(E, names, x) { const r = []; for (const k of names) if (E[k] === x) r.push(k); return r; }
for (const [name, vals] of spec) {
  const o = { variants: [] };
  out[name] = o;
  let E;
  try { E = (await import("./" + name + ".mjs"))[name]; } catch (e) { o.import_error = String(e); continue; }
  if (typeof E !== "function") { o.import_error = "no export " + name; continue; }
  const names = vals.map((_, i) => "V" + i);
  o.entries = [...E.getAllEntries()];
  for (let i = 0; i < vals.length; i++) {
    const V = names[i], n = vals[i], r = {};
    const obj = E[V];
    r.defined = obj instanceof E;
    try { r.ffi = obj.ffiValue; } catch (e) { r.ffi_err = String(e); }
    try { r.own_value = obj.value; } catch (e) { r.own_value_err = String(e); }
    try { const x = new E(rt.internalConstructor, n); r.from = nameOf(E, names, x); r.from_value = x === undefined ? null : x.value; r.from_ffi = x.ffiValue; }
    catch (e) { r.from_err = String(e); }
    // (should the lookup wrongly reach a Rust constructor, the wasm side answers with a different variant)
    ctl.ret = vals[(i + 1) % vals.length]; ctl.calls = [];
    try { const x = E.fromValue(V); r.by_name = nameOf(E, names, x); } catch (e) { r.by_name_err = String(e); }
    // the generated method: f(self = V0, o = V) with the wasm side answering n
    try {
      ctl.calls = []; ctl.ret = n;
      const y = E[names[0]].f(obj);
      r.call = ctl.calls.slice();
      r.ret = nameOf(E, names, y);
      r.ret_value = (y === undefined || y === null) ? null : y.value;
    } catch (e) { r.call_err = String(e); }
    // through memory: g() -> Option<E>, the export writes n and is_ok = 1 into the receive buffer
    try { ctl.calls = []; ctl.mem = n; const z = E[names[0]].g(); r.mem = nameOf(E, names, z); r.mem_value = (z === undefined || z === null) ? null : z.value; }
    catch (e) { r.mem_err = String(e); }
    ctl.mem = null;
    // self position: f(self = V, o = V0)
    try { ctl.calls = []; ctl.ret = vals[0]; E[V].f(E[names[0]]); r.self_call = ctl.calls.slice(); } catch (e) { r.self_call_err = String(e); }
    o.variants.push(r);
  }
}
fs.writeFileSync(process.argv[3], JSON.stringify(out));
"""


def observe_js(b, out, enums):
    open(os.path.join(out, "diplomat-wasm.mjs"), "w").write(JS_STUB)
    open(os.path.join(out, "c11-driver.mjs"), "w").write(JS_DRIVER)
    spec = [[n, b.rust[n]] for n, _ in enums]
    sp = os.path.join(out, "c11-spec.json")
    json.dump(spec, open(sp, "w"))
    res = os.path.join(out, "c11-out.json")
    r = _run(["node", os.path.join(out, "c11-driver.mjs"), sp, res], cwd=out, timeout=600)
    if r.returncode != 0 or not os.path.exists(res):
        raise MachineryError("JS driver failed: rc=%s %s" % (r.returncode, r.stderr[-2000:]))
    obs = json.load(open(res))
    for n, _ in enums:
        src = open(os.path.join(out, n + ".mjs")).read()
        m = re.search(r"static #objectValues = ([\[{])", src)
        obs[n]["form"] = {"[": "array", "{": "object"}.get(m.group(1)) if m else "?"
    return obs


# ---------------------------------------------------------------------------------------------
# Dart (interpreted): exactly the forms of templates/dart/enum.dart.jinja + dart/mod.rs use-site expressions


class Undecided(Exception):
    pass


_IDENT = re.compile(r"[A-Za-z_]\w*")
_DART_HEAD = re.compile(r"^enum (\w+) \{\n(.*?);\n", re.S | re.M)
_DART_FFI = re.compile(r"\n  int get _ffi \{\n    switch \(this\) \{\n(.*?)\n    \}\n  \}\n", re.S)
_DART_CASE = re.compile(r"\s*case (\w+):\n\s*return (-?\d+);")
_DART_CALL = re.compile(r"\n  (\w+) f\((\w+) o\) \{\n    final result = _(\w+)_f\((\w+), o\.(\w+)\);\n    return ([^\n]*);\n  \}\n")


def parse_dart(name, text):
    m = _DART_HEAD.search(text)
    if not m or m.group(1) != name:
        raise Undecided("dart %s: enum header / variant list not found" % name)
    variants = []
    for part in m.group(2).split(","):
        part = part.strip()
        if not _IDENT.fullmatch(part):
            raise Undecided("dart %s: variant declaration %r" % (name, part))
        variants.append(part)
    rest = text[m.end():]
    ffi = None
    g = _DART_FFI.search(rest)
    if g:
        ffi = {}
        body = g.group(1)
        pos = 0
        for c in _DART_CASE.finditer(body):
            if c.start() != pos:
                raise Undecided("dart %s: _ffi switch body %r" % (name, body[pos:c.start()]))
            pos = c.end()
            if c.group(1) in ffi:
                raise Undecided("dart %s: duplicate case %s in _ffi" % (name, c.group(1)))
            ffi[c.group(1)] = int(c.group(2))
        if body[pos:].strip():
            raise Undecided("dart %s: _ffi switch tail %r" % (name, body[pos:]))
    elif "_ffi {" in rest or "get _ffi" in rest:
        raise Undecided("dart %s: `_ffi` getter present in a form that is not the template's switch" % name)
    call = _DART_CALL.search(rest)
    if not call or call.group(1) != name or call.group(2) != name or call.group(3) != name:
        raise Undecided("dart %s: method f not in the expected form" % name)
    self_form, param_form, ret = call.group(4), call.group(5), call.group(6)
    for f in (self_form, param_form):
        if f not in ("index", "_ffi"):
            raise Undecided("dart %s: to-FFI expression %r" % (name, f))
    if ret == "%s.values[result]" % name:
        ret_form = "values[n]"
    elif ret == "%s.values.firstWhere((v) => v._ffi == result)" % name:
        ret_form = "firstWhere"
    else:
        raise Undecided("dart %s: from-FFI expression %r" % (name, ret))
    if ffi is None and "_ffi" in (self_form, param_form) or ffi is None and ret_form == "firstWhere":
        raise Undecided("dart %s: `_ffi` used but no getter generated (would not compile)" % name)
    if ffi is not None and set(ffi) != set(variants):
        raise Undecided("dart %s: `_ffi` switch is not exhaustive over the variants (would not compile)" % name)
    return {"variants": variants, "ffi": ffi, "self_form": self_form, "param_form": param_form, "ret_form": ret_form}


_DART_HOST = re.compile(r"\n  static (\w+) h(\w+)\((\w+) o\) \{\n    final result = _ZHost_h_(\w+)\(o\.(\w+)\);\n    return ([^\n]*);\n  \}\n")


def parse_dart_host(out):
    """{enum name lower-cased: (to-FFI form, from-FFI form)} from ZHost.g.dart"""
    p = os.path.join(out, "ZHost.g.dart")
    if not os.path.exists(p):
        raise Undecided("dart: ZHost.g.dart not generated")
    res = {}
    for m in _DART_HOST.finditer(open(p).read()):
        ty, _camel, pty, sym, form, ret = m.groups()
        if ty != pty or form not in ("index", "_ffi"):
            raise Undecided("dart ZHost: method for %s in an unexpected form" % sym)
        if ret == "%s.values[result]" % ty:
            rf = "values[n]"
        elif ret == "%s.values.firstWhere((v) => v._ffi == result)" % ty:
            rf = "firstWhere"
        else:
            raise Undecided("dart ZHost: from-FFI expression %r" % ret)
        res[sym] = (ty, form, rf)
    return res


def observe_dart(b, out, enums):
    obs = {}
    host = parse_dart_host(out)
    for name, spec in enums:
        p = os.path.join(out, name + ".g.dart")
        if not os.path.exists(p):
            raise Undecided("dart: %s.g.dart not generated" % name)
        d = parse_dart(name, open(p).read())
        want = ["v%d" % i for i in range(len(spec))]
        if sorted(d["variants"]) != sorted(want):
            raise Undecided("dart %s: variant names %s, expected %s" % (name, d["variants"], want))

        def to_native(v, form):
            return d["variants"].index(v) if form == "index" else d["ffi"][v]

        def from_native(n):
            if d["ret_form"] == "values[n]":
                return d["variants"][n] if 0 <= n < len(d["variants"]) else "RangeError"
            for v in d["variants"]:
                if d["ffi"][v] == n:
                    return v
            return "StateError"

        h = host.get(name.lower())
        if h is None or h[0] != name:
            raise Undecided("dart: no ZHost method for enum %s" % name)
        if d["ffi"] is None and (h[1] == "_ffi" or h[2] == "firstWhere"):
            raise Undecided("dart ZHost: `_ffi` of %s used but the enum has no such getter (would not compile)" % name)

        def from_native_host(n):
            if h[2] == "values[n]":
                return d["variants"][n] if 0 <= n < len(d["variants"]) else "RangeError"
            for v in d["variants"]:
                if d["ffi"][v] == n:
                    return v
            return "StateError"

        o = {"form": "%s/%s/%s host:%s/%s" % (d["self_form"], d["param_form"], d["ret_form"], h[1], h[2]), "variants": []}
        for i, n in enumerate(b.rust[name]):
            v = "v%d" % i
            o["variants"].append({"self": to_native(v, d["self_form"]), "param": to_native(v, d["param_form"]),
                                  "from": from_native(n), "host_param": to_native(v, h[1]), "host_from": from_native_host(n)})
        obs[name] = o
    return obs


# ---------------------------------------------------------------------------------------------
# Kotlin (interpreted): exactly the forms of templates/kotlin/Enum.kt.jinja


_KT_HEAD = re.compile(r"\nenum class (\w+)(\(val inner: Int\))? \{\n(.*?);\n", re.S)
_KT_ENTRY = re.compile(r"(\w+)\((-?\d+)\)")
_KT_TO = re.compile(r"\n    fun toNative\(\): Int \{\n        return this\.(\w+)\n    \}\n")
_KT_FROM = re.compile(r"\n        fun fromNative\(native: Int\): (\w+) \{\n(.*?)\n        \}\n", re.S)
_KT_WHEN = re.compile(r"\s*return when \(native\) \{\n(.*?)\n\s*else -> throw RuntimeException\([^\n]*\)\n\s*\}", re.S)
_KT_ARM = re.compile(r"\s*(-?\d+) -> (\w+)")
_KT_USE = re.compile(r"\n    fun f\(o: (\w+)\): (\w+) \{\n(.*?)\n    \}\n", re.S)


def parse_kotlin(name, text):
    m = _KT_HEAD.search(text)
    if not m or m.group(1) != name:
        raise Undecided("kotlin %s: enum class header / entries not found" % name)
    with_inner = bool(m.group(2))
    entries = []
    for part in m.group(3).split(",\n"):
        part = part.strip()
        if with_inner:
            e = _KT_ENTRY.fullmatch(part)
            if not e:
                raise Undecided("kotlin %s: entry %r" % (name, part))
            entries.append((e.group(1), int(e.group(2))))
        else:
            if not _IDENT.fullmatch(part):
                raise Undecided("kotlin %s: entry %r" % (name, part))
            entries.append((part, None))
    rest = text[m.end():]
    t = _KT_TO.search(rest)
    if not t or t.group(1) not in ("inner", "ordinal"):
        raise Undecided("kotlin %s: toNative body" % name)
    to_form = t.group(1)
    if to_form == "inner" and not with_inner:
        raise Undecided("kotlin %s: toNative uses inner but the class has no such property" % name)
    f = _KT_FROM.search(rest)
    if not f or f.group(1) != name:
        raise Undecided("kotlin %s: fromNative not found" % name)
    body = f.group(2)
    if body.strip() == "return %s.entries[native]" % name:
        from_form, table = "entries[n]", None
    else:
        w = _KT_WHEN.fullmatch(body)
        if not w:
            raise Undecided("kotlin %s: fromNative body %r" % (name, body[:200]))
        from_form, table = "when", []
        for line in w.group(1).split("\n"):
            a = _KT_ARM.fullmatch(line)
            if not a:
                raise Undecided("kotlin %s: when arm %r" % (name, line))
            table.append((int(a.group(1)), a.group(2)))
    use = _KT_USE.search(rest)
    if not use or use.group(1) != name or use.group(2) != name:
        raise Undecided("kotlin %s: method f not found" % name)
    ub = use.group(3)
    if "lib.%s_f(this.toNative(), o.toNative());" % name not in ub or "return (%s.fromNative(returnVal))" % name not in ub:
        raise Undecided("kotlin %s: use-site conversions in f: %r" % (name, ub))
    return {"entries": entries, "to_form": to_form, "from_form": from_form, "table": table}


def observe_kotlin(b, out, enums):
    obs = {}
    base = os.path.join(out, "src", "main", "kotlin", "dev", "verif", "somelib")
    for name, spec in enums:
        p = os.path.join(base, name + ".kt")
        if not os.path.exists(p):
            raise Undecided("kotlin: %s.kt not generated" % name)
        d = parse_kotlin(name, open(p).read())
        names = [e[0] for e in d["entries"]]
        want = ["V%d" % i for i in range(len(spec))]
        if sorted(names) != sorted(want):
            raise Undecided("kotlin %s: entries %s, expected %s" % (name, names, want))

        def to_native(v):
            i = names.index(v)
            return i if d["to_form"] == "ordinal" else d["entries"][i][1]

        def from_native(n):
            if d["from_form"] == "entries[n]":
                return names[n] if 0 <= n < len(names) else "IndexOutOfBounds"
            for k, v in d["table"]:  # first matching arm wins in a Kotlin `when`
                if k == n:
                    return v
            return "RuntimeException"

        o = {"form": "%s/%s" % (d["to_form"], d["from_form"]), "variants": []}
        for i, n in enumerate(b.rust[name]):
            o["variants"].append({"to": to_native("V%d" % i), "from": from_native(n)})
        obs[name] = o
    return obs


# ---------------------------------------------------------------------------------------------
# nanobind (binding table interpreted; headers compiled or proven identical to the cpp backend's)


_NB_VALUE = re.compile(r"\s*\.value\(\"(\w+)\", (\w+)::(\w+)\)")
_NB_CXX = re.compile(r"V(\d+)")


def observe_nanobind(b, out, enums, cpp_out, cpp_obs):
    src = open(os.path.join(out, "somelib_ext.cpp")).read()
    inc = os.path.join(out, "include")
    identical = cpp_out is not None
    if identical:
        for name, _ in enums:
            for ext in (".d.hpp", ".hpp"):
                a, c = os.path.join(inc, name + ext), os.path.join(cpp_out, name + ext)
                if not (os.path.exists(a) and os.path.exists(c) and open(a, "rb").read() == open(c, "rb").read()):
                    identical = False
                    break
            if not identical:
                break
    b.nb_headers_identical = identical
    if identical and all(n in cpp_obs for n, _ in enums):
        hdr = cpp_obs
    else:
        hdr = observe_cpp(b, inc, enums, backend="nanobind")
    obs = {}
    blocks = {}
    for m in re.finditer(r"\n\s*nb::enum_<(\w+)::Value>\(e_class, \"(\w+)\"\)\n((?:\s*\.value\([^\n]*\n)*)\s*\.export_values\(\);", src):
        if m.group(1) != m.group(2) or m.group(1) in blocks:
            raise Undecided("nanobind: nb::enum_ block header %r" % m.group(0)[:120])
        blocks[m.group(1)] = m.group(3).rstrip("\n")
    if src.count("nb::enum_<") != len(blocks):
        raise Undecided("nanobind: %d nb::enum_ blocks, %d understood" % (src.count("nb::enum_<"), len(blocks)))
    for name, spec in enums:
        if name not in blocks:
            raise Undecided("nanobind %s: nb::enum_ block not found" % name)
        table = []
        for line in blocks[name].split("\n"):
            a = _NB_VALUE.fullmatch(line)
            if not a or a.group(2) != name:
                raise Undecided("nanobind %s: line %r" % (name, line))
            table.append((a.group(1), a.group(3)))
        want = ["V%d" % i for i in range(len(spec))]
        if sorted(t[0] for t in table) != sorted(want):
            raise Undecided("nanobind %s: python names %s, expected %s" % (name, [t[0] for t in table], want))
        h = hdr[name]
        if "compile_error" in h:
            obs[name] = {"compile_error": h["compile_error"]}
            continue
        o = {"variants": [], "hdr": h if hdr is not cpp_obs else None}
        cppval = {}
        for py, cxx in table:
            k = _NB_CXX.fullmatch(cxx)
            if not k or int(k.group(1)) not in h["value"]:
                raise Undecided("nanobind %s: enumerator %s not known to the C++ header" % (name, cxx))
            cppval[py] = h["value"][int(k.group(1))]
        for i, n in enumerate(b.rust[name]):
            back = [py for py, _ in table if cppval[py] == n]
            o["variants"].append({"to": cppval["V%d" % i], "from": back[0] if back else "ValueError", "cxx": dict(table)["V%d" % i]})
        obs[name] = o
    return obs


# ---------------------------------------------------------------------------------------------
# judging


def judge(b):
    J = b.judgements

    def add(name, backend, direction, i, ok, expected, observed):
        J.append((name, backend, direction, i, bool(ok), expected, observed))

    for name, spec in b.enums:
        rv = b.rust[name]
        vn = ["V%d" % i for i in range(len(spec))]
        # C
        o = b.obs.get("c", {}).get(name)
        if o is not None:
            if "compile_error" in o:
                add(name, "c", "compile", 0, False, "compiles", o["compile_error"])
            else:
                for i, n in enumerate(rv):
                    add(name, "c", "to-ffi", i, o["values"].get(i) == n, n, o["values"].get(i))
        # C++ (and nanobind's own headers when they differ)
        for be in ("cpp",):
            o = b.obs.get(be, {}).get(name)
            if o is None:
                continue
            _judge_cpp(add, name, be, o, rv)
        # JS
        o = b.obs.get("js", {}).get(name)
        if o is not None:
            if "import_error" in o:
                add(name, "js", "compile", 0, False, "module loads", o["import_error"])
            else:
                ent = [list(e) for e in o.get("entries", [])]
                for i, n in enumerate(rv):
                    r = o["variants"][i]
                    call = r.get("call")
                    selfc = r.get("self_call")
                    to_obs = {"ffiValue": r.get("ffi"), "entry": dict((k, v) for k, v in ent).get(vn[i]),
                              "param": call[0][1][1] if call and len(call) == 1 and len(call[0][1]) == 2 else r.get("call_err", call),
                              "self": selfc[0][1][0] if selfc and len(selfc) == 1 and len(selfc[0][1]) == 2 else r.get("self_call_err", selfc)}
                    add(name, "js", "to-ffi", i, r.get("defined") and all(v == n for v in to_obs.values()), n, to_obs)
                    from_obs = {"ctor": r.get("from", r.get("from_err")), "ctor.value": r.get("from_value"),
                                "method": r.get("ret", r.get("call_err")), "method.value": r.get("ret_value"),
                                "own.value": r.get("own_value", r.get("own_value_err")), "fromValue(name)": r.get("by_name", r.get("by_name_err")),
                                "Option<E> return (read from memory)": r.get("mem", r.get("mem_err")), "Option<E>.value": r.get("mem_value")}
                    ok = (from_obs["ctor"] == [vn[i]] and from_obs["ctor.value"] == vn[i] and from_obs["method"] == [vn[i]]
                          and from_obs["Option<E> return (read from memory)"] == [vn[i]] and from_obs["Option<E>.value"] == vn[i]
                          and from_obs["method.value"] == vn[i] and from_obs["own.value"] == vn[i] and from_obs["fromValue(name)"] == [vn[i]])
                    add(name, "js", "from-ffi", i, ok, vn[i], from_obs)
        # Dart
        o = b.obs.get("dart", {}).get(name)
        if o is not None:
            for i, n in enumerate(rv):
                r = o["variants"][i]
                add(name, "dart", "to-ffi", i, r["self"] == n and r["param"] == n and r["host_param"] == n, n,
                    {"self": r["self"], "param": r["param"], "param of another type's method": r["host_param"], "form": o["form"]})
                add(name, "dart", "from-ffi", i, r["from"] == "v%d" % i and r["host_from"] == "v%d" % i, "v%d" % i,
                    {"from": r["from"], "returned by another type's method": r["host_from"], "form": o["form"]})
        # Kotlin
        o = b.obs.get("kotlin", {}).get(name)
        if o is not None:
            for i, n in enumerate(rv):
                r = o["variants"][i]
                add(name, "kotlin", "to-ffi", i, r["to"] == n, n, {"toNative": r["to"], "form": o["form"]})
                add(name, "kotlin", "from-ffi", i, r["from"] == vn[i], vn[i], {"fromNative": r["from"], "form": o["form"]})
        # nanobind
        o = b.obs.get("nanobind", {}).get(name)
        if o is not None:
            if "compile_error" in o:
                add(name, "nanobind", "compile", 0, False, "compiles", o["compile_error"])
            else:
                if o.get("hdr"):
                    _judge_cpp(add, name, "nanobind", o["hdr"], rv)
                for i, n in enumerate(rv):
                    r = o["variants"][i]
                    add(name, "nanobind", "to-ffi", i, r["to"] == n and r["cxx"] == vn[i], n, {"value": r["to"], "enumerator": r["cxx"]})
                    add(name, "nanobind", "from-ffi", i, r["from"] == vn[i], vn[i], {"name": r["from"]})


def _judge_cpp(add, name, be, o, rv):
    if "compile_error" in o:
        add(name, be, "compile", 0, False, "compiles", o["compile_error"])
        return
    for i, n in enumerate(rv):
        to_obs = {"Value": o["value"].get(i), "capi": o["capi"].get(i), "AsFFI": o["asffi"].get(i)}
        add(name, be, "to-ffi", i, all(v == n for v in to_obs.values()), n, to_obs)
        # FromFFI returns the wrapper whose Value must be the enumerator V_i, i.e. compare with the header's own V_i
        fr = {"FromFFI(rustc)": o["fromffi"].get(i, "abort" if o["crash"] is not None else None),
              "FromFFI(AsFFI(V))": o["roundtrip"].get(i, "abort" if o["crash"] is not None else None), "V": o["value"].get(i)}
        add(name, be, "from-ffi", i, fr["FromFFI(rustc)"] == o["value"].get(i) and fr["FromFFI(AsFFI(V))"] == o["value"].get(i),
            "Value::V%d" % i, fr)


# ---------------------------------------------------------------------------------------------
# one batch end to end


def process_batch(b, keep=False, backends=None):
    t0 = time.time()
    os.makedirs(b.dir, exist_ok=True)
    rust_oracle(b)
    b.timing["rustc"] = time.time() - t0
    outs, gens = {}, {}
    for be in BACKENDS6:
        t = time.time()
        if backends is not None and be not in backends:
            outs[be], gens[be] = None, []
        else:
            outs[be], gens[be] = gen_backend(b, be)
            b.generated += len(gens[be])
        b.timing["tool-" + be] = time.time() - t
    try:
        t = time.time()
        if gens["c"]:
            b.obs["c"] = observe_c(b, outs["c"], gens["c"])
        b.timing["gcc"] = time.time() - t
        t = time.time()
        if gens["cpp"]:
            b.obs["cpp"] = observe_cpp(b, outs["cpp"], gens["cpp"])
        b.timing["g++"] = time.time() - t
        t = time.time()
        if gens["js"]:
            b.obs["js"] = observe_js(b, outs["js"], gens["js"])
        b.timing["node"] = time.time() - t
        t = time.time()
        if gens["dart"]:
            b.obs["dart"] = observe_dart(b, outs["dart"], gens["dart"])
        if gens["kotlin"]:
            b.obs["kotlin"] = observe_kotlin(b, outs["kotlin"], gens["kotlin"])
        if gens["nanobind"]:
            same = gens["nanobind"] == gens["cpp"]
            b.obs["nanobind"] = observe_nanobind(b, outs["nanobind"], gens["nanobind"], outs["cpp"] if same else None,
                                                 b.obs.get("cpp", {}))
        b.timing["parse"] = time.time() - t
    except Undecided as e:
        raise MachineryError("UNDECIDED: %s (batch dir %s)" % (e, b.dir))
    judge(b)
    for be in ("js", "dart", "kotlin"):
        for name, o in b.obs.get(be, {}).items():
            f = o.get("form")
            if f:
                k = "%s:%s" % (be, f)
                b.forms[k] = b.forms.get(k, 0) + 1
    b.timing["total"] = time.time() - t0
    failed = any(not j[4] for j in b.judgements)
    if not keep and not failed:
        shutil.rmtree(b.dir, ignore_errors=True)
    elif not keep:
        # keep the inputs and small outputs of a failing batch, drop binaries
        for root, _, files in os.walk(b.dir):
            for f in files:
                if f in ("driver", "oracle"):
                    os.remove(os.path.join(root, f))
    return b


def snippet(backend, name, bdir):
    """generated text of one enum for the witness"""
    paths = {"c": ["c/out/%s.d.h"], "cpp": ["cpp/out/%s.d.hpp", "cpp/out/%s.hpp"], "js": ["js/out/%s.mjs"], "dart": ["dart/out/%s.g.dart"],
             "kotlin": ["kotlin/out/src/main/kotlin/dev/verif/somelib/%s.kt"], "nanobind": ["nanobind/out/include/%s.d.hpp"]}
    out = {}
    for p in paths.get(backend, []):
        fp = os.path.join(bdir, p % name)
        if os.path.exists(fp):
            out[p % name] = open(fp, errors="replace").read()[:6000]
    if backend == "nanobind":
        fp = os.path.join(bdir, "nanobind/out/somelib_ext.cpp")
        if os.path.exists(fp):
            m = re.search(r"nb::enum_<%s::Value>.*?export_values\(\);" % name, open(fp).read(), re.S)
            if m:
                out["somelib_ext.cpp"] = m.group(0)
    return out


def failures_of(b):
    """(backend, direction) -> name -> list of failing judgements"""
    out = {}
    for name, be, direction, i, ok, exp, obs in b.judgements:
        if not ok:
            out.setdefault((be, direction), {}).setdefault(name, []).append({"variant": "V%d" % i, "expected": exp, "observed": obs})
    return out


# ---------------------------------------------------------------------------------------------


def run(tier):
    rep = Reporter("C11", tier, "exploration")
    build_tool()
    wd = workdir("C11")
    t_start = time.time()
    valid, invalid, raw = enum_space(tier)
    named = [("E%d" % k, spec) for k, spec in enumerate(valid)]
    specs = dict(named)
    n_dup = sum(1 for s in invalid if why_invalid(s) == "duplicate")
    print("C11 %s: space raw=%d valid=%d skipped: duplicate discriminant (rustc E0081)=%d, implicit value past i32::MAX (outside domain)=%d" % (
        tier, raw, len(valid), n_dup, len(invalid) - n_dup))
    if not named:
        raise MachineryError("empty enum space")
    digest = sha("\n".join(enum_text(n, s) for n, s in named))

    # the validity filter itself is checked against rustc on the small end of the space: every rejected (duplicate value) n<=3 enum must be
    # rejected by rustc too (accepted ones are compiled by the oracle anyway)
    small = [s for s in invalid if len(s) <= 3 and why_invalid(s) == "duplicate"]
    src = "\n".join("#[repr(C)] " + enum_text("X%d" % i, s) for i, s in enumerate(small)) + "\nfn main() {}\n"
    p = os.path.join(wd, "invalid.rs")
    open(p, "w").write(src)
    r = _run(["rustc", "--edition", "2021", "--error-format=short", "--emit=metadata", "-o", os.path.join(wd, "invalid.rmeta"), p], cwd=wd)
    errlines = set(int(m.group(1)) for m in re.finditer(r"invalid\.rs:(\d+):\d+: error", r.stderr))
    missing = [small[i] for i in range(len(small)) if (i + 1) not in errlines]
    if r.returncode == 0 or missing:
        raise MachineryError("validity filter too strict: rustc accepts %s" % [enum_text("X", s) for s in missing[:5]])
    inv_checked = len(small)

    bs = min(BATCH_MAX, max(8, -(-len(named) // 16)))
    batches = [Batch(i, named[k:k + bs], wd) for i, k in enumerate(range(0, len(named), bs))]
    done = pmap(process_batch, batches)

    # ---- aggregate
    evaluations = sum(len(b.judgements) for b in done)
    per_backend = {}
    for b in done:
        for j in b.judgements:
            per_backend[j[1]] = per_backend.get(j[1], 0) + 1
    forms = {}
    for b in done:
        for k, v in b.forms.items():
            forms[k] = forms.get(k, 0) + v
    rejected, panicked = {}, {}
    for b in done:
        for src, dst in ((b.rejected, rejected), (b.panicked, panicked)):
            for be, m in src.items():
                for name, msg in m.items():
                    dst.setdefault(be, []).append((name, enum_text(name, specs[name]), msg))
    for be, lst in sorted(rejected.items()):
        print("C11: backend %s REJECTED %d valid enums (outside C11, not judged); first: %s :: %s" % (be, len(lst), lst[0][1], lst[0][2][:200]))
    for be, lst in sorted(panicked.items()):
        print("C11: backend %s PANICKED on %d enums (C15's business, not judged); first: %s :: %s" % (be, len(lst), lst[0][1], lst[0][2][:200]))

    # ---- violations: one per (backend, direction, shape class), witness = first (= smallest) failing enum
    classes = {}
    for b in done:
        for (be, direction), m in failures_of(b).items():
            for name, fl in m.items():
                key = "C11|%s|%s|%s" % (be, direction, shape_class(specs[name]))
                c = classes.setdefault(key, {"backend": be, "direction": direction, "enums": []})
                c["enums"].append((int(name[1:]), name, fl, b))
    def confirm(key):
        c = classes[key]
        c["enums"].sort(key=lambda t: t[0])
        _, name, fl, _b = c["enums"][0]
        spec = specs[name]
        # determinism + packing independence: the minimal enum alone, in a module of its own, must fail the same way
        # (the enum keeps its name: whether it carries the JS constructor method is a function of the name)
        solo = Batch(0, [(name, spec)], os.path.join(wd, "confirm-" + sha(key)))
        process_batch(solo, keep=True, backends={"cpp", "nanobind"} if c["backend"] == "nanobind" else {c["backend"]})
        sf = failures_of(solo).get((c["backend"], c["direction"]), {}).get(name)
        if sf != fl:
            raise MachineryError("failure of %s for %s not reproduced identically when run alone: packed=%s alone=%s" % (
                enum_text(name, spec), key, json.dumps(fl)[:600], json.dumps(sf)[:600]))
        witness = {
            "enum": enum_text(name, spec), "spec": list(spec), "rustc_values": solo.rust[name], "backend": c["backend"],
            "direction": c["direction"], "shape_class": shape_class(spec), "failing": sf,
            "input_file": bridge_text([(name, spec)]),
            "command": "diplomat-tool %s <out> --entry lib.rs -s %s" % (c["backend"], " ".join("--config " + x for x in default_configs(c["backend"]))),
            "generated": snippet(c["backend"], name, solo.dir),
            "name": name, "failing_enums_in_class": len(c["enums"]),
            "more_examples": [enum_text(n, specs[n]) for _, n, _, _ in c["enums"][1:6]],
        }
        f0 = sf[0]
        what = "%s: %s of %s.%s: expected %s, observed %s (%d enums of this shape fail)" % (
            c["backend"], c["direction"], enum_text("E", spec), f0["variant"], f0["expected"], json.dumps(f0["observed"]), len(c["enums"]))
        shutil.rmtree(solo.dir, ignore_errors=True)
        return key, witness, what

    for key, witness, what in pmap(confirm, sorted(classes)):
        rep.violation(key, witness, what)

    rust_vectors = set()
    samples = []
    for b in done:
        for name, spec in b.enums:
            rust_vectors.add(tuple(b.rust[name]))
    pick = [named[0], named[len(named) // 7], named[len(named) // 3], named[len(named) // 2], named[-1]]
    byname = {}
    for b in done:
        byname.update(b.rust)
    for name, spec in pick:
        samples.append({"enum": enum_text(name, spec), "rustc": byname[name], "shape": shape_class(spec)})
    shapes = {}
    for name, spec in named:
        s = shape_class(spec)
        shapes[s] = shapes.get(s, 0) + 1
    timing = {}
    for b in done:
        for k, v in b.timing.items():
            timing[k] = round(timing.get(k, 0) + v, 1)
    nb_ident = sum(1 for b in done if b.nb_headers_identical)

    # determinism guard across runs: same tier + same grammar => same space
    prev = os.path.join(VERIF, "evidence", "C11.json")
    if os.path.exists(prev):
        try:
            pc = json.load(open(prev))
            pcov = pc.get("coverage", {})
            if pc.get("tier") == tier and pcov.get("grammar_version") == GRAMMAR_VERSION and pcov.get("space_digest") not in (None, digest):
                raise MachineryError("enumeration is not a pure function of (tier, grammar version): digest %s vs previous %s" % (
                    digest, pcov.get("space_digest")))
        except (ValueError, KeyError):
            pass

    by_n = {}
    for s in valid:
        by_n[len(s)] = by_n.get(len(s), 0) + 1
    cov = {
        "states": len(named),
        "transitions": sum(b.generated for b in done),
        "transitions_rule": "(enum, backend) artefacts generated by the real diplomat-tool and observed",
        "evaluations": evaluations,
        "evaluations_per_backend": per_backend,
        "distinct_nontrivial": sum(1 for s in valid if nontrivial(s)),
        "rule": "one enum = one distinct sequence of (implicit | explicit value) per variant; evaluation = one (enum, backend, variant, "
                "direction) judgement against rustc's value; non-trivial = at least one explicit discriminant different from the value "
                "the variant would get implicitly",
        "exhaustive": True,
        "distinct_outcomes": len(rust_vectors),
        "distinct_outcomes_rule": "distinct discriminant vectors printed by the rustc oracle; rendering forms seen per backend in `forms`",
        "forms": forms,
        "bound": {"sizes": {str(n): {"alphabet": "all-implicit only" if not a else ["implicit"] + a, "valid_enums": by_n.get(n, 0)}
                            for n, a in tiers(tier)},
                  "raw": raw, "rustc_valid": len(valid), "skipped_duplicate_value": n_dup, "skipped_outside_i32": len(invalid) - n_dup,
                  "duplicates_confirmed_rejected_by_rustc(n<=3)": inv_checked,
                  "use_sites": "method f(self, o: E) -> E on every enum: self, parameter, return value",
                  "batches": len(done), "enums_per_batch": bs},
        "shape_classes": shapes,
        "backend_rejected": {be: len(v) for be, v in rejected.items()},
        "backend_panicked": {be: len(v) for be, v in panicked.items()},
        "nanobind_headers_identical_to_cpp_batches": "%d/%d" % (nb_ident, len(done)),
        "space_digest": digest,
        "grammar_version": GRAMMAR_VERSION,
        "cpu_seconds_by_step": timing,
        "samples": samples,
    }
    if len(forms) < 2:
        cov["distinct_outcomes"] = min(cov["distinct_outcomes"], 1)
    rc = rep.finish(cov, [
        "Rust side: the oracle compiles the enums with `#[repr(C)] #[derive(Clone, Copy)]`, which is what the proc macro adds "
        "(macro/src/lib.rs Item::Enum arm); the numeric value of a variant does not depend on the repr as long as rustc accepts it",
        "Dart and Kotlin have no toolchain here: their generated sources are interpreted; only the exact template forms are understood, "
        "anything else is UNDECIDED (exit 2)",
        "nanobind: the python<->C++ mapping is read from the `.value(\"V\", T::V)` table; nanobind itself is not built",
        "use sites enumerated: self / parameter / return of a method on the enum; enum-typed struct fields, Option<Enum> and Result<Enum,_> "
        "wrappers go through the same conversion helpers and are exercised by C02/C08/C10",
        "C has no from-native conversion (plain enum): only the enumerator values are judged there",
    ])
    if not rep.violations:
        shutil.rmtree(wd, ignore_errors=True)
    return rc


def replay(path):
    w = json.load(open(path))
    wit = w["witness"]
    spec = tuple(None if s is None else int(s) for s in wit["spec"])
    ename = wit.get("name", "E0")
    print("replaying %s on %s" % (w["key"], enum_text(ename, spec)))
    build_tool()
    wd = workdir("C11")
    b = Batch(0, [(ename, spec)], os.path.join(wd, "replay"))
    process_batch(b, keep=True)
    fl = failures_of(b)
    print("rustc: %s" % b.rust[ename])
    bad = False
    for (be, direction), m in sorted(fl.items()):
        for name, lst in m.items():
            for f in lst:
                print("FAIL %s %s %s: expected %s observed %s" % (be, direction, f["variant"], f["expected"], json.dumps(f["observed"])))
                bad = True
    print("judgements: %d, failing: %d; outputs kept in %s" % (len(b.judgements), sum(1 for j in b.judgements if not j[4]), b.dir))
    if bad:
        print("VIOLATION property=C11 replay=%s" % path)
        return 1
    return 0
