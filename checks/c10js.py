"""C10, JS half: an `Option<T>` *parameter* crosses as {payload, is_ok} in the JS bindings too.

The generated JS is executed under Node against the recording stub wasm module of harness/jsx.  For every payload type allowed in
Option (primitives of every width, char, usize/isize, an enum with gaps and a negative value, two structs with padding), both spellings
(`Option<T>` / `DiplomatOption<T>`), alone and between two other parameters, and the values None / Some(zero-like) / Some(v):

  js.abi = spec    the export receives a pointer to a buffer obtained from diplomat_alloc with room for payload + flag and the payload's
                   alignment; the bytes behind it are the payload (little endian, repr(C) offsets) followed by is_ok = 0/1;
  js.abi = legacy  (scalars) the export receives the payload value, then is_ok = 0/1, then padding zeros.
"""
import json
import os
import shutil
import struct
import subprocess

from vlib.common import MachineryError, REPO, VERIF, run_tool

EN = {"A": 0, "B": 5, "C": -6}
# name -> (rust, size, align, kind, values)   values are python-level; the first one is "zero-like"
SCALARS = [
    ("u8", "u8", 1, "<B", [0, 0xA5]), ("i8", "i8", 1, "<b", [0, -3]), ("u16", "u16", 2, "<H", [0, 0x0102]), ("i16", "i16", 2, "<h", [0, -2]),
    ("u32", "u32", 4, "<I", [0, 0xA5A5A5A5]), ("i32", "i32", 4, "<i", [0, -7]), ("u64", "u64", 8, "<Q", [0, 0x0102030405060708]),
    ("i64", "i64", 8, "<q", [0, -9]), ("f32", "f32", 4, "<f", [0.0, 1.5]), ("f64", "f64", 8, "<d", [0.0, -2.25]),
    ("bool", "bool", 1, "<?", [False, True]), ("char", "DiplomatChar", 4, "<I", [0, 0x20AC]), ("usize", "usize", 4, "<I", [0, 0xFFFFFFFF]),
    ("isize", "isize", 4, "<i", [0, -1]),
]


def types():
    out = []
    for key, rust, size, fmt, vals in SCALARS:
        out.append({"key": key, "rust": rust, "size": size, "align": size, "kind": "scalar", "fmt": fmt, "vals": vals})
    out.append({"key": "en", "rust": "En", "size": 4, "align": 4, "kind": "en", "vals": ["A", "C"]})
    out.append({"key": "st", "rust": "St", "size": 8, "align": 4, "kind": "st", "fields": [("a", "<B", 0), ("b", "<I", 4)], "vals": [{"a": 0, "b": 0}, {"a": 7, "b": 0xDEADBEEF}]})
    out.append({"key": "st3", "rust": "St3", "size": 16, "align": 8, "kind": "st", "fields": [("p", "<Q", 0), ("q", "<B", 8), ("r", "<H", 10)],
                "vals": [{"p": 0, "q": 0, "r": 0}, {"p": 0x0102030405060708, "q": 9, "r": 0x0A0B}]})
    return out


def bridge(ts):
    L = ["#[diplomat::bridge]", "mod ffi {", "    use diplomat_runtime::DiplomatOption;", "    #[diplomat::opaque]", "    pub struct Op(u8);",
         "    pub struct St { pub a: u8, pub b: u32 }", "    pub struct St3 { pub p: u64, pub q: u8, pub r: u16 }", "    pub enum En { A = 0, B = 5, C = -6 }", "    impl Op {"]
    for t in ts:
        for sp, ty in (("s", "Option<%s>"), ("d", "DiplomatOption<%s>")):
            L.append("        pub fn t_%s_%s(x: %s) { let _ = x; }" % (sp, t["key"], ty % t["rust"]))
            L.append("        pub fn u_%s_%s(a: u8, x: %s, b: u16) { let _ = (a, x, b); }" % (sp, t["key"], ty % t["rust"]))
    # optional pointers coming back: an absent one is the null pointer, owned or borrowed, bare, in an out-struct field, in a Result arm
    L += ["        pub fn rbox() -> Option<Box<Op>> { None }", "        pub fn rref<'a>(&'a self) -> Option<&'a Op> { None }",
          "        pub fn rout() -> OutO { unimplemented!() }", "        pub fn rres() -> Result<Option<Box<Op>>, ()> { Ok(None) }"]
    L += ["    }", "    #[diplomat::out]", "    pub struct OutO { pub o: Option<Box<Op>>, pub n: u32 }", "}"]
    return "\n".join(L) + "\n"


def payload_bytes(t, v):
    """{offset: byte} of the defined payload bytes"""
    out = {}
    if t["kind"] == "scalar":
        b = struct.pack(t["fmt"], v)
        out.update({i: x for i, x in enumerate(b)})
    elif t["kind"] == "en":
        out.update({i: x for i, x in enumerate(struct.pack("<i", EN[v]))})
    else:
        for (fn, fmt, off) in t["fields"]:
            for i, x in enumerate(struct.pack(fmt, v[fn])):
                out[off + i] = x
    return out


def enc(t, v):
    if v is None:
        return None
    if t["kind"] == "scalar":
        if t["key"] in ("u64", "i64"):
            return {"big": str(v)}
        if t["key"] in ("f32", "f64"):
            return {"f": repr(float(v))}
        return v
    if t["kind"] == "en":
        return {"en": v}
    return {"st": {k: ({"big": str(x)} if k == "p" else x) for k, x in v.items()}}


DRIVER = r"""
import fs from "fs";
const job = JSON.parse(fs.readFileSync(process.argv[2], "utf8"));
const wasm = (await import("./diplomat-wasm.mjs")).default;
const api = await import("./index.mjs");
const st = wasm.__verif;
const hex = (p, n) => Buffer.from(new Uint8Array(wasm.memory.buffer, p, n)).toString("hex");
const dec = (v) => v === null ? null : (typeof v === "object" && "big" in v) ? BigInt(v.big) : (typeof v === "object" && "f" in v) ? Number(v.f)
    : (typeof v === "object" && "en" in v) ? api.En[v.en] : (typeof v === "object" && "st" in v) ? Object.fromEntries(Object.entries(v.st).map(([k, x]) => [k, dec(x)])) : v;
const canon = (a) => typeof a === "bigint" ? { big: a.toString() } : a === undefined ? { undef: 1 } : (typeof a === "number" && !Number.isInteger(a)) ? { f: String(a) } : (typeof a === "number" || typeof a === "boolean" || a === null) ? a : { other: String(a) };
const out = [];
new Uint8Array(wasm.memory.buffer, 0, 64).fill(0xAA);
for (const c of job.calls) {
    const rec = { id: c.id };
    st.calls.length = 0; st.allocs.length = 0;
    try {
        const x = dec(c.x);
        if (c.between) api.Op[c.fn](3, x, 0x0405); else api.Op[c.fn](x);
        const call = st.calls.find((k) => k.name === c.symbol);
        if (!call) { rec.error = "no call recorded"; }
        else {
            rec.args = call.args.map(canon);
            rec.allocs = st.allocs.map((a) => ({ ptr: a.ptr, size: a.size, align: a.align }));
            const p = call.args[c.between ? 1 : 0];
            if (typeof p === "number" && Number.isInteger(p) && p > 0 && p + 40 < wasm.memory.buffer.byteLength) rec.mem = hex(p, 40);
        }
        rec.low = hex(0, 32);
    } catch (e) { rec.error = String(e).slice(0, 200); }
    out.push(rec);
}
// ---- optional pointers returned by the export
const rt = await import("./diplomat-runtime.mjs");
const ptrs = [];
const show = (x) => x === null ? "null" : x === undefined ? "undefined" : (typeof x === "object" && "ffiValue" in x) ? "ptr:" + x.ffiValue : "other:" + String(x);
for (const p of [0, 0x3000]) {
    const rec = { p };
    try { st.ret["Op_rbox"] = p; rec.rbox = show(api.Op.rbox()); } catch (e) { rec.rbox = "throws:" + String(e).slice(0, 80); }
    try { st.ret["Op_rref"] = p; const self = new api.Op(rt.internalConstructor, 0x2000, [1]); rec.rref = show(self.rref()); } catch (e) { rec.rref = "throws:" + String(e).slice(0, 80); }
    try {
        st.hooks["Op_rout"] = (args) => { const dv = new DataView(wasm.memory.buffer); dv.setUint32(args[0], p, true); dv.setUint32(args[0] + 4, 77, true); return undefined; };
        const o = api.Op.rout(); rec.rout = show(o.o) + ",n=" + o.n;
    } catch (e) { rec.rout = "throws:" + String(e).slice(0, 80); }
    delete st.hooks["Op_rout"];
    try {
        st.hooks["Op_rres"] = (args) => { const dv = new DataView(wasm.memory.buffer); dv.setUint32(args[0], p, true); dv.setUint8(args[0] + 4, 1); return undefined; };
        rec.rres = show(api.Op.rres());
    } catch (e) { rec.rres = "throws:" + String(e).slice(0, 80); }
    delete st.hooks["Op_rres"];
    ptrs.push(rec);
}
out.push({ id: "$ptrs", ptrs });
fs.writeFileSync(process.argv[3], JSON.stringify(out));
"""


def js_name(rust_fn):
    parts = rust_fn.split("_")
    return parts[0] + "".join(p[:1].upper() + p[1:] for p in parts[1:])


def js_half(rep, wd):
    ts = types()
    src = os.path.join(wd, "c10js.rs")
    with open(src, "w") as fh:
        fh.write(bridge(ts))
    calls = []
    for t in ts:
        for sp in ("s", "d"):
            for between in (False, True):
                fn = "%s_%s_%s" % ("u" if between else "t", sp, t["key"])
                for v in [None] + t["vals"]:
                    calls.append({"id": len(calls), "fn": js_name(fn), "symbol": "Op_" + fn, "between": between, "x": enc(t, v), "_t": t, "_v": v, "_sp": sp})
    judged = 0
    stats = {}
    for abi in ("spec", "legacy"):
        out = os.path.join(wd, "c10js-" + abi)
        p = run_tool("js", src, out, configs=["js.abi=" + abi], timeout=300)
        if p.returncode != 0:
            raise MachineryError("js backend (%s) failed on the option-parameter module: %s" % (abi, p.stderr[-1500:]))
        shutil.copy(os.path.join(VERIF, "harness", "jsx", "diplomat-wasm.mjs"), os.path.join(out, "diplomat-wasm.mjs"))
        if not os.path.exists(os.path.join(out, "diplomat-runtime.mjs")):
            shutil.copy(os.path.join(REPO, "tool", "templates", "js", "runtime.mjs"), os.path.join(out, "diplomat-runtime.mjs"))
        open(os.path.join(out, "c10-driver.mjs"), "w").write(DRIVER)
        jp, rp = os.path.join(out, "job.json"), os.path.join(out, "res.json")
        json.dump({"calls": [{k: v for k, v in c.items() if not k.startswith("_")} for c in calls]}, open(jp, "w"))
        q = subprocess.run(["node", os.path.join(out, "c10-driver.mjs"), jp, rp], stdout=subprocess.PIPE, stderr=subprocess.PIPE, text=True, timeout=300)
        if q.returncode != 0:
            raise MachineryError("node driver for option parameters failed (%s): %s" % (abi, q.stderr[-1500:]))
        res = json.load(open(rp))
        extra = [r for r in res if r.get("id") == "$ptrs"]
        res = [r for r in res if r.get("id") != "$ptrs"]
        if len(extra) != 1 or len(extra[0]["ptrs"]) != 2:
            raise MachineryError("optional-pointer section missing from the driver output")
        for rec in extra[0]["ptrs"]:
            want = "null" if rec["p"] == 0 else "ptr:%d" % rec["p"]
            for fn, w in (("rbox", want), ("rref", want), ("rout", want + ",n=77"), ("rres", want)):
                judged += 1
                if rec.get(fn) != w:
                    rep.violation("C10|js-%s|optional-pointer-return|%s|%s" % (abi, fn, "absent" if rec["p"] == 0 else "present"),
                                  {"method": {"rbox": "-> Option<Box<Op>>", "rref": "-> Option<&Op>", "rout": "-> OutO { o: Option<Box<Op>>, n: u32 }", "rres": "-> Result<Option<Box<Op>>, ()>"}[fn],
                                   "export_answers": rec["p"], "js_value": rec.get(fn)},
                                  "js.abi=%s: %s with the export answering pointer %d arrives in JS as %s, expected %s" % (abi, fn, rec["p"], rec.get(fn), w))
        for c, r in zip(calls, res):
            t, v = c["_t"], c["_v"]
            what = "%s(%s%s = %s)" % (c["fn"], "3, " if c["between"] else "", ("Option<%s>" if c["_sp"] == "s" else "DiplomatOption<%s>") % t["rust"], "None" if v is None else "Some(%r)" % (v,))
            shape = "%s|%s" % (t["key"], "between" if c["between"] else "alone")
            judged += 1
            if "error" in r:
                rep.violation("C10|js-%s|option-param|throws|%s" % (abi, t["key"]), {"call": what, "error": r["error"]}, "js.abi=%s: %s throws %s" % (abi, what, r["error"]))
                continue
            args = r["args"]
            k = 1 if c["between"] else 0
            if abi == "spec":
                stats["spec"] = stats.get("spec", 0) + 1
                ptr = args[k] if len(args) > k else None
                problems = []
                if len(args) != (3 if c["between"] else 1):
                    problems.append("%d arguments instead of %d" % (len(args), 3 if c["between"] else 1))
                elif not isinstance(ptr, int) or isinstance(ptr, bool) or ptr <= 0:
                    problems.append("the option is passed as %s, not as a pointer to {payload, is_ok}" % json.dumps(ptr))
                else:
                    al = [a for a in r["allocs"] if a["ptr"] == ptr]
                    if not al:
                        problems.append("pointer %d was not obtained from diplomat_alloc" % ptr)
                    elif al[0]["size"] < t["size"] + 1 or al[0]["align"] != t["align"]:
                        problems.append("buffer allocated with (size, align) = (%d, %d); {payload, is_ok} needs at least %d bytes aligned to %d" % (
                            al[0]["size"], al[0]["align"], t["size"] + 1, t["align"]))
                    mem = bytes.fromhex(r.get("mem") or "")
                    if len(mem) < t["size"] + 1:
                        problems.append("memory behind the pointer not readable")
                    else:
                        if mem[t["size"]] != (0 if v is None else 1):
                            problems.append("is_ok byte at offset %d is %d" % (t["size"], mem[t["size"]]))
                        if v is not None:
                            bad = [(o, b, mem[o]) for o, b in sorted(payload_bytes(t, v).items()) if mem[o] != b]
                            if bad:
                                problems.append("payload bytes (offset, want, got) %s" % bad[:4])
                if c["between"] and len(args) == 3 and (args[0], args[2]) != (3, 0x0405):
                    problems.append("neighbouring arguments arrive as %s" % json.dumps([args[0], args[2]]))
                if r.get("low") != "aa" * 32:
                    problems.append("the call wrote to the first bytes of the wasm memory (address 0): %s" % r.get("low"))
                for pr in problems[:1]:
                    rep.violation("C10|js-spec|option-param|%s" % shape, {"call": what, "args": args, "allocs": r.get("allocs"), "mem": r.get("mem"), "low": r.get("low"), "problems": problems},
                                  "js.abi=spec: %s: %s" % (what, "; ".join(problems)))
            elif t["kind"] in ("scalar", "en"):
                stats["legacy"] = stats.get("legacy", 0) + 1
                rest = args[k:len(args) - 1] if c["between"] else args
                ok = len(rest) >= 2
                if ok:
                    flag = rest[1]
                    ok = flag in ((1, True) if v is not None else (0, False)) and all(x in (0, False) for x in rest[2:])
                    if ok and v is not None:
                        # the payload slot of the flattened union carries the value's bit pattern (an integer of the payload's width;
                        # the export takes it as i32 / i64, so only the low bits count)
                        got = rest[0]
                        bits = int.from_bytes(bytes(b for _, b in sorted(payload_bytes(t, v).items())), "little")
                        if isinstance(got, dict) and "big" in got:
                            g = int(got["big"])
                        elif isinstance(got, bool):
                            g = int(got)
                        elif isinstance(got, int):
                            g = got
                        elif isinstance(got, dict) and "f" in got and t["key"] in ("f32", "f64"):
                            g = int.from_bytes(struct.pack(t["fmt"], float(got["f"])), "little")
                        else:
                            g = None
                        mask = (1 << (8 * t["size"])) - 1
                        ok = g is not None and (g & mask) == bits
                if not ok:
                    rep.violation("C10|js-legacy|option-param|%s" % shape, {"call": what, "args": args},
                                  "js.abi=legacy: %s arrives as %s; expected payload, is_ok = %d, padding zeros" % (what, json.dumps(args), 0 if v is None else 1))
        shutil.rmtree(out, ignore_errors=True)
    if not stats.get("spec") or not stats.get("legacy"):
        raise MachineryError("vacuity guard: no option-parameter call judged (%s)" % stats)
    return {"calls_judged": judged, "payload_types": [t["key"] for t in ts], "spellings": ["Option<T>", "DiplomatOption<T>"], "positions": ["alone", "between two parameters"],
            "values": "None, Some(zero-like), Some(v)", "abis": ["spec (pointer to {payload, is_ok}; bytes compared)", "legacy (scalars: payload, is_ok, padding)"]}
