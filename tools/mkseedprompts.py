#!/usr/bin/env python3
"""usage: tools/mkseedprompts.py <round> <ID>...  -- writes /tmp/seed<round>-<ID>.prompt.txt / .property.txt and creates the
scratch worktree /tmp/seed<round>-<ID>.  The prompt carries only the property text and one-line titles of earlier seeded changes
(so that authors move elsewhere); nothing from /verif's checks."""
import json, os, subprocess, sys, glob
rnd = sys.argv[1]; ids = sys.argv[2:]
props = {json.loads(l)['id']: json.loads(l) for l in open('/verif/properties.jsonl')}
TEMPLATE = open('/verif/tools/seedprompt.template.txt').read()
for pid in ids:
    p = props[pid]; tag = f"seed{rnd}-{pid}"
    text = (f"Property {pid}: {p['title']}\n\nStatement: {p['statement']}\n\nQuantifier ({', '.join(p['quantifier']['over'])}): "
            f"{p['quantifier']['text']}\n\nWhy existing tests cannot settle it: {p['why_tests_cant']}\n\n"
            f"Anchored in files: {', '.join(p['anchors']['files'])}\n")
    earlier = []
    for m in sorted(glob.glob(f'/verif/seeded/{pid}-m*/meta.json'), key=lambda s: int(s.split('-m')[1].split('/')[0])):
        earlier.append(' - ' + json.load(open(m))['title'].strip())
    open(f'/tmp/{tag}.property.txt', 'w').write(text)
    open(f'/tmp/{tag}.prompt.txt', 'w').write(TEMPLATE.replace('@TAG@', tag).replace('@PID@', pid).replace('@PROPERTY@', text).replace('@EARLIER@', '\n'.join(earlier)))
    os.makedirs(f'/tmp/{tag}-out', exist_ok=True)
    subprocess.run(['git', '-C', '/repo', 'worktree', 'add', '-q', '--detach', f'/tmp/{tag}', 'HEAD'], check=True)
    print(tag, len(earlier), 'earlier')
