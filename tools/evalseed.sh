#!/bin/bash
# usage: tools/evalseed.sh <seed-out-dir>/mutant<k> <check ids...>
# Confirms a seeded change (demo passes clean / fails patched, repo tests pass) and runs the given quick checks against it.
set -u
MD=$(realpath "$1"); shift
M=/var/tmp/es-$$
git -C /repo worktree add -q --detach $M ${BASE:-HEAD} || exit 3
echo "== demo on clean worktree"; (bash $MD/demo/run.sh $M >/tmp/es-$$-clean.log 2>&1; echo "demo_clean_exit=$?")
cd $M && git apply "$MD/patch.diff" || { echo "PATCH DOES NOT APPLY"; cd /; git -C /repo worktree remove --force $M; exit 3; }
echo "== repo tests on patched worktree"
CARGO_TARGET_DIR=${DMT:-/var/tmp/dm-target} cargo test --workspace --offline --no-fail-fast 2>&1 | grep -E "^test result|FAILED|^error" | sort | uniq -c | head
echo "== demo on patched worktree"; (bash $MD/demo/run.sh $M >/tmp/es-$$-patched.log 2>&1; echo "demo_patched_exit=$?"; tail -3 /tmp/es-$$-patched.log | cut -c1-200)
for c in "$@"; do
  echo "== check $c on patched worktree"
  (cd /verif && VERIF_REPO=$M timeout 1500 ./check $c --tier quick 2>&1 | grep -E "VIOLATION|MACHINERY|^C[0-9]+ quick|what:" | cut -c1-260 | head -8; echo "check_exit=${PIPESTATUS[0]}")
done
TAG=$(python3 -c "import hashlib;print(hashlib.sha1('$M'.encode()).hexdigest()[:8])")
cd /; git -C /repo worktree remove --force $M; git -C /repo worktree prune
rm -rf $M /verif/.build/*-$TAG /verif/.build/hx-$TAG /tmp/es-$$-*.log
