#!/usr/bin/env python3
"""Regenerates /verif/MANIFEST.json from the table below (kept in one place so it stays valid)."""
import json
import os

HERE = os.path.dirname(os.path.dirname(os.path.abspath(__file__)))
ALL = ["C%02d" % i for i in range(1, 18)]

CHECKS = {
    "C03": dict(
        category="model_checking", design="§2 C03",
        technique="explicit-state model checking (stateright BFS/DFS) of the real runtime types against a reference ownership model; miri replay of the depth-3 frontier",
        text="Every history of create/convert/borrow/clone/drop operations up to the stated depth over the runtime's DiplomatResult/DiplomatOption/"
             "DiplomatOwnedSlice/DiplomatOwnedUTF8StrSlice/DiplomatCallback is executed on the real code with drop-logging payloads (four payload families) and "
             "compared after every step and at quiescence with a reference ownership model: exactly-once is decided for all histories within the bound, not sampled. Operations include clone and clone_from between two live cells of one runtime type (every arm pair).",
        note="Trusted: the harness' drop log and ownership model; rustc/miri. Bounded by history depth and number of live cells."),
    "C04": dict(
        category="model_checking", design="§2 C04",
        technique="exhaustive enumeration of method signatures; reference outlives-closure model stepped against the real BorrowingParamVisitor in-process and against edge arrays parsed from js/dart/kotlin/nanobind output",
        text="Every method signature in the bounded grammar (named lifetimes, every declared bound set, four self forms, 17 parameter forms with every lifetime "
             "assignment, 11 return forms) that the gate accepts is lowered by the real HIR code; the borrow map of the real BorrowingParamVisitor must equal, edge for "
             "edge, the reflexive-transitive outlives closure of declared and implied bounds, and the edge arrays the four managed backends emit must contain it. A second enumeration covers struct definitions that nest a borrowing struct: every instantiation of the inner "
             "struct's lifetime slots with the outer struct's lifetimes is judged in-process (StructBorrowInfo::compute_for_struct_field), in the generated Dart struct code, and by "
             "executing the generated JS `_fieldsForLifetime` getters under Node.",
        note="Trusted: the 40-line reference model; the tolerant extractors for .mjs/.g.dart/.kt/_ext.cpp (anything uninterpretable is UNDECIDED = exit 2). "
             "Dart/Kotlin/Python output is parsed, not executed (no toolchains). Returned slices/strings (copied by some backends) are judged in-process only."),
    "C05": dict(
        category="model_checking", design="§2 C05",
        technique="exhaustive enumeration of the bridge type grammar to depth 3 in 8 positions (+ pairs, self forms, lifetime families); three-valued documentation-derived reference gate stepped against the real TypeContext::from_syn in-process",
        text="Every type expression of the grammar to constructor depth 3 is placed in every position (parameter first/last/sole, return, struct field, out-struct field, "
             "callback parameter/return), plus every documented parameter x return pair, every self form, DiplomatWrite placements, elided/named return lifetimes and "
             "every declared bound set for signatures with def-site bounds; the real lowering code must accept what the book documents and reject what the ten stated rules "
             "forbid, and every rejection must carry the focus type/method as its context. Profile-dependent shapes go through the real binary for all 7 backends.",
        note="Trusted: the reference gate (lib/vlib/gram.py spec()), written from book/src/*.md and the statement; shapes neither pins down are UNSPECIFIED, executed, counted, never judged."),
    "C12": dict(
        category="model_checking", design="§2 C12",
        technique="explicit-state model checking (stateright) of the real DiplomatWrite under every pattern of grow() answers, against a (content, failed, cap) reference model",
        text="All histories of write_str / write! / flush up to the depth bound, for caller-supplied, Rust-owned and fixed-buffer writers, all initial capacities in the "
             "bound and every fail/exact/slack answer of grow(), are executed on the real runtime with canary-guarded exactly-sized buffers and compared step by step "
             "with the reference writer; this is the fault quantifier of the property enumerated exhaustively. For the Rust-owned writer a tracking allocator is switched on around create / grow / destroy: every release "
             "must carry the layout of its allocation, reallocations always move (and poison) the block, and nothing may stay allocated after destroy.",
        note="Trusted: #[repr(C)] mirror of DiplomatWrite (size/align asserted), canary detection of out-of-capacity writes (32-byte guards), rustc/miri."),
    "C16": dict(
        category="model_checking", design="§2 C16",
        technique="exhaustive enumeration of byte strings against a table-driven reference UTF-8 recogniser; exhaustive enumeration of view round trips per element type and length",
        text="diplomat_is_str is compared with an independent Table 3-7 recogniser on every byte string of length <= 3, every 4-byte string with lead F0..F7 and every "
             "string of length 5 (thorough 6-8) over a boundary-byte alphabet; slice/str/owned views are round-tripped for 13 element types, all lengths in the bound, "
             "NULL+0 views, and diplomat_alloc/free for all small size/align pairs.",
        note="Trusted: the reference recogniser (30 lines, from the Unicode standard), rustc. Longer strings are covered only over the boundary alphabet."),
}

REASON_TODO = "check not built yet in this round (planned in DESIGN.md); not claimed until its machinery exists"


def main():
    checks = []
    for pid in ALL:
        if pid not in CHECKS:
            continue
        c = CHECKS[pid]
        checks.append({
            "property_id": pid,
            "quick_cmd": "./check %s --tier quick" % pid,
            "thorough_cmd": "./check %s --tier thorough" % pid,
            "evidence_file": "/verif/evidence/%s.json" % pid,
            "replay_cmd_template": "./check %s --replay {path}" % pid,
            "engine": c.get("engine", "check"),
            "level_claimed": {"category": c["category"], "text": c["text"], "design_ref": c["design"]},
            "level_note": c["note"],
            "technique": c["technique"],
        })
    na = [{"property_id": p, "reason": CHECKS_NA.get(p, REASON_TODO)} for p in ALL if p not in CHECKS]
    man = {
        "version": 1,
        "setup_cmd": "./setup.sh",
        "hooks": {
            "guard": "rust_diplomat_diplomat_verif",
            "enable": "none needed: no hooks were added to /repo (checks drive the real macro, runtime and diplomat-tool binary from outside)",
            "baseline_off_cmd": "cd /repo && cargo test --workspace --no-fail-fast --offline",
            "source_commits": [],
            "add_only": True,
        },
        "engines": [
            {"name": "check", "path": "/verif/check", "serves_properties": sorted(CHECKS),
             "kind_free_text": "python driver; Rust harness crates under /verif/harness (stateright explorers on the real runtime, in-process HIR probes), generated bridge crates built with the real macro, real diplomat-tool binary, gcc/g++/clang/node as oracles"},
        ],
        "checks": checks,
        "not_applicable": na,
        "notes": "Bounded exhaustive exploration / explicit-state model checking; see DESIGN.md. known_findings.json lists genuine defects (open = KNOWN-FINDING, fixed = repaired by a fix: commit in /repo).",
    }
    with open(os.path.join(HERE, "MANIFEST.json"), "w") as fh:
        json.dump(man, fh, indent=1)
    print("wrote MANIFEST.json with %d checks, %d not_applicable" % (len(checks), len(na)))


CHECKS_NA = {}

CHECKS["C01"] = dict(
    category="exploration", design="§2 C01",
    technique="bounded-exhaustive enumeration of (method shape, argument/return value) cases; real proc macro under rustc vs real C backend under gcc, executed under ASan/UBSan, compared with a source-level value oracle",
    text="Every parameter shape, return shape, struct layout (all ordered field tuples over the field alphabet), Option/Result arm, slice/string kind, opaque pointer form, DiplomatWrite "
         "method and callback signature of the grammar becomes a generated Rust method compiled by the real macro; a generated C driver calls each through the real generated header with "
         "every value of the per-type alphabets, and the Rust-side log / C-side dump must equal the oracle computed from the Rust source types; nm symbols must equal header prototypes.",
    note="Trusted: the value-model compiler (lib/vlib/abi.py) emitting Rust/C literals and dumps, gcc, the x86-64 SysV ABI as the platform under test (other targets not executed).")

CHECKS["C02"] = dict(
    category="exploration", design="§2 C02",
    technique="the C01 enumeration driven through the generated C++ class API (g++ -std=c++17 and -std=c++20, ASan/UBSan, executed) + exhaustive byte-string sweep of the UTF-8 rule for direct &str parameters",
    text="The same generated Rust methods as C01 are called through the real C++ backend's classes (std::optional, string_view, span, struct, enum wrapper, references, "
         "std::function, unique_ptr, diplomat::result, std::string), in both language standards, incl. namespaced and renamed types and methods; every value dump must equal the oracle. "
         "Every byte string of length <= 2 and every string of length 3-4 over the boundary alphabet is passed as a direct &str: it must be rejected on the C++ side iff the reference "
         "recogniser rejects it, and must not reach Rust then.",
    note="Trusted: as C01, plus g++/libstdc++. feature_tests/example headers are compiled by C09, not executed here.")

CHECKS["C06"] = dict(
    category="exploration", design="§2 C06",
    technique="exhaustive enumeration of abi_rename / rename / disable placements; reference naming model vs nm of the staticlib built with the real macro; per-backend symbol-reference extraction from all seven outputs",
    text="All 81 placements of abi_rename on {module, type, impl, method} x {absent, {0}-pattern, literal} (thorough: x 3 owner kinds x 45 rename/disable variants) are compiled by the real "
         "macro; the exported symbols (nm) must equal the reference naming scheme, and for every backend the set of symbols its generated code references must equal the exported symbols "
         "of the items enabled there (disabled items stay exported and unreferenced).",
    note="Trusted: nm as ground truth; the reference naming model written from the documentation (composition of nested {0} patterns is UNSPECIFIED: either reading accepted, but one "
         "reading must explain every module); extractors exit 2 on shapes they do not understand. Dart/Kotlin/JS output is read as text.")

CHECKS["C07"] = dict(
    category="exploration", design="§2 C07",
    technique="the C01 method/struct enumeration pushed through the real Dart and Kotlin backends; generated native declarations parsed into abstract ABI shapes by strict extractors and compared with the shapes of the Rust source-level types",
    text="For every exported function of the shared generated crate (every parameter/return shape, struct layout, Option/Result record, slice kind, write-out method, callback) the "
         "@ffi.Native signature (Dart) and the JNA Library function (Kotlin), and every ffi.Struct/Union and Structure/Union mirror incl. getFieldOrder, are parsed and compared member "
         "by member (count, order, integer width, signedness for Dart, float kind, pointer vs by-value, record shapes) with the C ABI shape of the Rust types.",
    note="Trusted: the shape model (tied to the compiled ABI by C01's execution), the strict parsers (unknown forms = UNDECIDED, exit 2), JNA's documented default type mapping. "
         "Nothing is compiled or executed for these two languages (no toolchains in the sandbox).")

CHECKS["C08"] = dict(
    category="model_checking", design="§2 C08",
    technique="exhaustive enumeration of struct definitions (every ordered field tuple over the field alphabet) x field values; generated JS executed in Node against a stub wasm memory; reference = rustc's layout of the same definitions + reference argument flattening for both wasm ABIs",
    text="For every struct the generated _writeToArrayBuffer output, _fromFFI read-back, the DiplomatReceiveBuf size/align of a method returning it (bare and wrapped in six Result/Option shapes, where the stub export writes payload and flag at rustc's offsets and the decoded arm and payload are compared) and the argument list of a method "
         "taking it (js.abi = legacy and spec) are obtained by executing the real generated .mjs, and compared with rustc's offsets/size/align for the same repr(C) definitions "
         "(32-bit pointers substituted) and with the documented wasm argument-passing rules; memory is prefilled so unwritten bytes show. Slice fields cover every primitive element "
         "kind (allocation size/alignment and content compared), and the bundled runtime's DiplomatBuf.slice / strs are probed for every view kind with the allocation placed at the "
         "end of the memory and with an allocation that grows the memory.",
    note="Trusted: host rustc as wasm32 layout engine for these definitions (all scalars have identical size/align), the reference flattening written from docs/wasm_abi_quirks.md "
         "(legacy) and the wasm BasicCABI (spec, cross-checked once with clang --target=wasm32); Node's typed arrays.")

CHECKS["C09"] = dict(
    category="exploration", design="§2 C09",
    technique="bounded-exhaustive enumeration of accepted modules (shared generated crate, cyclic/namespaced/renamed shapes, every C/C++/JS reserved word in every identifier role, callback shapes, the repository's own bridges); real rustc/gcc/g++/node as oracles on every generated file alone and in permuted include orders",
    text="The macro expansion of every module is type-checked by cargo build; every generated .h/.d.h compiles alone as C11, every .hpp/.d.hpp alone as C++17 and C++20, every .mjs "
         "passes node --check; all-headers translation units in sorted, reversed, rotated and pairwise orders compile; every #include / import names a generated file that defines the "
         "imported name. Reserved words of the three languages are used as parameter, method, field, variant and type names, one name per header when a pack fails.",
    note="Trusted: gcc/g++/node/rustc exit status. Names that are not reserved words but predeclared by system headers or the JS global object (NULL, EOF, size_t, constructor, ...) are "
         "recorded, not judged. Quick compiles a stated subset of the layout-struct headers under C++; thorough compiles all.")

CHECKS["C10"] = dict(
    category="exploration", design="§2 C10",
    technique="same enumeration as C01 restricted to Option/Result shapes, plus sizeof-vs-size_of comparison for every result record and declaration comparison of std/DiplomatOption spelling pairs; generated JS executed in Node against a recording stub wasm module for Option parameters",
    text="Every payload type allowed in Option/Result, in parameter, return and struct-field position: optional pointers must be NULL exactly when absent, all other optionals/results "
         "must arrive as {payload, is_ok} with the right arm and payload bytes, C's sizeof of each record must equal rustc's size_of (unit arms add no payload), and the two spellings "
         "of each optional must yield identical C declarations and identical behaviour. JS half: Option<T> parameters of every payload type (both spellings, alone and between other "
         "parameters, None / Some(zero-like) / Some(v)) are passed through the generated JS under Node for js.abi = spec (pointer to an allocated {payload, is_ok} record, bytes "
         "compared) and legacy (payload bit pattern, is_ok, padding).",
    note="Trusted: as C01. Shares the generated crate and headers with C01.")

CHECKS["C11"] = dict(
    category="exploration", design="§2 C11",
    technique="exhaustive enumeration of enum definitions; rustc's discriminants as oracle; C/C++ compiled and run, JS executed in node, Dart/Kotlin/nanobind output interpreted by strict template parsers",
    text="Every C-like enum with up to the stated number of variants over the discriminant alphabet {i32::MIN,-2,-1,0,1,2,5,i32::MAX} x {implicit, explicit} that rustc accepts is "
         "generated for all six bindings; each variant's to-native value must equal what rustc prints for `V as i32` and from-native(rustc value) must select the variant of that name.",
    note="Trusted: rustc as ground truth; gcc/g++/node executing the generated code; strict parsers for Dart/Kotlin/nanobind text (unknown forms are UNDECIDED = exit 2).")

CHECKS["C13"] = dict(
    category="model_checking", design="§2 C13",
    technique="exhaustive enumeration of condition formulas (depth <= 3) x placements x payloads x backends through the real binary, against a reference boolean evaluator whose supports= atoms are probed from the implementation",
    text="All formulas up to depth 2 over 13 atoms (depth 3 over reduced alphabets; thorough: the full alphabet) with not/any/all are placed on methods, types, impl blocks and modules, with "
         "disable and rename payloads and inheritance pairs; for every backend the item must be present/absent/renamed exactly as the reference evaluator says, and the whole output "
         "tree must be byte-identical to the tree of the canonical input (false attributes removed); the real macro must still export every function (nm).",
    note="Trusted: the three-line boolean evaluator, the backend-name truth table, probed supports= values; presence is judged by distinctive tokens in generated files.")

CHECKS["C14"] = dict(
    category="model_checking", design="§2 C14",
    technique="explicit-state exploration of edit histories (BFS over permutation / insert / delete / non-bridge edits from 8 seed bridges) with the real binary re-run in fresh processes for all 7 backends; invariants checked on every transition",
    text="From seven hand-written seed bridges and the repository's feature_tests crate, every single edit (quick) / every edit sequence of length 2-3 (thorough) over the alphabet {swap adjacent "
         "type declarations, move an impl, swap bridge modules, insert/delete an unreferenced type with a first/middle/last name, add a non-bridge item of 7 kinds} is applied; states are "
         "deduplicated on exact text only. On every transition and for every backend: permutations and non-bridge edits must leave the whole output tree byte-identical, insert/delete must "
         "leave every other type's file identical, and every state is generated in 3 fresh processes that must agree.",
    note="Trusted: the item scanner (asserted to reproduce the source byte-exactly, else exit 2), sha1 of output files. Hash-seed independence is a repeated trial (3-12 fresh processes), not an "
         "enumeration. Swapping two impl blocks of the same type (which reorders methods) is outside the statement and excluded.")

CHECKS["C15"] = dict(
    category="exploration", design="§2 C15",
    technique="bounded-exhaustive enumeration of accepted programs (single-focus shapes in 8 positions, lifetime-flow pairs, self forms x callbacks, special-method attributes, struct shapes, render termini) x 7 backends x config variants through the real binary; crashing batches bisected and structurally reduced",
    text="Every shape of the bridge grammar that the real lowering accepts for a backend is generated by that backend under each config variant (js.abi legacy/spec, Kotlin finalizers, "
         "lib_name/domain present or missing); the only allowed outcomes are files written or errors through the diagnostics list. Any panic, signal or (reproducible) timeout is a "
         "violation keyed by backend, panic site, normalised message and reduced shape class.",
    note="Trusted: exit status / stderr classification of the real binary; acceptance is decided by the tool itself (Lowering error lines), not by a model. 128-bit integers excluded as documented.")

CHECKS["C17"] = dict(
    category="model_checking", design="§2 C17",
    technique="exhaustive enumeration of the configuration lattice (subsets of 3 sources x scoping x spelling x backend) through the real diplomat-tool binary against a reference precedence function",
    text="For each setting every subset of {config.toml, --config, #[diplomat::config]} slots (shared / scoped to this backend / scoped to another backend) is given distinct "
         "values, in every documented spelling (snake/kebab file keys, quoted/bare attribute values), for every backend that observes the setting; the effective value is read back "
         "from the generated output only (package dirs, Native.load, NB_MODULE, ABI shape, lowering verdicts) and must equal the reference precedence function.",
    note="Trusted: the reference precedence function (attr > cli > file, this-language scoped key before shared) and the output observables. Undocumented spellings are recorded, not judged.")

if __name__ == "__main__":
    main()
