#!/bin/bash
# usage: tools/seedmatrix.sh [seed names...]   (default: every directory under /verif/seeded)
# For every saved seeded change: scratch worktree of /repo at HEAD, apply patch.diff, run the quick tier of the checks named in
# meta.json (confirmed_by_lead.checks) with VERIF_REPO pointing at the worktree, record the exit codes in seeded/MATRIX.json,
# remove the worktree and every build directory derived from it.  Nothing is ever applied to /repo itself.
set -u
cd /verif
NAMES=("$@"); [ ${#NAMES[@]} -eq 0 ] && NAMES=($(ls seeded | grep -E '^(C[0-9]+-m[0-9]+|D-.*)$'))
for n in "${NAMES[@]}"; do
  M=/var/tmp/sm-$n
  git -C /repo worktree add -q --detach $M HEAD || exit 3
  if ! git -C $M apply /verif/seeded/$n/patch.diff; then echo "$n PATCH-DOES-NOT-APPLY"; git -C /repo worktree remove --force $M; continue; fi
  TAG=$(python3 -c "import hashlib;print(hashlib.sha1('$M'.encode()).hexdigest()[:8])")
  for c in $(python3 -c "import json;print(' '.join(json.load(open('seeded/$n/meta.json'))['confirmed_by_lead']['checks']))"); do
    t0=$(date +%s)
    VERIF_REPO=$M timeout 1500 ./check $c --tier quick > /var/tmp/sm-$n-$c.log 2>&1; rc=$?
    nv=$(grep -c '^VIOLATION' /var/tmp/sm-$n-$c.log)
    echo "$n $c exit=$rc violations=$nv wall=$(( $(date +%s) - t0 ))s"
    python3 - "$n" "$c" "$rc" "$nv" <<'PY'
import json, os, sys
p = "/verif/seeded/MATRIX.json"
d = json.load(open(p)) if os.path.exists(p) else {}
d.setdefault(sys.argv[1], {})[sys.argv[2]] = {"exit": int(sys.argv[3]), "violation_lines": int(sys.argv[4])}
json.dump(d, open(p, "w"), indent=1, sort_keys=True)
PY
    rm -f /var/tmp/sm-$n-$c.log
  done
  git -C /repo worktree remove --force $M; git -C /repo worktree prune
  rm -rf $M /verif/.build/*-$TAG
done
echo MATRIXDONE
