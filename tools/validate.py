#!/opt/veriftools/pyvenv/bin/python
import json, sys, os, glob
import jsonschema
HERE = os.path.dirname(os.path.dirname(os.path.abspath(__file__)))
jsonschema.validate(json.load(open(HERE + '/MANIFEST.json')), json.load(open('/root/.vp/MANIFEST.schema.json')))
man = json.load(open(HERE + '/MANIFEST.json'))
ids = [c['property_id'] for c in man['checks']] + [n['property_id'] for n in man.get('not_applicable', [])]
assert sorted(ids) == ["C%02d" % i for i in range(1, 18)], ids
for c in man['checks']:
    p = c['evidence_file']
    if os.path.exists(p):
        jsonschema.validate(json.load(open(p)), json.load(open('/root/.vp/EVIDENCE.schema.json')))
        ev = json.load(open(p))
        assert ev['level'] == c['level_claimed']['category'], (p, ev['level'])
    else:
        print("missing evidence", p)
print("manifest + evidence valid")
