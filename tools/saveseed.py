#!/usr/bin/env python3
"""tools/saveseed.py <seed-out-dir>/mutant<k> <name> '<json of my verification results>'
Copies a confirmed seeded change into /verif/seeded/<name>/ (patch.diff, demo/, meta.json)."""
import json, os, shutil, sys
src, name, mine = sys.argv[1], sys.argv[2], json.loads(sys.argv[3])
dst = os.path.join(os.path.dirname(os.path.dirname(os.path.abspath(__file__))), "seeded", name)
if os.path.exists(dst):
    shutil.rmtree(dst)
os.makedirs(dst)
shutil.copy(os.path.join(src, "patch.diff"), dst)
def ign(d, names):
    return [n for n in names if n in ("target", "work", "node_modules") or n.endswith((".o", ".a", ".log"))]
shutil.copytree(os.path.join(src, "demo"), os.path.join(dst, "demo"), ignore=ign)
meta = json.load(open(os.path.join(src, "meta.json")))
meta["confirmed_by_lead"] = mine
json.dump(meta, open(os.path.join(dst, "meta.json"), "w"), indent=1)
print("saved", dst)
