#!/bin/bash
# usage: tools/trymut.sh <patch.diff> <check-id> [more check ids...]
# Applies a patch to a scratch copy of /repo (outside /repo and /verif), runs the repo's test suite there,
# runs the given quick checks against it (VERIF_REPO), prints verdicts, removes the copy and its build output.
set -u
PATCH=$(realpath "$1"); shift
M=/var/tmp/dm-$$
rm -rf $M
git -C /repo worktree add -q --detach $M HEAD || exit 3
cd $M
if ! git apply "$PATCH"; then echo "PATCH DOES NOT APPLY"; cd /; git -C /repo worktree remove --force $M; exit 3; fi
echo "== repo test suite on mutant"
CARGO_TARGET_DIR=/var/tmp/dm-target cargo test --workspace --offline --no-fail-fast 2>&1 | grep -E "^test result|FAILED|failed|error(\[|:)" | sort | uniq -c | head -20
for c in "$@"; do
  echo "== check $c on mutant"
  (cd /verif && VERIF_REPO=$M timeout 1200 ./check $c --tier quick 2>&1 | grep -E "VIOLATION|KNOWN-FINDING|MACHINERY|^C[0-9]+ quick" | cut -c1-300 | head -12; echo "exit=${PIPESTATUS[0]}")
done
TAG=$(python3 -c "import hashlib;print(hashlib.sha1('$M'.encode()).hexdigest()[:8])")
cd /; git -C /repo worktree remove --force $M; git -C /repo worktree prune
rm -rf $M /verif/.build/*-$TAG /verif/.build/hx-$TAG
