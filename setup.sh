#!/bin/sh
# Builds the framework from files on disk only (offline). Idempotent.
set -e
cd "$(dirname "$0")"
export CARGO_NET_OFFLINE=true
mkdir -p .build evidence replays
python3 - <<'PY'
import sys, os
sys.path.insert(0, "lib")
from vlib.common import build_tool, build_harness
build_tool()
for h in sorted(os.listdir("harness")):
    if os.path.exists(os.path.join("harness", h, "Cargo.toml")) and not os.path.exists(os.path.join("harness", h, ".nosetup")):
        build_harness(h)
print("setup ok")
PY
