#!/bin/sh
# Builds the framework from files on disk only (offline). Idempotent.
set -e
cd "$(dirname "$0")"
export CARGO_NET_OFFLINE=true
mkdir -p .build evidence replays
python3 - <<'PY'
import sys, os
sys.path.insert(0, "lib")
from vlib.common import build_tool, build_harness
build_tool()
for h in sorted(os.listdir("harness")):
    if os.path.exists(os.path.join("harness", h, "Cargo.toml")) and not os.path.exists(os.path.join("harness", h, ".nosetup")):
        build_harness(h)
# pre-build the shared generated crate of the quick tier (C01 C02 C07 C09 C10 C12 reuse it)
sys.path.insert(0, ".")
try:
    from checks import c01
    b = c01.build_all("quick")
    print("ffix-quick:", "ok" if b["ok"] else "FAILED at " + b["stage"])
except Exception as e:  # never fail setup because of an optional warm-up
    print("ffix-quick warm-up skipped:", e)
print("setup ok")
PY
